//! vf_witness: closes the generic fatfs library into a concrete program for the static analysis.
//!
//! * `Dev`, `DevErr`, `Tp`, `Occ` are the *leaf* types: the analysis treats their trait methods as the
//!   storage device / clock / code page. Their bodies are irrelevant.
//! * every `root_*` function calls exactly one public API item (category = name prefix:
//!   `root_mount_`, `root_ro_`, `root_mut_`, `root_drop_`, `root_fmt_`, `root_util_`).
//! * `controls::control_*` are deliberately wrong functions: every rule must report its control on
//!   every run (positive controls), otherwise the rule is dead and the check exits 2.
//!
//! Nothing in here is ever executed.
#![allow(clippy::all)]
#![allow(dead_code, unused_variables, unused_mut, unused_imports)]
#![cfg_attr(not(feature = "std"), no_std)]

pub mod controls;

use fatfs::{IoBase, IoError, OemCpConverter, Read, Seek, SeekFrom, TimeProvider, Write};

// ---------------------------------------------------------------------------------------------
// leaf types

#[derive(Debug)]
pub struct DevErr {
    pub code: u32,
}

impl IoError for DevErr {
    fn is_interrupted(&self) -> bool {
        self.code == 4
    }
    fn new_unexpected_eof_error() -> Self {
        DevErr { code: 1 }
    }
    fn new_write_zero_error() -> Self {
        DevErr { code: 2 }
    }
}

#[derive(Clone)]
pub struct Dev {
    pub pos: u64,
}

impl IoBase for Dev {
    type Error = DevErr;
}
impl Read for Dev {
    fn read(&mut self, buf: &mut [u8]) -> Result<usize, DevErr> {
        Ok(buf.len())
    }
}
impl Write for Dev {
    fn write(&mut self, buf: &[u8]) -> Result<usize, DevErr> {
        Ok(buf.len())
    }
    fn flush(&mut self) -> Result<(), DevErr> {
        Ok(())
    }
}
impl Seek for Dev {
    fn seek(&mut self, pos: SeekFrom) -> Result<u64, DevErr> {
        Ok(self.pos)
    }
}

#[derive(Debug, Clone, Copy)]
pub struct Tp;
impl TimeProvider for Tp {
    fn get_current_date(&self) -> fatfs::Date {
        fatfs::Date::new(2020, 1, 1)
    }
    fn get_current_date_time(&self) -> fatfs::DateTime {
        fatfs::DateTime::new(fatfs::Date::new(2020, 1, 1), fatfs::Time::new(0, 0, 0, 0))
    }
}

#[derive(Debug, Clone, Copy)]
pub struct Occ;
impl OemCpConverter for Occ {
    fn decode(&self, oem_char: u8) -> char {
        oem_char as char
    }
    fn encode(&self, uni_char: char) -> Option<u8> {
        Some(uni_char as u8)
    }
}

// ---------------------------------------------------------------------------------------------
// roots, instantiated twice: with the leaf types (module `a`) and, when `std` is on, with the
// library defaults over StdIoWrapper<Cursor<Vec<u8>>> (module `b`)

macro_rules! roots {
    ($m:ident, $io:ty, $tp:ty, $occ:ty, $err:ty) => {
        pub mod $m {
            use super::*;
            use fatfs::*;
            pub type Fs = FileSystem<$io, $tp, $occ>;
            pub type D<'a> = Dir<'a, $io, $tp, $occ>;
            pub type F<'a> = File<'a, $io, $tp, $occ>;
            pub type E<'a> = DirEntry<'a, $io, $tp, $occ>;
            pub type It<'a> = DirIter<'a, $io, $tp, $occ>;
            pub type R<T> = Result<T, Error<$err>>;

            // ---- mount
            pub fn root_mount_new(io: $io, o: FsOptions<$tp, $occ>) -> R<Fs> {
                FileSystem::new(io, o)
            }

            // ---- read-only
            pub fn root_ro_fs_fat_type(fs: &Fs) -> FatType {
                fs.fat_type()
            }
            pub fn root_ro_fs_volume_id(fs: &Fs) -> u32 {
                fs.volume_id()
            }
            pub fn root_ro_fs_volume_label_as_bytes(fs: &Fs) -> &[u8] {
                fs.volume_label_as_bytes()
            }
            #[cfg(feature = "alloc")]
            pub fn root_ro_fs_volume_label(fs: &Fs) -> String {
                fs.volume_label()
            }
            pub fn root_ro_fs_cluster_size(fs: &Fs) -> u32 {
                fs.cluster_size()
            }
            pub fn root_ro_fs_read_status_flags(fs: &Fs) -> R<FsStatusFlags> {
                fs.read_status_flags()
            }
            pub fn root_ro_fs_stats(fs: &Fs) -> R<FileSystemStats> {
                fs.stats()
            }
            pub fn root_ro_fs_root_dir(fs: &Fs) -> D<'_> {
                fs.root_dir()
            }
            #[cfg(feature = "alloc")]
            pub fn root_ro_fs_read_volume_label_from_root_dir(fs: &Fs) -> R<Option<String>> {
                fs.read_volume_label_from_root_dir()
            }
            pub fn root_ro_fs_read_volume_label_from_root_dir_as_bytes(fs: &Fs) -> R<Option<[u8; 11]>> {
                fs.read_volume_label_from_root_dir_as_bytes()
            }
            pub fn root_ro_fs_unmount(fs: Fs) -> R<()> {
                fs.unmount()
            }
            pub fn root_ro_dir_iter<'a>(d: &D<'a>) -> It<'a> {
                d.iter()
            }
            pub fn root_ro_dir_open_dir<'a>(d: &D<'a>, p: &str) -> R<D<'a>> {
                d.open_dir(p)
            }
            pub fn root_ro_dir_open_file<'a>(d: &D<'a>, p: &str) -> R<F<'a>> {
                d.open_file(p)
            }
            pub fn root_ro_dir_clone<'a>(d: &D<'a>) -> D<'a> {
                d.clone()
            }
            pub fn root_ro_diriter_next<'a>(it: &mut It<'a>) -> Option<R<E<'a>>> {
                it.next()
            }
            pub fn root_ro_diriter_clone<'a>(it: &It<'a>) -> It<'a> {
                it.clone()
            }
            #[cfg(feature = "alloc")]
            pub fn root_ro_entry_short_file_name(e: &E<'_>) -> String {
                e.short_file_name()
            }
            pub fn root_ro_entry_short_file_name_as_bytes<'b>(e: &'b E<'_>) -> &'b [u8] {
                e.short_file_name_as_bytes()
            }
            #[cfg(feature = "lfn")]
            pub fn root_ro_entry_long_file_name_as_ucs2_units<'b>(e: &'b E<'_>) -> Option<&'b [u16]> {
                e.long_file_name_as_ucs2_units()
            }
            #[cfg(feature = "alloc")]
            pub fn root_ro_entry_file_name(e: &E<'_>) -> String {
                e.file_name()
            }
            pub fn root_ro_entry_attributes(e: &E<'_>) -> FileAttributes {
                e.attributes()
            }
            pub fn root_ro_entry_is_dir(e: &E<'_>) -> bool {
                e.is_dir()
            }
            pub fn root_ro_entry_is_file(e: &E<'_>) -> bool {
                e.is_file()
            }
            pub fn root_ro_entry_to_file<'a>(e: &E<'a>) -> F<'a> {
                e.to_file()
            }
            pub fn root_ro_entry_to_dir<'a>(e: &E<'a>) -> D<'a> {
                e.to_dir()
            }
            pub fn root_ro_entry_len(e: &E<'_>) -> u64 {
                e.len()
            }
            pub fn root_ro_entry_created(e: &E<'_>) -> DateTime {
                e.created()
            }
            pub fn root_ro_entry_accessed(e: &E<'_>) -> Date {
                e.accessed()
            }
            pub fn root_ro_entry_modified(e: &E<'_>) -> DateTime {
                e.modified()
            }
            pub fn root_ro_entry_fmt(e: &E<'_>, f: &mut core::fmt::Formatter<'_>) -> core::fmt::Result {
                core::fmt::Debug::fmt(e, f)
            }
            pub fn root_ro_file_read(f: &mut F<'_>, buf: &mut [u8]) -> R<usize> {
                Read::read(f, buf)
            }
            pub fn root_ro_file_read_exact(f: &mut F<'_>, buf: &mut [u8]) -> R<()> {
                Read::read_exact(f, buf)
            }
            pub fn root_ro_file_seek(f: &mut F<'_>, pos: SeekFrom) -> R<u64> {
                Seek::seek(f, pos)
            }
            pub fn root_ro_file_extents(f: &mut F<'_>) -> Option<R<Extent>> {
                let mut it = f.extents();
                it.next()
            }
            pub fn root_ro_file_clone<'a>(f: &F<'a>) -> F<'a> {
                f.clone()
            }
            pub fn root_ro_status_dirty(s: &FsStatusFlags) -> bool {
                s.dirty()
            }
            pub fn root_ro_status_io_error(s: &FsStatusFlags) -> bool {
                s.io_error()
            }
            pub fn root_ro_stats_all(s: &FileSystemStats) -> (u32, u32, u32) {
                (s.cluster_size(), s.total_clusters(), s.free_clusters())
            }

            // ---- mutating
            pub fn root_mut_dir_create_file<'a>(d: &D<'a>, p: &str) -> R<F<'a>> {
                d.create_file(p)
            }
            pub fn root_mut_dir_create_dir<'a>(d: &D<'a>, p: &str) -> R<D<'a>> {
                d.create_dir(p)
            }
            pub fn root_mut_dir_remove(d: &D<'_>, p: &str) -> R<()> {
                d.remove(p)
            }
            pub fn root_mut_dir_rename(d: &D<'_>, s: &str, dst: &D<'_>, p: &str) -> R<()> {
                d.rename(s, dst, p)
            }
            pub fn root_mut_file_write(f: &mut F<'_>, buf: &[u8]) -> R<usize> {
                Write::write(f, buf)
            }
            pub fn root_mut_file_write_all(f: &mut F<'_>, buf: &[u8]) -> R<()> {
                Write::write_all(f, buf)
            }
            pub fn root_mut_file_flush(f: &mut F<'_>) -> R<()> {
                Write::flush(f)
            }
            pub fn root_mut_file_truncate(f: &mut F<'_>) -> R<()> {
                f.truncate()
            }
            pub fn root_mut_file_set_created(f: &mut F<'_>, t: DateTime) {
                f.set_created(t)
            }
            pub fn root_mut_file_set_accessed(f: &mut F<'_>, t: Date) {
                f.set_accessed(t)
            }
            pub fn root_mut_file_set_modified(f: &mut F<'_>, t: DateTime) {
                f.set_modified(t)
            }

            // ---- destructors (the only roots that drop a handle they were given)
            pub fn root_drop_file(f: F<'_>) {
                drop(f)
            }
            pub fn root_drop_dir(d: D<'_>) {
                drop(d)
            }
            pub fn root_drop_diriter(it: It<'_>) {
                drop(it)
            }
            pub fn root_drop_entry(e: E<'_>) {
                drop(e)
            }
            pub fn root_drop_fs(fs: Fs) {
                drop(fs)
            }

            // ---- formatting
            pub fn root_fmt_format_volume(io: &mut $io, o: FormatVolumeOptions) -> R<()> {
                format_volume(io, o)
            }

            // ---- options
            pub fn root_util_fsoptions(o: FsOptions<$tp, $occ>) -> FsOptions<$tp, $occ> {
                o.update_accessed_date(true).strict(false)
            }
            pub fn root_util_fsoptions_tp(o: FsOptions<$tp, $occ>, tp: $tp) -> FsOptions<$tp, $occ> {
                o.time_provider(tp)
            }
            pub fn root_util_fsoptions_occ(o: FsOptions<$tp, $occ>, occ: $occ) -> FsOptions<$tp, $occ> {
                o.oem_cp_converter(occ)
            }
        }
    };
}

roots!(a, Dev, Tp, Occ, DevErr);

#[cfg(feature = "std")]
pub type StdDev = fatfs::StdIoWrapper<std::io::Cursor<Vec<u8>>>;

#[cfg(feature = "std")]
roots!(b, StdDev, fatfs::DefaultTimeProvider, fatfs::LossyOemCpConverter, std::io::Error);

// roots that exist once
pub mod u {
    use super::*;
    use fatfs::*;

    pub fn root_ro_entry_clone<'a>(e: &a::E<'a>) -> a::E<'a> {
        e.clone()
    }
    pub fn root_util_fsoptions_new() -> FsOptions<DefaultTimeProvider, LossyOemCpConverter> {
        FsOptions::new()
    }
    pub fn root_util_format_options() -> FormatVolumeOptions {
        FormatVolumeOptions::new()
            .bytes_per_cluster(512)
            .fat_type(FatType::Fat12)
            .bytes_per_sector(512)
            .total_sectors(100)
            .max_root_dir_entries(16)
            .fats(2)
            .media(0xF8)
            .sectors_per_track(1)
            .heads(1)
            .drive_num(0)
            .volume_id(1)
            .volume_label(*b"ABCDEFGHIJK")
    }
    pub fn root_util_format_options_default() -> FormatVolumeOptions {
        FormatVolumeOptions::default()
    }
    pub fn root_util_date_new(y: u16, m: u16, d: u16) -> Date {
        Date::new(y, m, d)
    }
    pub fn root_util_time_new(h: u16, m: u16, s: u16, ms: u16) -> Time {
        Time::new(h, m, s, ms)
    }
    pub fn root_util_datetime_new(d: Date, t: Time) -> DateTime {
        DateTime::new(d, t)
    }
    pub fn root_util_null_tp() -> (Date, DateTime) {
        let tp = NullTimeProvider::new();
        (tp.get_current_date(), tp.get_current_date_time())
    }
    pub fn root_util_lossy_occ(c: u8, u: char) -> (char, Option<u8>) {
        let o = LossyOemCpConverter::new();
        (o.decode(c), o.encode(u))
    }
    pub fn root_util_error_display(e: &Error<DevErr>, f: &mut core::fmt::Formatter<'_>) -> core::fmt::Result
    where
        DevErr: core::fmt::Debug,
    {
        core::fmt::Debug::fmt(e, f)
    }
    pub fn root_util_error_from(e: DevErr) -> Error<DevErr> {
        Error::from(e)
    }
    pub fn root_util_error_ioerror(e: &Error<DevErr>) -> (bool, Error<DevErr>, Error<DevErr>) {
        (
            e.is_interrupted(),
            <Error<DevErr> as IoError>::new_unexpected_eof_error(),
            <Error<DevErr> as IoError>::new_write_zero_error(),
        )
    }
    pub fn root_util_unit_ioerror() -> bool {
        <() as IoError>::new_unexpected_eof_error();
        <() as IoError>::new_write_zero_error();
        ().is_interrupted()
    }
    pub fn root_util_attrs(a: FileAttributes) -> u8 {
        a.bits()
    }

    #[cfg(feature = "std")]
    pub mod s {
        use super::super::*;
        use fatfs::*;
        pub type F<'a> = File<'a, StdDev, DefaultTimeProvider, LossyOemCpConverter>;

        pub fn root_mount_new_from_std(
            io: std::io::Cursor<Vec<u8>>,
            o: FsOptions<DefaultTimeProvider, LossyOemCpConverter>,
        ) -> Result<FileSystem<StdDev>, Error<std::io::Error>> {
            FileSystem::new(io, o)
        }
        pub fn root_ro_std_file_read(f: &mut F<'_>, buf: &mut [u8]) -> std::io::Result<usize> {
            std::io::Read::read(f, buf)
        }
        pub fn root_ro_std_file_seek(f: &mut F<'_>, p: std::io::SeekFrom) -> std::io::Result<u64> {
            std::io::Seek::seek(f, p)
        }
        pub fn root_mut_std_file_write(f: &mut F<'_>, buf: &[u8]) -> std::io::Result<usize> {
            std::io::Write::write(f, buf)
        }
        pub fn root_mut_std_file_write_all(f: &mut F<'_>, buf: &[u8]) -> std::io::Result<()> {
            std::io::Write::write_all(f, buf)
        }
        pub fn root_mut_std_file_flush(f: &mut F<'_>) -> std::io::Result<()> {
            std::io::Write::flush(f)
        }
        pub fn root_util_stdio_wrapper(c: std::io::Cursor<Vec<u8>>) -> std::io::Cursor<Vec<u8>> {
            let w = StdIoWrapper::new(c);
            let w2: StdIoWrapper<std::io::Cursor<Vec<u8>>> = StdIoWrapper::from(w.into_inner());
            w2.into_inner()
        }
        pub fn root_util_stdio_wrapper_io(w: &mut StdDev, buf: &mut [u8]) -> Result<(), std::io::Error> {
            Read::read(w, buf)?;
            Read::read_exact(w, buf)?;
            Write::write(w, buf)?;
            Write::write_all(w, buf)?;
            Write::flush(w)?;
            Seek::seek(w, SeekFrom::Start(0))?;
            Ok(())
        }
        pub fn root_util_seekfrom(a: SeekFrom, b: std::io::SeekFrom) -> (std::io::SeekFrom, SeekFrom) {
            (a.into(), b.into())
        }
        pub fn root_util_error_into_std(e: Error<std::io::Error>) -> std::io::Error {
            e.into()
        }
        pub fn root_util_error_source(e: &Error<std::io::Error>) -> bool {
            std::error::Error::source(e).is_some()
        }
        pub fn root_util_error_display(e: &Error<std::io::Error>) -> String {
            format!("{}", e)
        }
        pub fn root_util_std_ioerror(e: &std::io::Error) -> (bool, std::io::Error, std::io::Error) {
            (
                e.is_interrupted(),
                <std::io::Error as IoError>::new_unexpected_eof_error(),
                <std::io::Error as IoError>::new_write_zero_error(),
            )
        }
    }

    #[cfg(feature = "chrono")]
    pub mod c {
        use fatfs::*;
        pub fn root_util_chrono_tp() -> (Date, DateTime) {
            let tp = ChronoTimeProvider::new();
            (tp.get_current_date(), tp.get_current_date_time())
        }
        pub fn root_util_chrono_from_date(d: Date) -> chrono::NaiveDate {
            d.into()
        }
        pub fn root_util_chrono_from_datetime(d: DateTime) -> chrono::NaiveDateTime {
            d.into()
        }
        pub fn root_util_chrono_into_date(d: chrono::NaiveDate) -> Date {
            d.into()
        }
        pub fn root_util_chrono_into_datetime(d: chrono::NaiveDateTime) -> DateTime {
            d.into()
        }
        pub fn root_util_default_tp() -> (Date, DateTime) {
            let tp = DefaultTimeProvider::new();
            (tp.get_current_date(), tp.get_current_date_time())
        }
    }
}
