//! Positive controls: deliberately wrong functions, one per rule. Never executed.
//! Every run must report each of them (tagged as controls, never counted as violations);
//! a rule that misses its control makes the check exit 2 ("rule dead").
use super::*;
use core::cell::RefCell;
use fatfs::Error;

pub struct CtlFs {
    pub disk: RefCell<Dev>,
}

// ---- C09
pub fn control_r9_1_dropped(d: &mut Dev, buf: &mut [u8]) -> Result<(), Error<DevErr>> {
    Read::read(d, buf);
    Ok(())
}
pub fn control_r9_2_swallowed(d: &mut Dev, buf: &mut [u8]) -> Result<usize, Error<DevErr>> {
    match Read::read(d, buf) {
        Ok(n) => Ok(n),
        Err(_) => Ok(0),
    }
}
pub fn control_r9_3_relabelled(d: &mut Dev, buf: &mut [u8]) -> Result<usize, Error<DevErr>> {
    if Read::read(d, buf).is_err() {
        return Err(Error::InvalidInput);
    }
    Ok(0)
}
pub fn control_r9_4_loops(d: &mut Dev, buf: &mut [u8]) -> Result<usize, Error<DevErr>> {
    loop {
        match Read::read(d, buf) {
            Ok(n) => return Ok(n),
            Err(_) => {}
        }
    }
}
pub fn control_r9_5_unwrap(d: &mut Dev, buf: &mut [u8]) -> usize {
    Read::read(d, buf).unwrap()
}
fn ctl_borrows_disk(fs: &CtlFs) -> u64 {
    fs.disk.borrow_mut().pos
}
pub fn control_r9_6_reborrow(fs: &CtlFs) -> u64 {
    let g = fs.disk.borrow_mut();
    let r = ctl_borrows_disk(fs);
    drop(g);
    r
}

/// R9.7 control: results that can carry a storage error are flattened away inside a library adaptor
pub fn control_r9_7_flatten(d: &mut Dev, bufs: &mut [[u8; 4]; 3]) -> usize {
    let mut n = 0;
    for got in bufs.iter_mut().map(|b| Read::read(d, b).map_err(Error::<DevErr>::from)).flatten() {
        n += got;
    }
    n
}

// ---- C13
pub struct CtlEditor {
    pub dirty: bool,
}
/// O1 control: a "read-only" root that writes to the device with no latch in front
pub fn control_o1_ro_root_writes(d: &mut Dev, buf: &[u8]) -> Result<usize, DevErr> {
    Write::write(d, buf)
}
/// O2 control: a "read-only" root that sets a write-back latch
pub fn control_o2_ro_root_sets_latch(e: &mut CtlEditor) {
    e.dirty = true;
}

// ---- C14
/// P3 control: the latch is cleared before the write has succeeded
pub fn control_p3_clear_before_write(e: &mut CtlEditor, d: &mut Dev, buf: &[u8]) -> Result<(), Error<DevErr>> {
    if e.dirty {
        e.dirty = false;
        Write::write_all(d, buf)?;
    }
    Ok(())
}
/// P4 control: a flush that does not forward
pub fn control_p4_flush_impl(d: &mut Dev) -> Result<(), DevErr> {
    Ok(())
}

// ---- C12
/// Q1 control: a device write with no dirty-flag role (not flagged, not latch-guarded)
pub fn control_q1_unflagged_write(fs: &CtlFs, buf: &[u8]) -> Result<usize, DevErr> {
    let mut d = fs.disk.borrow_mut();
    Write::write(&mut *d, buf)
}

// ---- C05
pub struct CtlInfo {
    pub free_cluster_count: Option<u32>,
    pub next_free_cluster: Option<u32>,
    pub dirty: bool,
}
/// A5.2 control: a counter setter that forgets the latch
pub fn control_a5_2_setter_without_latch(i: &mut CtlInfo, n: u32) {
    i.free_cluster_count = Some(n);
}
fn ctl_fat_mutator(d: &mut Dev) -> Result<u32, Error<DevErr>> {
    Ok(Write::write(d, &[0u8; 4])? as u32)
}
fn ctl_counter_update(i: &mut CtlInfo, n: u32) {
    i.free_cluster_count = Some(n);
    i.dirty = true;
}
/// A5.1 control: a FAT mutation whose Ok path does not update the cached count
pub fn control_a5_1_unaccounted(d: &mut Dev, i: &mut CtlInfo, skip: bool) -> Result<(), Error<DevErr>> {
    let n = ctl_fat_mutator(d)?;
    if !skip {
        ctl_counter_update(i, n);
    }
    Ok(())
}

// ---- C15 / C01
fn ctl_validate(name: &str) -> Result<(), Error<DevErr>> {
    if name.is_empty() {
        return Err(Error::InvalidFileNameLength);
    }
    Ok(())
}
/// N1 control: writes before the name is validated
pub fn control_n1_write_before_validate(d: &mut Dev, name: &str) -> Result<(), Error<DevErr>> {
    Write::write(d, name.as_bytes())?;
    ctl_validate(name)?;
    Ok(())
}

// ---- C11
/// R11.2 control: a raw device write with no seek in front of it
pub fn control_r11_2_write_without_seek(fs: &CtlFs, buf: &[u8]) -> Result<usize, DevErr> {
    let mut d = fs.disk.borrow_mut();
    Write::write(&mut *d, buf)
}
/// R11.1 control: a raw device write positioned by an arbitrary caller-supplied offset
pub fn control_r11_1_unclassified_offset(fs: &CtlFs, at: u64, buf: &[u8]) -> Result<usize, DevErr> {
    let mut d = fs.disk.borrow_mut();
    Seek::seek(&mut *d, SeekFrom::Start(at))?;
    Write::write(&mut *d, buf)
}

/// R9.8 control: `find` with a predicate that is false for an `Err` item drops the failed read
pub fn control_r9_8_find(d: &mut Dev, bufs: &mut [[u8; 4]; 3]) -> bool {
    bufs.iter_mut()
        .map(|b| Read::read(d, b).map_err(Error::<DevErr>::from))
        .find(|r| r.as_ref().map_or(false, |n| *n == 4))
        .is_some()
}

/// N8 control: a UTF-8 byte count compared with a UTF-16 unit count
pub fn control_n8_units(name: &str, units: &[u16]) -> bool {
    name.len() == units.len()
}

/// reference value (not a control): the variant of `std::io::ErrorKind` that means "interrupted", as this toolchain
/// numbers it - rule R9.9 compares the library's retry predicate with it
#[cfg(feature = "std")]
pub fn control_ref_errorkind_interrupted() -> std::io::ErrorKind {
    std::io::ErrorKind::Interrupted
}
