#!/usr/bin/env python3
"""Targeted regression of a few properties over every corpus item (after a change confined to their rule modules).

usage: prop_regression.py <pid>[,<pid>..] [jobs]

Runs the named checks on every behaviour-preserving patch of seeded/benign (each must stay silent) and on every seeded
breaking change (the rules fired must equal what seeded/EXPECT.json records for those properties); prints the differences.
About 6 minutes for one property with 14 jobs; the full runs are `selftest.py benign-dir seeded/benign 8` and
`selftest.py record 8`."""
import json
import os
import sys

sys.path.insert(0, os.path.join(os.path.dirname(os.path.dirname(os.path.abspath(__file__))), 'checker'))
import selftest  # noqa: E402
from concurrent.futures import ProcessPoolExecutor  # noqa: E402

PIDS = sys.argv[1].split(',') if len(sys.argv) > 1 else []


def one(p):
    try:
        return p, selftest.run_seed(p, PIDS, '/repo')
    except Exception as e:  # noqa: BLE001
        return p, 'EXC %r' % e


if __name__ == '__main__':
    if not PIDS:
        sys.exit(__doc__)
    jobs = int(sys.argv[2]) if len(sys.argv) > 2 else 14
    b = os.path.join(selftest.SEEDED, 'benign')
    items = [os.path.join(b, f) for f in sorted(os.listdir(b)) if f.endswith('.diff')]
    items += sorted(d for d in os.listdir(selftest.SEEDED) if os.path.exists(os.path.join(selftest.SEEDED, d, 'patch.diff')))
    exp = json.load(open(os.path.join(selftest.SEEDED, 'EXPECT.json')))['seeds']
    bad = 0
    with ProcessPoolExecutor(max_workers=jobs) as ex:
        for p, r in ex.map(one, items):
            name = os.path.basename(p)
            if name.endswith('.diff'):
                if not isinstance(r, dict) or any(r.values()):
                    print('BENIGN ALARM', name, json.dumps(r), flush=True)
                    bad += 1
            else:
                for pid in PIDS:
                    old = sorted(exp.get(name, {}).get('checks', {}).get(pid, []))
                    new = sorted(r.get(pid, [])) if isinstance(r, dict) else [r]
                    if old != new:
                        print('SEED DIFF', name, pid, old, '->', new, flush=True)
                        bad += 1
    print('%d items, %d differences' % (len(items), bad))
    sys.exit(1 if bad else 0)
