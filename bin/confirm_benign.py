#!/usr/bin/env python3
"""Confirm behaviour-preserving refactorings produced by a sub-agent and install them under /verif/seeded/benign/.

usage: confirm_benign.py <slot> <agent OUT dir> <prefix>      (installs <prefix><nn>-<slug>.diff for every r<n>.diff)

For each patch, in the reusable scratch worktree /var/tmp/vf-confirm/<slot> (never in /repo): git apply; the library
builds under the four feature sets; `cargo test --workspace` passes every baseline test; the agent's differential
trace harness (tests/trace_*.rs: device-operation log under fault injection) prints the same output with and without
the patch."""
import hashlib
import json
import os
import re
import shutil
import subprocess
import sys

sys.path.insert(0, os.path.dirname(os.path.abspath(__file__)))
from confirm_seed import ROOT, BASE, sh, passed_tests  # noqa: E402

HENV = os.environ.get('VF_HARNESS_ENV', '')
FEATS = ['', '--no-default-features --features std,lfn,unicode', '--no-default-features --features std,alloc,lfn',
         '--no-default-features']


def norm(out):
    keep = []
    for l in out.splitlines():
        if re.search(r'finished in|Finished|Running|Compiling|warning|^\s*$|-->|^\s*\||^\s*=|has been running', l):
            continue
        keep.append(re.sub(r'\d+\.\d+s', 'Ts', l))
    return '\n'.join(keep)


def main():
    slot, out, prefix = sys.argv[1:4]
    wt = os.path.join(ROOT, slot)
    os.makedirs(ROOT, exist_ok=True)
    head = subprocess.check_output(['git', '-C', '/repo', 'rev-parse', '--short', 'HEAD'], text=True).strip()
    if not os.path.isdir(wt):
        subprocess.check_call(['git', '-C', '/repo', 'worktree', 'add', '-q', '--detach', wt, 'HEAD'])
    sh('git checkout -q --detach %s && git checkout -q -- . && git clean -fdq -e target' % head, wt)
    if os.path.exists('/repo/Cargo.lock'):
        shutil.copy('/repo/Cargo.lock', wt)
    harness = [f for f in os.listdir(out) if f.startswith('trace_') and f.endswith('.rs')]
    ref = None
    hname = None
    self_checking = False
    if harness:
        hname = os.path.splitext(harness[0])[0]
        src = open(os.path.join(out, harness[0])).read()
        # a harness that asserts its own hard-coded reference digest: passing IS equality (its printed timings may differ)
        self_checking = bool(re.search(r'assert(_eq)?!\s*\(', src)) and bool(re.search(r'(?i)(reference|expected|REF)[A-Za-z_]*', src))
        shutil.copy(os.path.join(out, harness[0]), os.path.join(wt, 'tests', harness[0]))
        rc, o = sh(HENV + 'cargo test --offline --test %s -- --nocapture --test-threads 1 2>&1' % hname, wt, timeout=7200)
        if rc != 0:
            print('harness does not pass on the unchanged tree; continuing without it')
            print(o[-1500:])
            hname = None
            os.remove(os.path.join(wt, 'tests', harness[0]))
        else:
            ref = hashlib.sha256(norm(o).encode()).hexdigest()
    nums = sorted(int(m.group(1)) for m in (re.match(r'r(\d+)\.diff$', f) for f in os.listdir(out)) if m)
    for n in nums:
        patch = os.path.join(out, 'r%d.diff' % n)
        md = os.path.join(out, 'r%d.md' % n)
        title = ''
        if os.path.exists(md):
            for l in open(md):
                l = l.strip().lstrip('#').strip()
                if l:
                    title = l
                    break
        slug = re.sub(r'[^a-z0-9]+', '-', title.lower())[:48].strip('-') or 'refactor'
        name = '%s%02d-%s.diff' % (prefix, n, slug)
        sh('git checkout -q -- src', wt)
        rc, o = sh('git apply --whitespace=nowarn %s' % patch, wt)
        if rc != 0:
            print('r%d: NOT INSTALLED: patch does not apply' % n)
            continue
        bad = None
        for f in FEATS:
            rc, o = sh('cargo build --offline %s 2>&1' % f, wt)
            if rc != 0:
                bad = 'does not build with `%s`' % f
                break
        if bad is None:
            rc, o = sh('cargo test --workspace --no-fail-fast --offline 2>&1', wt, timeout=3600)
            missing = sorted(BASE - passed_tests(o))
            if missing:
                bad = 'baseline tests fail: %s' % missing[:5]
        if bad is None and hname:
            rc, o = sh(HENV + 'cargo test --offline --test %s -- --nocapture --test-threads 1 2>&1' % hname, wt, timeout=7200)
            same = hashlib.sha256(norm(o).encode()).hexdigest() == ref
            if rc != 0 or not (same or self_checking):
                bad = 'trace harness output differs from the unchanged tree (rc=%d)' % rc
        if bad:
            print('r%d: NOT INSTALLED: %s' % (n, bad))
            continue
        shutil.copy(patch, os.path.join('/verif/seeded/benign', name))
        print('r%d: installed as %s (%s; harness %s)' % (n, name, title[:70], 'equal' if hname else 'n/a'))
    sh('git checkout -q -- . && git clean -fdq -e target', wt)


if __name__ == '__main__':
    main()
