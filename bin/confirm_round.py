#!/usr/bin/env python3
"""confirm every finished sub-agent output under <dir>/<Cxx>/OUT (patch1/2.diff, demo_Cxx_1/2.rs, notes1/2.md) that is not
yet installed: usage confirm_round.py <dir> <letter for patch1> <letter for patch2> <round> [jobs]"""
import os
import subprocess
import sys
from concurrent.futures import ThreadPoolExecutor
import queue

d, l1, l2, rnd = sys.argv[1:5]
jobs = int(sys.argv[5]) if len(sys.argv) > 5 else 4
slots = queue.Queue()
for i in range(jobs):
    slots.put('%s%d' % (os.environ.get('VF_SLOT_PREFIX', 's'), i))
FEATS = {}


def one(pid, n, letter):
    out = os.path.join(d, pid, 'OUT')
    sid = '%s-%s' % (pid, letter)
    patch, demo, notes = (os.path.join(out, x) for x in ('patch%d.diff' % n, 'demo_%s_%d.rs' % (pid, n), 'notes%d.md' % n))
    if os.path.exists('/verif/seeded/%s/meta.json' % sid):
        return sid, 'already installed'
    if not all(os.path.exists(x) for x in (patch, demo, notes)):
        return sid, 'output incomplete'
    slot = slots.get()
    try:
        cmd = ['python3', '/verif/bin/confirm_seed.py', slot, sid, pid, patch, demo, notes, rnd]
        ff = os.path.join(out, 'features%d.txt' % n)
        if os.path.exists(ff):
            cmd += ['--features', open(ff).read().strip()]
        r = subprocess.run(cmd, capture_output=True, text=True)
        open('/var/tmp/conf_%s.log' % sid, 'w').write(r.stdout + r.stderr)
        return sid, (r.stdout.strip().splitlines() or ['?'])[0]
    finally:
        slots.put(slot)


todo = []
for pid in sorted(os.listdir(d)):
    if os.path.isdir(os.path.join(d, pid, 'OUT')):
        todo += [(pid, 1, l1), (pid, 2, l2)]
with ThreadPoolExecutor(max_workers=jobs) as ex:
    for sid, res in ex.map(lambda a: one(*a), todo):
        print(sid, '->', res, flush=True)
