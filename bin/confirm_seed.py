#!/usr/bin/env python3
"""Confirm a seeded change produced by a sub-agent and install it under /verif/seeded/<id>/.

usage: confirm_seed.py <slot> <id> <property> <patch.diff> <demo.rs> <notes.md> [round] [--features "<cargo feature args>"]

<slot> names a reusable scratch worktree /var/tmp/vf-confirm/<slot> (own warm target directory, so several
confirmations can run side by side under different slots). Steps, all in the scratch worktree, never in /repo:
  1. reset the worktree to /repo's HEAD, copy the demo into tests/, run it: must PASS;
  2. apply the patch, `cargo build --offline`: must build; run the demo: must FAIL;
  3. `cargo test --workspace --no-fail-fast --offline`: every test of /root/.vp/BASELINE.json stable_pass must pass.
Only then is seeded/<id>/ written (patch.diff, demo, notes.md, meta.json). The worktree is kept for the next call of the
same slot (remove with `confirm_seed.py --clean`)."""
import json
import os
import re
import shutil
import subprocess
import sys

ROOT = '/var/tmp/vf-confirm'
BASE = set(json.load(open('/root/.vp/BASELINE.json'))['stable_pass'])


def sh(cmd, cwd, timeout=1800):
    env = dict(os.environ, CARGO_NET_OFFLINE='true')
    r = subprocess.run(cmd, cwd=cwd, shell=True, capture_output=True, text=True, timeout=timeout, env=env)
    return r.returncode, r.stdout + r.stderr


def passed_tests(out):
    cur = None
    ok = set()
    for line in out.splitlines():
        m = re.search(r'Running (unittests )?(\S+)', line)
        if m:
            path = m.group(2)
            if path.startswith('src/'):
                cur = 'fatfs::'
            else:
                cur = 'fatfs::' + os.path.splitext(os.path.basename(path))[0] + '::'
            continue
        m = re.match(r'^test (\S+)(?: - should panic)? \.\.\. ok$', line.strip())
        if m and cur:
            ok.add(cur + m.group(1))
    return ok


def main():
    if sys.argv[1] == '--clean':
        for n in os.listdir(ROOT) if os.path.isdir(ROOT) else []:
            subprocess.run(['git', '-C', '/repo', 'worktree', 'remove', '--force', os.path.join(ROOT, n)])
        shutil.rmtree(ROOT, ignore_errors=True)
        subprocess.run(['git', '-C', '/repo', 'worktree', 'prune'])
        return 0
    args = sys.argv[1:]
    feats = ''
    if '--features' in args:
        i = args.index('--features')
        feats = args[i + 1]
        del args[i:i + 2]
    slot, sid, pid, patch, demo, notes = args[:6]
    rnd = int(args[6]) if len(args) > 6 else 4
    wt = os.path.join(ROOT, slot)
    os.makedirs(ROOT, exist_ok=True)
    head = subprocess.check_output(['git', '-C', '/repo', 'rev-parse', '--short', 'HEAD'], text=True).strip()
    if not os.path.isdir(wt):
        subprocess.check_call(['git', '-C', '/repo', 'worktree', 'add', '-q', '--detach', wt, 'HEAD'])
    sh('git checkout -q --detach %s && git checkout -q -- . && git clean -fdq -e target' % head, wt)
    if os.path.exists('/repo/Cargo.lock'):
        shutil.copy('/repo/Cargo.lock', wt)
    demo_name = os.path.splitext(os.path.basename(demo))[0]
    shutil.copy(demo, os.path.join(wt, 'tests', demo_name + '.rs'))
    res = {'patch_applies': False}
    log = []

    def fail(why):
        print('%s: NOT CONFIRMED: %s' % (sid, why))
        print('\n'.join(log)[-3000:])
        return 1

    rc, out = sh('cargo test --offline %s --test %s 2>&1' % (feats, demo_name), wt)
    log.append(out[-1500:])
    if rc != 0:
        return fail('demo does not pass on the unchanged tree')
    res['demo_passes_without_patch'] = True
    rc, out = sh('git apply --whitespace=nowarn %s' % os.path.abspath(patch), wt)
    if rc != 0:
        log.append(out)
        return fail('patch does not apply')
    res['patch_applies'] = True
    rc, out = sh('cargo build --offline 2>&1', wt)
    if rc != 0:
        log.append(out[-1500:])
        return fail('library does not build with the patch')
    res['library_builds'] = True
    rc, out = sh('cargo test --offline %s --test %s 2>&1' % (feats, demo_name), wt)
    log.append(out[-1500:])
    if rc == 0:
        return fail('demo still passes with the patch')
    if 'could not compile' in out:
        return fail('demo does not compile with the patch')
    res['demo_fails_with_patch'] = True
    demo_fail = [l for l in out.splitlines() if 'panicked at' in l or 'assertion' in l][:3]
    os.remove(os.path.join(wt, 'tests', demo_name + '.rs'))
    rc, out = sh('cargo test --workspace --no-fail-fast --offline 2>&1', wt, timeout=3600)
    ok = passed_tests(out)
    missing = sorted(BASE - ok)
    if missing:
        log.append(out[-2500:])
        return fail('baseline tests fail with the patch: %s' % missing[:6])
    res['baseline_70_tests_pass_with_patch'] = True
    files = subprocess.check_output(['git', 'diff', '--name-only'], cwd=wt, text=True).split()
    sh('git checkout -q -- .', wt)
    dst = os.path.join('/verif/seeded', sid)
    os.makedirs(dst, exist_ok=True)
    shutil.copy(patch, os.path.join(dst, 'patch.diff'))
    shutil.copy(demo, os.path.join(dst, os.path.basename(demo)))
    shutil.copy(notes, os.path.join(dst, 'notes.md'))
    title = ''
    for l in open(notes):
        l = l.strip().lstrip('#').strip()
        if l:
            title = re.sub(r'^(title|change \d+)\s*[:\-]\s*', '', l, flags=re.I)
            break
    props = {json.loads(l)['id']: json.loads(l)['title'] for l in open('/verif/properties.jsonl')}
    res['how'] = ('bin/confirm_seed.py in a scratch git worktree of /repo at the commit above: demo run without the patch, '
                  'git apply, cargo build --offline, demo again, cargo test --workspace --no-fail-fast --offline compared by '
                  'name with the 70 baseline tests')
    if feats:
        res['demo_features'] = feats
    res['demo_failure'] = demo_fail
    meta = {'property': pid, 'property_title': props[pid], 'variant': sid.split('-')[1], 'round': rnd, 'title': title,
            'origin': 'independent sub-agent given only the property text (statement + anchors) and a scratch worktree; '
                      'no access to /verif and no list of earlier changes; asked for two independent changes',
            'applies_to_repo_commit': head, 'files_touched': files, 'confirmed': res}
    json.dump(meta, open(os.path.join(dst, 'meta.json'), 'w'), indent=1)
    print('%s: CONFIRMED (%s)' % (sid, title))
    return 0


if __name__ == '__main__':
    sys.exit(main())
