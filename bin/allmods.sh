#!/bin/bash
# usage: allmods.sh <tree>  : run every property's evaluate on a tree, print fired rules
cd /verif
python3 - "$1" <<'PY'
import sys, os
sys.path.insert(0,'/verif/checker')
os.environ['VF_SHOW_MACHINERY']='1'
import props, selftest
cache={}
for pid in sorted(props.PROPS):
    rules, mach = selftest.fired_rules(pid, sys.argv[1], props.PROPS[pid]['quick_configs'], cache)
    if rules:
        print(pid, sorted(rules))
PY
