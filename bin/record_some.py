#!/usr/bin/env python3
"""Incremental re-record of seeded/EXPECT.json: every check against the named seeded changes only.

usage: record_some.py <seed id>[,<seed id>..] [jobs]     (the full re-record is `checker/selftest.py record 8`)"""
import json
import os
import sys

sys.path.insert(0, os.path.join(os.path.dirname(os.path.dirname(os.path.abspath(__file__))), 'checker'))
import props  # noqa: E402
import selftest  # noqa: E402
from concurrent.futures import ProcessPoolExecutor  # noqa: E402

if __name__ == '__main__':
    if len(sys.argv) < 2:
        sys.exit(__doc__)
    seeds = sys.argv[1].split(',')
    jobs = int(sys.argv[2]) if len(sys.argv) > 2 else 6
    exp = selftest.load_expect()
    if exp.get('tree_sha') != selftest.tree_sha('/repo'):
        sys.exit('EXPECT.json was recorded on another tree: run the full record')
    pids = sorted(props.PROPS)
    with ProcessPoolExecutor(max_workers=jobs) as ex:
        futs = {s: ex.submit(selftest.run_seed, s, pids, '/repo', exp['seeds'].get(s, {}).get('configs')) for s in seeds}
        for s in seeds:
            res = futs[s].result()
            old = exp['seeds'].get(s, {})
            new = {'checks': {}, 'note': res} if isinstance(res, str) else {'checks': {p: r for p, r in res.items() if r}}
            if old.get('configs'):
                new['configs'] = old['configs']
            exp['seeds'][s] = new
            print(s, json.dumps(new), flush=True)
    json.dump(exp, open(selftest.EXPECT, 'w'), indent=1, sort_keys=True)
