import sys, os, json, glob
sys.path.insert(0, '/verif/checker')
from concurrent.futures import ProcessPoolExecutor
import props, selftest
def one(a):
    pid, n, patch = a
    try:
        return pid, n, selftest.run_seed(patch, sorted(props.PROPS), '/repo')
    except Exception as e:
        return pid, n, 'EXC %r' % e
if __name__ == '__main__':
    d, out = sys.argv[1], sys.argv[2]
    todo = []
    for p in sorted(glob.glob(d + '/C*/OUT/patch*.diff')):
        pid = p.split('/')[-3]; n = int(os.path.basename(p)[5])
        todo.append((pid, n, p))
    res = {}
    with ProcessPoolExecutor(max_workers=int(sys.argv[3]) if len(sys.argv) > 3 else 6) as ex:
        for pid, n, r in ex.map(one, todo):
            key = '%s-%d' % (pid, n)
            if isinstance(r, str):
                res[key] = r; print(key, r, flush=True); continue
            own = r.get(pid, [])
            others = {k: v for k, v in r.items() if v and k != pid}
            res[key] = {'own': own, 'others': others}
            print(key, 'OWN' if own else ('other' if others else 'NONE'), own, {k: v for k, v in others.items()}, flush=True)
    json.dump(res, open(out, 'w'), indent=1, sort_keys=True)
    own = sum(1 for v in res.values() if isinstance(v, dict) and v['own'])
    anyc = sum(1 for v in res.values() if isinstance(v, dict) and (v['own'] or v['others']))
    print('own %d any %d of %d' % (own, anyc, len(res)))
