#!/bin/bash
# usage: runq.sh <tag> [tier]
tag=$1; tier=${2:-quick}
cd /verif
for i in 01 02 03 04 05 06 07 08 09 10 11 12 13 14 15 16 17 18 19 20; do
  ( bin/vf check C$i --tier $tier > /var/tmp/${tag}_C$i.log 2>&1; echo "C$i rc=$?" >> /var/tmp/${tag}_summary.log ) &
  # at most 7 in parallel
  while [ $(jobs -r | wc -l) -ge 7 ]; do sleep 1; done
done
wait
