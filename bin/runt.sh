#!/bin/bash
cd /verif
rm -f /var/tmp/th_summary.log
for i in 01 02 03 04 05 06 07 08 09 10 11 12 13 14 15 16 17 18 19 20; do
  ( VF_NO_SELFTEST=1 bin/vf check C$i --tier thorough > /var/tmp/th_C$i.log 2>&1; echo "C$i rc=$?" >> /var/tmp/th_summary.log ) &
  while [ $(jobs -r | wc -l) -ge 4 ]; do sleep 2; done
done
wait
