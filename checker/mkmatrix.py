"""Regenerates Appendix B of DESIGN.md (between the MATRIX markers) from seeded/EXPECT.json and the notes of the
seeded changes."""
import json
import os

VERIF = os.path.dirname(os.path.dirname(os.path.abspath(__file__)))
exp = json.load(open(os.path.join(VERIF, 'seeded', 'EXPECT.json')))
rows = []
missed = []
for seed, e in sorted(exp['seeds'].items()):
    notes = os.path.join(VERIF, 'seeded', seed, 'notes.md')
    title = ''
    if os.path.exists(notes):
        heads = [l for l in open(notes).read().splitlines() if l.startswith('# ')]
        title = heads[0][2:].split('—', 1)[-1].strip() if heads else ''
    own = seed.split('-')[0]
    checks = e.get('checks', {})
    cell = '; '.join('%s: %s' % (p, ', '.join(r)) for p, r in sorted(checks.items())) or '**not detected**'
    own_hit = 'yes' if own in checks else ('no (other check)' if checks else 'no')
    rows.append('| %s | %s | %s | %s |' % (seed, title.replace('|', '/'), cell, own_hit))
    if not checks:
        missed.append(seed)
benign = sorted(f for f in os.listdir(os.path.join(VERIF, 'seeded', 'benign')) if f.endswith('.diff'))
txt = []
txt.append('Each directory `seeded/<id>/` holds a change made by a sub-agent that was given only the property text and its '
           'own scratch worktree (nothing from /verif): `patch.diff` (against the repaired tree), a demonstration test that '
           'passes without and fails with the patch, `notes.md`, and `meta.json` (confirmation that the library builds and '
           'the 70 baseline tests still pass with the patch). `-A`/`-B` are the first round, `-C`, `-D` and `-E`/`-F` the second to fourth, each '
           'made after the rules of the round before existed (DESIGN 9.6 says what each round found before tuning). The table is what every check reports on a scratch copy with the patch applied '
           '(`python3 checker/selftest.py record`); the thorough tier of each property re-runs its own rows.\n')
txt.append('| seeded change | what it does | reported by (check: rules) | reported by its own property\'s check |')
txt.append('|---|---|---|---|')
txt += rows
txt.append('')
txt.append('Detected by at least one check: %d of %d. Not detected: %s.' % (len(rows) - len(missed), len(rows), ', '.join(missed) or 'none'))
txt.append('')
txt.append('Behaviour-preserving edits (`seeded/benign/*.diff`, %d patches: helper extraction, `div_ceil`, reordered '
           'validators, logging, `match` ↔ combinators, renamed internals, `min()` clamp, explicit `set_dirty_flag` …) must '
           'leave every check silent: `python3 checker/selftest.py benign`.' % len(benign))
p = os.path.join(VERIF, 'DESIGN.md')
s = open(p).read()
a = s.index('<!-- MATRIX-BEGIN -->') + len('<!-- MATRIX-BEGIN -->')
b = s.index('<!-- MATRIX-END -->')
s = s[:a] + '\n' + '\n'.join(txt) + '\n' + s[b:]
open(p, 'w').write(s)
print('matrix rows', len(rows), 'missed', missed)
