"""Runs the rustc_private fact extractor over a repository tree for one feature configuration.

Every call re-extracts from the tree's current sources: the fingerprints of `fatfs` and `vf_witness` are
deleted first and the resulting fact files must carry this run's nonce (cargo's freshness cache can therefore
never replay an old analysis)."""
import atexit
import fcntl
import glob
import hashlib
import os
import shutil
import subprocess
import time
import uuid

VERIF = os.path.dirname(os.path.dirname(os.path.abspath(__file__)))
CACHE = os.path.join(VERIF, '.cache')
DRIVER = os.path.join(VERIF, 'driver', 'target', 'release', 'vf_driver')

CONFIGS = {
    'default': 'cfg_default',
    'noalloc': 'cfg_noalloc',
    'nounicode': 'cfg_nounicode',
    'nostd': 'cfg_nostd',
}


class ExtractError(Exception):
    pass


_OWNED = []


def _cleanup():
    for p in _OWNED:
        shutil.rmtree(p, ignore_errors=True)


atexit.register(_cleanup)


def sysroot():
    return subprocess.check_output(['rustc', '+nightly', '--print', 'sysroot'], text=True).strip()


def build_driver():
    env = dict(os.environ, CARGO_NET_OFFLINE='true')
    r = subprocess.run(['cargo', '+nightly', 'build', '--release', '--offline'], cwd=os.path.join(VERIF, 'driver'),
                       env=env, capture_output=True, text=True)
    if r.returncode != 0 or not os.path.exists(DRIVER):
        raise ExtractError('driver build failed:\n' + r.stderr[-4000:])


def extract(config, repo='/repo', tag=None):
    """returns (api_json_path, facts_json_path). Raises ExtractError when the tree does not build."""
    if config not in CONFIGS:
        raise ExtractError('unknown config ' + config)
    if not os.path.exists(DRIVER):
        build_driver()
    repo = os.path.abspath(repo)
    rid = hashlib.sha256(repo.encode()).hexdigest()[:10]
    tag = tag or rid
    work = os.path.join(CACHE, 'work', '%s-%s' % (config, tag))
    # the fact files are private to this process (several checks may run concurrently on the same tree) and are
    # removed when it exits
    out = os.path.join(CACHE, 'out', '%s-%s-%d' % (config, tag, os.getpid()))
    if out not in _OWNED:
        _OWNED.append(out)
    target = os.path.join(CACHE, 'target-%s' % config)
    os.makedirs(os.path.join(CACHE, 'work'), exist_ok=True)
    os.makedirs(target, exist_ok=True)
    lock = open(os.path.join(CACHE, 'lock-%s' % config), 'w')
    fcntl.flock(lock, fcntl.LOCK_EX)
    try:
        # fresh copy of the witness crate pointing at the repository under analysis
        if os.path.exists(work):
            shutil.rmtree(work)
        shutil.copytree(os.path.join(VERIF, 'witness'), work, ignore=shutil.ignore_patterns('target'))
        ct = open(os.path.join(work, 'Cargo.toml')).read()
        ct = ct.replace('path = "/repo"', 'path = "%s"' % repo)
        open(os.path.join(work, 'Cargo.toml'), 'w').write(ct)
        lockfile = os.path.join(repo, 'Cargo.lock')
        if os.path.exists(lockfile):
            # keep only what the witness needs: cargo prunes unused entries itself
            shutil.copy(lockfile, os.path.join(work, 'Cargo.lock'))
        if os.path.exists(out):
            shutil.rmtree(out)
        # fact directories left behind by processes that are gone (pool workers do not run atexit handlers)
        for old_out in glob.glob(os.path.join(CACHE, 'out', '*')):
            pid_s = old_out.rsplit('-', 1)[-1]
            if pid_s.isdigit() and int(pid_s) != os.getpid() and not os.path.exists('/proc/%s' % pid_s):
                shutil.rmtree(old_out, ignore_errors=True)
        os.makedirs(out)
        # everything cargo keeps about the two crates under analysis is thrown away before every run: the fingerprints
        # (so that the analysis is never replayed from a cache) and the artefacts themselves (each scratch tree has its own
        # path, so they would pile up - 100 GB after a day of self-tests - and are never reused)
        for pat in ('fatfs-*', 'vf_witness-*'):
            for p in glob.glob(os.path.join(target, 'debug', '.fingerprint', pat)):
                shutil.rmtree(p, ignore_errors=True)
            for sub in ('incremental', ):
                for p in glob.glob(os.path.join(target, 'debug', sub, pat)):
                    shutil.rmtree(p, ignore_errors=True)
            for p in glob.glob(os.path.join(target, 'debug', 'deps', '*' + pat)):
                try:
                    os.remove(p)
                except OSError:
                    pass
        nonce = uuid.uuid4().hex
        env = dict(os.environ)
        env.update({
            'LD_LIBRARY_PATH': os.path.join(sysroot(), 'lib') + ':' + env.get('LD_LIBRARY_PATH', ''),
            'RUSTFLAGS': '-Zmir-opt-level=0 -Zalways-encode-mir -Coverflow-checks=on -Cdebug-assertions=on -Awarnings',
            'RUSTC_WRAPPER': DRIVER,
            'CARGO_TARGET_DIR': target,
            'CARGO_NET_OFFLINE': 'true',
            'VF_OUT': out,
            'VF_CONFIG': config,
            'VF_NONCE': nonce,
        })
        env.pop('RUSTC_WORKSPACE_WRAPPER', None)
        cmd = ['cargo', '+nightly', 'check', '--offline', '--lib', '--no-default-features', '--features',
               CONFIGS[config]]
        t0 = time.time()
        r = subprocess.run(cmd, cwd=work, env=env, capture_output=True, text=True)
        dt = time.time() - t0
        if r.returncode != 0:
            raise ExtractError('cargo check failed for config %s on %s:\n%s' % (config, repo, r.stderr[-6000:]))
        api = os.path.join(out, 'api-fatfs.json')
        facts = os.path.join(out, 'facts.json')
        for p in (api, facts):
            if not os.path.exists(p):
                raise ExtractError('extractor produced no %s (stale build replayed?)\n%s' % (p, r.stderr[-3000:]))
            head = open(p).read(400)
            if nonce not in head:
                raise ExtractError('fact file %s does not carry this run\'s nonce' % p)
        return api, facts, dt
    finally:
        fcntl.flock(lock, fcntl.LOCK_UN)
        lock.close()
