"""Per-property check specifications: which rule modules run, under which configurations, with which floors,
positive controls and evidence texts. Rule semantics are in rules/*.py and DESIGN.md section 4."""

ALL = ['default', 'noalloc', 'nounicode', 'nostd']

COMMON_ASSUMPTIONS = [
    'the compiler\'s MIR (opt-level 0, after drop elaboration) is a faithful representation of the source',
    'fatfs has no unsafe code, no function pointers and no dynamic dispatch of its own (asserted on every run)',
    'the device, clock, code page and log sink are leaves: nothing is assumed about what they do',
]

PROPS = {}
NOT_APPLICABLE = {}

PROPS['C09'] = {
    'modules': ['c09'],
    'level': 'other',
    'quick_configs': ['default'],
    'thorough_configs': ALL,
    'controls': ['R9.1', 'R9.2', 'R9.3', 'R9.4', 'R9.5', 'R9.6'],
    'floors': {'default': {'R9.1': 250, 'R9.6': 14}},
    'rule_text': 'one obligation per call site in fatfs whose result type carries a device-capable error and whose '
                 'callee may reach the device (mono call graph), per closure parameter of such a type, and per RefCell '
                 'borrow site; non-trivial = needed a path exploration of the error value\'s fate (not a direct return)',
    'explanation': 'Static error-discipline analysis over the compiler\'s MIR of every fatfs function under the listed '
                   'feature configurations. For every fallible device-reaching call the fate of the error value is '
                   'explored on every CFG path: it must be moved towards the return value, kind-tested against a '
                   'specific non-Io variant, or retried after is_interrupted(); reaching a return or a loop back edge '
                   'with the value unexamined/pending, a swallowing or re-labelling combinator, or unwrap/expect is '
                   'reported (R9.1-R9.5). R9.6: no call made while a RefCell guard is alive may borrow the same cell '
                   '(a storage error would become a panic). Destructors are exempt as the statement says. Decides the '
                   'error discipline on all paths for all fault positions; does not decide termination of loops that '
                   'do no I/O.',
    'claim': 'Decides the error discipline of the statement on every path of every fatfs function (all fault '
             'positions at once): no device-capable error value is dropped, swallowed, re-labelled, unwrapped, left '
             'pending across a loop iteration, or turned into a RefCell double-borrow panic. Does not decide '
             'termination of loops that perform no I/O.',
    'level_note': 'trusts rustc MIR and trait resolution, the extractor and the witness crate; errors passed on to '
                  'another function or stored are considered delegated',
    'technique': 'static analysis: MIR value-fate dataflow over all CFG paths + mono call-graph effects',
    'assumptions': COMMON_ASSUMPTIONS + ['an error moved into another function, a struct or the return value is '
                                         'considered delegated (the callee is analysed in its own right)'],
}
