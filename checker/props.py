"""Per-property check specifications: which rule modules run, under which configurations, with which floors,
positive controls and evidence texts. Rule semantics are in rules/*.py and DESIGN.md section 4."""

ALL = ['default', 'noalloc', 'nounicode', 'nostd']

COMMON_ASSUMPTIONS = [
    'the compiler\'s MIR (opt-level 0, after drop elaboration) is a faithful representation of the source',
    'fatfs has no unsafe code and no dynamic dispatch of its own, and a call through a function pointer inside fatfs can only reach a function the program itself turns into a pointer (asserted on every run; such calls get an edge to every candidate)',
    'the device, clock, code page and log sink are leaves: nothing is assumed about what they do',
]

PROPS = {}

PROPS['C20'] = {
    'modules': ['c20', ('c10', ['R10.4']), ('siblings', ['SB2']), ('c08', ['X1', 'X7']), 'invariants', ('c07', ['M2'])],
    'level': 'other',
    'quick_configs': ['default'],
    'thorough_configs': ['default', 'noalloc', 'nounicode', 'nostd'],
    'controls': [],
    'floors': {'default': {'W1': 60, 'W1.bytes': 1, 'W2': 1, 'R10.4.hint': 1, 'SB2': 1, 'W4': 1, 'W2c': 1, 'X1': 3, 'X7': 8, 'INV.DiskSlice': 1}},
    'rule_text': 'one obligation per overflow/division/shift site of the sector/cluster/offset arithmetic '
                 '(boot_sector.rs geometry helpers, fs.rs offset_from_*/DiskSlice, table.rs get/set/find_free/alloc): '
                 'discharged by the interval analysis under validated-BPB invariants or a reasoned table entry; the '
                 'sector-to-byte conversion multiplies in 64 bits; the allocation scan has a second leg over [2, start) '
                 'before reporting out-of-space; the hint is clamped below total_clusters + 2 (R10.4)',
    'explanation': 'Large-volume addressing as structural rules on MIR: (W1) every checked-arithmetic and division site in '
                   'the offset-computing functions is proved in range by interval abstract interpretation seeded with the '
                   'field invariants the BPB validators establish (or discharged by a table entry with its anchor checked '
                   'in the code); left shifts of <= 32-bit values whose result is later widened must not be able to drop '
                   'bits (Rust does not check shifts for lost high bits); bytes_from_sectors widens to u64 before '
                   'shifting/multiplying; (W2) alloc_cluster calls find_free a second time with range [2, start) on the '
                   'NotEnoughSpace arm when start > 2; (W3 = R10.4) next_free hints are clamped. That the resulting '
                   'offsets are the correct ones on a 2 TiB device is a value property and is not decided.',
    'claim': 'No 32-bit overflow or truncating shift in the offset arithmetic under validated geometry; wrap-around leg '
             'and hint clamp exist on all paths. Correctness of the offsets themselves is not decided.',
    'level_note': 'the scope of offset-computing functions is a regex table in rules/allpanics.py (SCOPES["C20"])',
    'technique': 'static analysis: interval abstract interpretation over MIR + must-pass-through',
    'assumptions': COMMON_ASSUMPTIONS,
}

NOT_APPLICABLE = {}

PROPS['C02'] = {
    'modules': ['c02', ('c18', ['R18.3']), ('c05', ['A5.8']), ('c03', ['R3.6', 'R3.10', 'R3.11', 'R3.12']), ('c11', ['R11.4', 'R11.2']), ('c04', ['K5']), ('c10', ['R10.2'])],
    'level': 'other',
    'quick_configs': ['default'],
    'thorough_configs': ALL,
    'controls': [],
    'floors': {'default': {'B0': 20, 'B1': 1, 'B2': 1, 'B3': 2, 'B4': 1, 'B5.cast': 3, 'B5.index': 1, 'B6': 1, 'B7': 2, 'R18.3': 1,
                           'A5.8.truncate': 1, 'R3.6': 1}},
    'rule_text': 'one obligation per panic site of File read/write/seek/truncate (B0), per device transfer of File '
                 '(length clipped by two min() against cluster rest and file rest / 4 GiB limit: B1, B2), per cursor '
                 'assignment (moves by the device-returned count; only read/write/seek assign it: B3), the size update '
                 '(must-call after a non-empty write, only grows, equals the cursor: B4), seek (unrepresentable target '
                 '-> InvalidInput, clamp to size, no `as` narrowing of 64-bit offsets, no wrapping arithmetic, shortcut '
                 'and chain walk use one cluster index: B5) and truncate (size := cursor, chain released: B6)',
    'explanation': 'The clauses of the statement that are visible in the shape of the code are decided on the MIR of '
                   'src/file.rs for all offsets and buffer lengths at once: the length given to the device depends, '
                   'through min(), on cluster_size - offset % cluster_size and on size - offset (read) or MAX_FILE_SIZE '
                   '- offset (write); the cursor advance originates in the count returned by the device call (value '
                   'origin through moves, `?` and casts); every Ok exit of write with a non-zero count crosses '
                   'update_dir_entry_after_write, whose set_size(offset) is dominated by a strict comparison with the '
                   'recorded size; in seek the None arm of the converted target reaches Err(InvalidInput) on every path, '
                   'the arm target > size assigns the size, every narrowing `as` cast in the I/O paths is in a closed '
                   'table with its reason, and the same-cluster shortcut compares the same cluster index that the chain '
                   'walk is derived from; truncate sets the size to the cursor on every returning path and releases the '
                   'chain (A5.8, R3.6). All arithmetic sites of these functions are proved panic-free by the interval '
                   'analysis (B0). That the bytes read back equal the bytes written is a value property of the running '
                   'system and is not decided.',
    'claim': 'Clipping, cursor movement, size update, seek rejection/clamping and truncate bookkeeping hold on every path '
             'for every offset and length; byte-exact contents are not decided.',
    'level_note': 'dependence is flow-insensitive inside a function (may miss a violation that reuses the right values in '
                  'the wrong order, cannot raise an alarm on a path that does not exist)',
    'technique': 'static analysis: MIR data dependence / value origin + dominance + interval abstract interpretation',
    'assumptions': COMMON_ASSUMPTIONS + ['the device returns a count not larger than the buffer it was given'],
}

PROPS['C06'] = {
    'modules': ['c06', 'fattype', 'siblings', ('c11', ['R11.4'])],
    'level': 'other',
    'quick_configs': ['default'],
    'thorough_configs': ALL,
    'controls': [],
    'floors': {'default': {'V0': 100, 'V1': 10, 'V2': 6, 'V3': 1, 'V4': 10, 'V5': 3, 'FT1': 1, 'SB1': 1, 'SB2': 1, 'V6': 2}},
    'rule_text': 'one obligation per device write of format_volume (dominated by the Ok edge of format_boot_sector and the '
                 'accepting edge of the strict self-validation: V1), per error construction in the layout code (only '
                 'InvalidInput; the validation failure is re-labelled InvalidInput: V2), the boot-sector copies (one '
                 'unmodified value, backup on the FAT32 arm behind its seek: V3), per initialisation step (FAT area, '
                 'format_fat and its arguments, root area, FAT32 root cluster / whole-cluster zeroing / FS-info values and '
                 'position, label entry: V4), per narrowing `as` cast in the formatting code (V5), per panic site of the '
                 'formatting path outside the sizing arithmetic (V0) and the FAT-width decision table (FT1)',
    'explanation': 'Structural clauses of the statement decided on the MIR of format_volume and of everything reachable '
                   'from format_boot_sector: nothing is written before the assembled boot sector passed its own strict '
                   'validation, so every volume that formatting writes satisfies what the validators establish (regions '
                   'fit the declared size, FAT width follows the cluster count, the table addresses every cluster: '
                   'properties C07/M2 of the same validators); rejections are InvalidInput only; both boot-sector copies '
                   'are one value; every Ok path zeroes the FAT and root areas, initialises the FAT with the BPB\'s media '
                   'byte / size / cluster count, and on FAT32 allocates and zeroes a whole root cluster and writes an '
                   'FS-info sector with total_clusters - 1 free clusters; a requested label becomes a VOLUME_ID entry at '
                   'the start of the root directory; 64-bit to 32-bit narrowing happens only behind a proved range or a '
                   'reasoned entry; FatType::from_clusters implements the specified thresholds exactly (decision table '
                   'over all u32). Panic sites outside the sizing arithmetic are discharged by interval analysis under '
                   'the validated-BPB and option-setter invariants (bytes_per_sector a power of two in 512..32768, fats in '
                   '1..2, from the setters\' own asserts). The sizing functions themselves (determine_*, try_fs_layout, '
                   'format_bpb, estimate_fat_type) are analysed in full: all but five of their sites are proved by '
                   'intervals, three rest on a rejecting comparison that is re-checked in the code, two are stated '
                   'beliefs (the numeric bound fats*sectors_per_fat <= data sectors; power-of-two-ness of the clamped '
                   'cluster size). NOT decided: that the heuristics find a satisfiable layout for every size from 42 '
                   'sectors to 2^32-1, and the overflow sites of the BPB accessors that format_bpb calls on the not yet '
                   'validated BPB (counted in the evidence as not analysed).',
    'claim': 'Validate-before-write, error kinds, boot-sector copies, initialisation steps and values, narrowing casts '
             'and the FAT-width table hold on every path for every option set; the sizing arithmetic itself (success for '
             'every size, no overflow inside the heuristics) is not decided.',
    'level_note': 'V0.not-analysed counts the overflow sites of BPB / FatType methods called from format_bpb before validation',
    'technique': 'static analysis: dominance / must-pass-through / dependence on MIR + interval abstract interpretation + '
                 'decision table',
    'assumptions': COMMON_ASSUMPTIONS + ['FormatVolumeOptions values are built through the public setters (their asserts '
                                         'are documented panics of the builder API, not of format_volume)'],
}

PROPS['C09'] = {
    'modules': ['c09'],
    'level': 'other',
    'quick_configs': ['default'],
    'thorough_configs': ALL,
    'controls': ['R9.1', 'R9.2', 'R9.3', 'R9.4', 'R9.5', 'R9.6', 'R9.7', 'R9.8'],
    'floors': {'default': {'R9.1': 250, 'R9.6': 14, 'R9.9': 2}},
    'rule_text': 'one obligation per call site in fatfs whose result type carries a device-capable error and whose '
                 'callee may reach the device (mono call graph), per closure parameter of such a type, and per RefCell '
                 'borrow site; non-trivial = needed a path exploration of the error value\'s fate (not a direct return)',
    'explanation': 'Static error-discipline analysis over the compiler\'s MIR of every fatfs function under the listed '
                   'feature configurations. For every fallible device-reaching call the fate of the error value is '
                   'explored on every CFG path: it must be moved towards the return value, kind-tested against a '
                   'specific non-Io variant, or retried after is_interrupted(); reaching a return or a loop back edge '
                   'with the value unexamined/pending, a swallowing or re-labelling combinator, or unwrap/expect is '
                   'reported (R9.1-R9.5). R9.6: no call made while a RefCell guard is alive may borrow the same cell '
                   '(a storage error would become a panic). Destructors are exempt as the statement says. Decides the '
                   'error discipline on all paths for all fault positions; does not decide termination of loops that '
                   'do no I/O.',
    'claim': 'Decides the error discipline of the statement on every path of every fatfs function (all fault '
             'positions at once): no device-capable error value is dropped, swallowed, re-labelled, unwrapped, left '
             'pending across a loop iteration, or turned into a RefCell double-borrow panic. Does not decide '
             'termination of loops that perform no I/O.',
    'level_note': 'trusts rustc MIR and trait resolution, the extractor and the witness crate; errors passed on to '
                  'another function or stored are considered delegated',
    'technique': 'static analysis: MIR value-fate dataflow over all CFG paths + mono call-graph effects',
    'assumptions': COMMON_ASSUMPTIONS + ['an error moved into another function, a struct or the return value is '
                                         'considered delegated (the callee is analysed in its own right)'],
}

PROPS['C13'] = {
    'modules': ['c13', ('c11', ['R11.1'])],
    'level': 'proof',
    'quick_configs': ['default'],
    'thorough_configs': ALL,
    'controls': ['O1', 'O2'],
    'floors': {'default': {'O1': 90, 'O2': 8}},
    'rule_text': 'one obligation per read-only witness root (mount, every listing/open/read/seek/query API item, unmount, '
                 'every destructor): no device write reachable in the mono call graph outside a latch guard (O1); one '
                 'per latch setter: not reachable from those roots except through the two documented exceptions (O2); '
                 'plus the status-latch shape conditions G1-G5 (O3). Non-trivial = the root reaches the device-write '
                 'leaf set at all, so guard dominance had to be established',
    'explanation': 'Reachability proof over the complete monomorphic call graph (fatfs has no unsafe, no fn pointers, no '
                   'dyn dispatch of its own; asserted each run). O1: from every read-only root every path to a device '
                   'write crosses an edge that is taken only when a write-back latch is set (DirEntryEditor.dirty, '
                   'FsInfoSector.dirty, or computed status flags != cached flags). O2: the latch setters are unreachable '
                   'from those roots once the edges guarded by options.update_accessed_date and by the `cached free '
                   'count is None` arm of stats() are removed (the statement\'s two exceptions). O3: the status byte '
                   'written is the value compared, it is bpb.status_flags() with only `|= arg`, the cache starts as '
                   'bpb.status_flags(), is updated only after a successful write, and read-only roots only ever ask for '
                   '`false`. Together: no write at all for every history of read-only calls on every volume.',
    'claim': 'Whole property, for all histories, FAT widths and mount states: a proof by reachability over the mono call '
             'graph that no device write can be issued from the read-only API surface except behind latches that the '
             'read-only surface cannot set (the two documented exceptions excluded exactly as the statement does).',
    'level_note': 'trusted base: rustc MIR + trait resolution, extractor, completeness of the witness root list '
                  '(audited against the crate\'s effective public API on every run), leaf model of Dev/Tp/Occ/log',
    'technique': 'static analysis: call-graph reachability with latch-guard dominance (effect analysis)',
    'assumptions': COMMON_ASSUMPTIONS + ['options.update_accessed_date is false (the statement\'s precondition)'],
}

PROPS['C14'] = {
    'modules': ['c14'],
    'level': 'other',
    'quick_configs': ['default'],
    'thorough_configs': ALL,
    'controls': ['P3', 'P4'],
    'floors': {'default': {'P3': 2, 'P4': 5, 'P2': 3, 'P5.nostage': 25}},
    'rule_text': 'obligations: the three must-pass conditions on File::flush (entry write-back, device flush, order), one '
                 'per forwarding function (Write::flush, Drop, std::io::Write::flush), one per latch-clearing site, one '
                 'per Write::flush impl, one per field of the structs on the write path, and the write-through '
                 'must-calls; non-trivial = decided by a must-pass-through or dominance query',
    'explanation': 'Sync-before-acknowledge as must-pass-through along Ok edges of the MIR CFG: every Ok-exit of '
                   'File::flush crosses the Ok edge of the directory-entry write-back (unless the handle has no entry) and '
                   'then the Ok edge of the device flush; Write::flush/Drop/std::io::Write::flush forward to it on every '
                   'path; a write-back latch is only cleared after the Ok edge of a device write; every Write::flush impl '
                   'forwards; File::write hands the caller\'s buffer to the device in the same call; FAT/entry writers '
                   'cannot return Ok without a device write; no struct on the write path has a buffer-typed field. '
                   'Decides the ordering/forwarding discipline on all paths; does not decide that the bytes are the right '
                   'bytes (content equality after a simulated power cut is runtime).',
    'claim': 'Structural necessary conditions of durability on every path: flush = entry write-back then device flush, '
             'forwarding siblings, latch cleared only after a successful write, write-through with no staging buffers.',
    'level_note': 'assumes the device honours flush (the statement\'s premise); content correctness not decided',
    'technique': 'static analysis: must-pass-through along Ok edges + dominance on MIR, sibling-impl cross-check',
    'assumptions': COMMON_ASSUMPTIONS,
}

PROPS['C12'] = {
    'modules': ['c12', ('c04', ['K1b'])],
    'level': 'other',
    'quick_configs': ['default'],
    'thorough_configs': ALL,
    'controls': ['Q1'],
    'floors': {'default': {'Q1': 6, 'Q1.c': 2, 'Q6': 1, 'K1b': 1, 'Q7': 1}},
    'rule_text': 'one obligation per raw device-write site (a call made while a guard of the `disk` cell is alive that '
                 'reaches a device write), per structural condition of the FS adapter, the unmount sequence, the '
                 'status-byte latch, the two status offsets and the status query; non-trivial = decided by dominance / '
                 'must-pass-through / dependence',
    'explanation': 'Every raw device-write site in fatfs must have a recognised dirty-flag role decided from the MIR: in '
                   'the FS adapter (which sets the flag after a non-zero write and does not override write_all), '
                   'dominated by a successful set_dirty_flag(true), dominated by a successful FAT allocation (which '
                   'must write the table), or one of the three latch-guarded write-backs. Below a DiskSlice over the '
                   'adapter no write can bypass the adapter (mono call graph). Unmount = FS-info flush then '
                   'set_dirty_flag(false) on every Ok path, from unmount() and Drop. The status byte written is '
                   'bpb.status_flags() with only `|= arg`, compared against a cache that is updated only after a '
                   'successful write. The two offsets equal BPB.reserved_1 in both layouts. Q6: the entry write-back never '
                   'sets the flag itself, so File::truncate must, after changing the recorded size, cross '
                   'set_dirty_flag(true) or a chain operation that writes the FAT on every Ok path (must-pass-through '
                   'through truncate_cluster_chain and ClusterIterator::truncate; the no-current-cluster arm tested on '
                   'entry is exempt because the iterator is freshly built with Some). Does not decide the byte value at '
                   'every call boundary of every history.',
    'claim': 'Structural necessary conditions: closed set of classified device-write sites, adapter discipline, unmount '
             'order, latch coherence, offset agreement. Not the status byte value over histories.',
    'level_note': 'role "after FAT allocation" assumes a successful FAT entry write transfers at least one byte; the '
                  'entry write-back role is not tied to table writes',
    'technique': 'static analysis: write-site classification by dominance over MIR + mono call-graph cut reachability',
    'assumptions': COMMON_ASSUMPTIONS + ['a successful FAT entry write transfers at least one byte through the adapter'],
}

PROPS['C05'] = {
    'modules': ['c05', ('c03', ['R3.8', 'R3.7b', 'R3.7c', 'R3.11', 'R3.12']), ('c11', ['R11.4', 'R11.1']), ('c04', ['K5']), ('c10', ['R10.4']), ('c20', ['W4b', 'W2'])],
    'level': 'other',
    'quick_configs': ['default'],
    'thorough_configs': ALL,
    'controls': ['A5.1', 'A5.2'],
    'floors': {'default': {'A5.1': 3, 'A5.2': 4, 'X2': 2, 'A5.6': 15, 'R3.8': 1}},
    'rule_text': 'one obligation per FAT-mutator call site made on behalf of a FileSystem (must be followed by a counter '
                 'update on every Ok path, using the returned delta), per assignment to a persisted counter inside '
                 'FsInfoSector (must latch dirty), per encoder field, per recount/ dirty-mount / reclaim condition, and per '
                 'FAT32 entry test (must be masked); non-trivial = decided by must-pass-through, dominance or dependence',
    'explanation': 'Structural conditions of exact free-space accounting decided on the MIR: A5.1 accounting wrappers '
                   '(generic over callers: a new wrapper must account too), A5.2 counter setters latch the write-back, '
                   'A5.3 the FS-info encoder writes both counters, A5.4 the lazy recount scans total_clusters, stores and '
                   'returns the result and runs exactly on the `count absent` arm, A5.5 a dirty mount discards the stored '
                   'count, A5.8 remove frees the chain before deleting slots and truncate releases the rest of the chain, '
                   'X2 every FAT32 entry test in get/find_free/count_free masks the reserved nibble, A5.6 every overflow / '
                   'division site of the counter arithmetic (n + delta, n - 1, recount) is discharged by the interval '
                   'analysis or a reasoned entry whose anchor comparison is checked in the code. Does not decide the '
                   'numerical equality count == free FAT entries over histories (arithmetic), nor that the hint is in '
                   'range.',
    'claim': 'Structural necessary conditions of the accounting on all paths (who must update the counter, with what, '
             'and when it is persisted or distrusted); the numerical invariant itself is not decided.',
    'level_note': 'counter arithmetic (n + delta, n - 1) is covered by the panic-site inventory (A5.6); the returned '
                  'deltas are trusted to be correct counts',
    'technique': 'static analysis: must-pass-through / dominance / data-dependence rules on MIR',
    'assumptions': COMMON_ASSUMPTIONS,
}

PROPS['C08'] = {
    'modules': ['c08', 'fattype', ('c10', ['R10.2', 'R10.8', 'R10.4']), ('c17', ['T3b', 'T3']), ('c11', ['R11.4']), ('bits', ['X8', 'X9', 'K6']), ('c04', ['K3']), ('c02', ['B5', 'B7'])],
    'level': 'other',
    'quick_configs': ['default'],
    'thorough_configs': ALL,
    'controls': [],
    'floors': {'default': {'X1': 3, 'X2': 3, 'X3': 8, 'X4': 2, 'R10.2': 1, 'T3b': 1, 'X7': 8, 'X8': 1, 'X9': 1, 'K6': 1}},
    'rule_text': 'obligations: the three FAT-entry classification tables (each over the whole raw-value domain, by '
                 'partition walk), one per FAT32 entry test (mask), per format constant and byte predicate, the two '
                 'read-modify-write sites, the skipping rule and the FAT-width table over all 2^32 cluster counts; '
                 'non-trivial = decided by a partition walk or a dependence query',
    'explanation': 'Exact decision tables computed from the MIR: for Fat12/16/32::get every raw entry value (all 2^12 / '
                   '2^16 / 2^28 masked values) is classified exactly as the FAT specification says (free 0, bad ?FF7, '
                   'end-of-chain ?FF8..?FFF, else data; the FAT32 special-cluster guard may only add Bad); '
                   'FatType::from_clusters equals the specification for all 2^32 counts; every FAT32 entry test masks the '
                   'reserved nibble; deleted / end / 0x05 predicates and slot-format constants equal the format; FAT32 set '
                   'merges the old reserved bits, FAT12 set_raw keeps the neighbour nibble; skipping is deleted || '
                   '(skip_volume && label). Exhaustive over the value domains (abstract interpretation over the finite '
                   'partition induced by the compared constants). Does not decide that whole generated volumes are read '
                   'faithfully.',
    'claim': 'Exact value-classification tables, entry-offset formula and format constants versus the FAT specification '
             '(independent oracle); exact bit-level round trip of FAT12 entry packing, of the FAT32 stored word and of the two '
             'halves of a first-cluster number; whole-volume fidelity is not decided.',
    'level_note': 'the specification tables are transcribed in the rule modules (rules/c08.py, rules/fattype.py)',
    'technique': 'static analysis: decision-region walk (abstract interpretation over an exact finite partition) and '
                 'bit-provenance abstract interpretation on MIR',
    'assumptions': COMMON_ASSUMPTIONS,
}

PROPS['C15'] = {
    'modules': ['c15', ('c17', ['T2'])],
    'level': 'other',
    'quick_configs': ['default', 'noalloc'],
    'thorough_configs': ALL,
    'controls': ['N1', 'N8'],
    'floors': {'default': {'N1': 6, 'N3.chars': 1, 'N3.len': 1, 'N6': 1, 'N5': 2, 'N2': 60, 'N5b': 1, 'N7': 1, 'N5c': 1, 'N9': 3, 'N9.pair': 3, 'N5d': 2, 'N5f': 1}},
    'rule_text': 'obligations: one per instance of create_file/create_dir/rename (two-state protocol: no unguarded device '
                 'write before a name validator\'s Ok edge), the accepted-character table over all 0x110000 code points, '
                 'the length table over all usize lengths, the accepted long-name sequence numbers, the buffer capacity '
                 'and the two comparison functions; non-trivial = protocol fixed point or partition walk',
    'explanation': 'N1: interprocedural two-state protocol over the monomorphic call graph: entering create_file / '
                   'create_dir / rename in state Before, the Ok edge of any function that constructs '
                   'InvalidFileNameLength/UnsupportedFileNameCharacter moves to After; an unguarded device write while '
                   'Before is reported with its call chain (this is what found create_dir leaking a cluster and rename '
                   'destroying the source on an invalid name). N3: the decision table of the validator over every code '
                   'point equals the documented long-name set exactly, lengths accepted are exactly 1..=255. N6: the '
                   'long-name decoder accepts exactly the sequence numbers 1..=ceil(255/13) the encoder can emit. N4/N5: '
                   'capacity constants; both operands of the comparisons are case-folded. N2: every panic site (slicing, '
                   'indexing, arithmetic, unwrap) of the name path - split_path, validation, short-name generation, the '
                   'long-name buffer and slot generator, existence check, entry writing - is discharged by the interval '
                   'analysis or a reasoned entry (this is the rule that reports `name[1..]` on a multi-byte first '
                   'character). Not decided: lossless round-trip and case-insensitive matching of actual strings.',
    'claim': 'Validate-before-side-effect on all paths (protocol proof over the call graph), exact accepted character set '
             'and length bounds, reader/writer agreement on slot counts. Round-trip equality is not decided.',
    'level_note': 'validators are identified by the public error variants they construct; a write behind a write-back latch '
                  'is not counted as a side effect',
    'technique': 'static analysis: two-state protocol dataflow over the mono call graph + decision-region walk',
    'assumptions': COMMON_ASSUMPTIONS,
}

PROPS['C01'] = {
    'modules': ['c15', 'c01', ('c03', ['R3.7', 'R3.7b', 'R3.7c']), ('c02', ['B5']), ('c11', ['R11.1'])],
    'level': 'other',
    'quick_configs': ['default'],
    'thorough_configs': ALL,
    'controls': ['N1', 'N8'],
    'floors': {'default': {'N1': 6, 'R1.2': 6, 'R1.3': 1, 'R1.5': 6, 'R3.7': 1, 'R1.7': 120, 'R1.8': 1, 'N5b': 1, 'R1.9': 1}},
    'rule_text': 'obligations: N1 instances (shared with C15), one per mutation site of create_file/create_dir/'
                 'rename_internal (must lie on the `name is free` arm), the emptiness guard of remove, the '
                 'publish-before-delete order of rename, and one per intermediate path lookup; non-trivial = dominance or '
                 'protocol query',
    'explanation': 'Only the failure-atomicity clause of the statement is structural: every user-error decision '
                   '(invalid name, already exists, directory not empty, not a directory) is taken before the first '
                   'structural device write, on every path. Mutation sites are calls that may reach an unguarded device '
                   'write in the mono call graph. R1.4 (rename publishes before it deletes) is violated on the pinned '
                   'tree and listed as a known finding. R3.7: the free-slot search restarts its run at a used slot (a new '
                   'entry never overwrites a live one). R1.7: no panic site of the directory / entry / time code is left '
                   'undischarged (a panic is not a documented outcome): interval analysis from every API root, residue in '
                   'tables/discharge.json. Equality with an in-memory tree model over histories is not decided (runtime '
                   'values).',
    'claim': 'Failure atomicity with respect to user errors as ordering constraints on all paths; model equivalence is '
             'not claimed.',
    'level_note': 'recursion into the same operation on a sub-path is judged in its own right',
    'technique': 'static analysis: dominance of mutation sites by decision edges on MIR + protocol dataflow',
    'assumptions': COMMON_ASSUMPTIONS,
}

PROPS['C07'] = {
    'modules': ['c07', 'fattype', 'siblings'],
    'level': 'other',
    'quick_configs': ['default'],
    'thorough_configs': ALL,
    'controls': [],
    'floors': {'default': {'M1': 25, 'M2a': 8, 'M2b': 13, 'M2c': 2, 'M2d': 11, 'SB1': 1, 'SB2': 1, 'M2f': 1, 'FT2': 1}},
    'rule_text': 'one obligation per panic site (MIR Assert or panicking library call) in a function reachable from '
                 'FileSystem::new, evaluated in every calling context by interval analysis; one per geometry condition '
                 'of the statement (range established at the Ok exit, rejecting comparison, width-consistency table, '
                 'must-call); non-trivial = the site is reachable under the computed ranges',
    'explanation': 'M1: every arithmetic-overflow / division / bounds assert and every panicking call reachable while '
                   'mounting is discharged for ALL field values: a context-sensitive forward interval analysis over the MIR '
                   '(type ranges, widening casts, masks, branch refinement) in which the validators themselves establish '
                   'the field invariants used later (e.g. bytes_per_sector in [512,4096] holds after '
                   'validate_bytes_per_sector\'s Ok edge because its rejecting branches refine the field). Relational facts '
                   '(the 64-bit sum of the metadata regions is below total_sectors) are flags established only when the '
                   'rejecting comparison is found in the validator, and required in every context of the sites that rely '
                   'on them; the residue is two table entries (documented storage-position debug assertion; the Read '
                   'contract n <= buf.len()). M2: ranges at the Ok exit of BootSector::validate, 13 rejecting comparisons, '
                   'the FAT-width consistency table over is_fat32 x all cluster counts, and must-calls of every validator '
                   'whatever `strict`. M3: out-of-range FS-info counters are discarded. SB1/SB2 (sibling agreement): the '
                   'mount-side root_dir_sectors / total_clusters perform the same rounding arithmetic as the format-side '
                   'computations that laid the volume out. Not decided: that the accepted geometry equals an independent '
                   'parse (arithmetic).',
    'claim': 'No panic/overflow on the mount path for any boot-sector and FS-info contents (all 2^(8*90) at once, by type '
             'ranges and validator-established invariants), and a rejecting branch for every geometry condition the '
             'statement lists. Equality with an independent parse is not decided.',
    'level_note': 'D3 entries are flag-checked in every context; 2 D4 entries are beliefs listed in tables/discharge.json',
    'technique': 'static analysis: context-sensitive interval abstract interpretation of MIR + rejecting-branch coverage',
    'assumptions': COMMON_ASSUMPTIONS + ['the storage honours the Read contract (returns n <= buf.len())',
                                         'the storage position is 0 at mount (documented precondition)'],
}

PROPS['C17'] = {
    'modules': ['c17', ('c19', ['R19.3'])],
    'level': 'other',
    'quick_configs': ['default', 'noalloc'],
    'thorough_configs': ALL,
    'controls': [],
    'floors': {'default': {'T1': 100, 'T2': 1, 'T3.index': 1, 'T3b': 1, 'T4': 1, 'T3.start': 1, 'T3.cont': 1}, 'noalloc': {'T1': 100, 'T2n': 1}},
    'rule_text': 'one obligation per panic site (MIR Assert / panicking library call) in a function reachable from '
                 'Dir::iter, DirIter::next, open_*, every DirEntry accessor and the handle destructors, evaluated in '
                 'every calling context, in the alloc and in the fixed-buffer build; plus the length bound, the fallback '
                 'must-calls, the sequence-number decision table, the paired reset and the progress condition',
    'explanation': 'T1: context-sensitive interval analysis of the decode path for arbitrary slot contents (all field '
                   'values by type range): automatic discharge by masks (order & 0x1F), branch refinement (1 <= index '
                   '<= 20 makes [pos..pos+13] fit the 260-unit fixed buffer), symbolic slice lengths (x..x+13, '
                   '[..name_len] on both sides of copy_from_slice), rposition/map_or/to_digit models, x % y < y facts '
                   'and validated-BPB invariants; the residue is listed in tables/discharge.json with reasons (valid '
                   'cluster pointers = the statement\'s premise; documented API preconditions; struct invariants of '
                   'DiskSlice/ShortName). T2: a run longer than 255 units is discarded. T3: checksum validated before '
                   'hand-over and a mismatch clears; unfinished runs cleared; sequence number 0 and > 20 rejected '
                   '(decision table, no value reaches a panic); skipped slots reset accumulator and slot range together '
                   '(T3b). T4: every cycle reads a slot. Not decided: agreement with an independent decoder\'s verdict.',
    'claim': 'No panic on the decode/accessor path for arbitrary 32-byte slot contents (given valid cluster pointers), in '
             'both buffer variants; names <= 255 units; broken runs fall back. Termination beyond the progress condition '
             'and agreement with an independent decoder are not decided.',
    'level_note': 'D4 entries are beliefs with written reasons (24 on the pinned tree), matched by operand provenance',
    'technique': 'static analysis: context-sensitive interval abstract interpretation of MIR + decision-region walk',
    'assumptions': COMMON_ASSUMPTIONS + ['cluster pointers are valid (premise of the statement)',
                                         'the storage honours the Read contract (n <= buf.len())'],
}

PROPS['C16'] = {
    'modules': ['c16'],
    'level': 'other',
    'quick_configs': ['default'],
    'thorough_configs': ALL,
    'controls': [],
    'floors': {'default': {'S1': 1, 'S2.checksum': 1, 'S3.rescan': 1, 'S3.plain': 1, 'S3.chk': 1, 'S3.all': 1, 'S3.step': 1}},
    'rule_text': 'obligations: the character-mapping decision table over all 0x110000 code points, the checksum data '
                 'path (three links), the rescan-per-retry condition, the bookkeeping call and the 8-case table of the '
                 'plain-form decision; non-trivial = partition walk, path query or dependence query',
    'explanation': 'S1: the decision table of copy_short_name_part over every code point equals the short-name rules '
                   '(legal ASCII characters stored upper-cased, space and dot dropped, everything else `_`; outcome of '
                   'the store computed relative to the character). S2: the checksum in every generated long-name slot is '
                   'lfn_checksum of the name() of the very entry value serialised after the slots. S3: after the '
                   'collision bitmaps are reset the directory is rescanned with the generator before the next alias is '
                   'generated, every non-matching entry is recorded, and the un-numbered form is chosen exactly when '
                   'lossless && fits && !exact_match (all 8 cases). Not decided: uniqueness and termination for arbitrary '
                   'directory populations.',
    'claim': 'Legality of every stored byte for every input character (exact), the checksum link, and the structural '
             'conditions of collision bookkeeping; uniqueness/termination over populations are not decided.',
    'level_note': 'the store outcome is classified relative to the representative character of each partition interval '
                  '(cut points include the ASCII case boundaries)',
    'technique': 'static analysis: decision-region walk + data-dependence and path rules on MIR',
    'assumptions': COMMON_ASSUMPTIONS,
}

PROPS['C10'] = {
    'modules': ['c10', ('c11', ['R11.4']), ('bits', ['X8', 'X9']), ('c08', ['X7']), ('c20', ['W2'])],
    'level': 'other',
    'quick_configs': ['default'],
    'thorough_configs': ALL,
    'controls': [],
    'floors': {'default': {'R10.1': 20, 'R10.2': 1, 'R10.3': 1, 'R10.4.hint': 1, 'X4': 3, 'X8': 1, 'X9': 1, 'X7': 8, 'R10.6': 2}},
    'rule_text': 'obligations: one per monomorphic instance of a FAT writer (stream type must be the mirrored DiskSlice), '
                 'the two arms of the slice geometry, the two flag decoders, the replicated-write loop, the two '
                 'read-modify-write sites, format_fat and the allocator\'s hint clamp',
    'explanation': 'R10.1: every instance of write_fat / Fat*::set* in the mono call graph runs on a DiskSlice. R10.2: '
                   'arm-restricted dependence analysis of fat_slice: with mirroring the slice starts right after the '
                   'reserved sectors and has bpb.fats copies; without, it starts at reserved + active_fat * '
                   'sectors_per_fat and has exactly one; mirroring_enabled/active_fat decode bit 7 / bits 0-3 and the '
                   'active number is 0 under mirroring. R10.3: in DiskSlice::write the device write is in a loop bounded by '
                   'self.mirrors, each iteration seeks to an offset that depends on the slice size and on the loop counter '
                   'or a loop-carried value, and the cursor moves once after the loop. R10.4: FAT32 set merges the old '
                   'reserved nibble, FAT12 set_raw keeps the neighbour nibble, format_fat writes the media byte and marks '
                   'padding entries, the next-free hint is used only when strictly below total_clusters + 2. Exact, by '
                   'bit-provenance abstract interpretation: every word Fat32::set stores is (old & 0xF000_0000) | new 28-bit '
                   'value on every path (X9, with X4b: the reader it uses does not mask), and FAT12 set_raw / get_raw '
                   'round-trip all 2^12 values for both parities while keeping the neighbour nibble of all 2^16 old words '
                   '(X8); DiskSlice::write hands exactly the clipped length to every copy with write_all (R11.4); every table '
                   'access seeks to cluster * bits / 8 (X7). Byte identity of the copies over histories is not decided.',
    'claim': 'Mirroring structure on all paths; reserved-bit preservation exact at the bit level for every stored FAT32 word and '
             'every FAT12 word (premise: values below 2^28 / 2^12); byte identity of the copies over histories is not decided.',
    'level_note': 'geometry is checked by dependence (which quantities each slice parameter is computed from), not by '
                  'evaluating the arithmetic',
    'technique': 'static analysis: arm-restricted data dependence + loop-structure rules on MIR, mono instance typing, '
                 'bit-provenance abstract interpretation of the entry packing',
    'assumptions': COMMON_ASSUMPTIONS,
}

PROPS['C03'] = {
    'modules': ['c03', ('c05', ['A5.8']), ('c10', ['R10.4', 'R10.2']), ('c15', ['N7', 'N9', 'N1']), ('c04', ['K5']), ('c11', ['R11.4', 'R11.1']), ('retry', ['R9.9']), ('c02', ['B5', 'B7']), ('c01', ['R1.2', 'R1.10'])],
    'level': 'other',
    'quick_configs': ['default'],
    'thorough_configs': ALL,
    'controls': [],
    'floors': {'default': {'R3.1': 1, 'R3.2': 1, 'R3.3': 1, 'R3.7': 1, 'R3.8': 1, 'R3.9': 1, 'R10.4.hint': 1, 'N7': 1, 'R3.10': 1, 'R3.11': 1, 'R9.9': 2, 'R11.4': 2, 'R3.12': 1, 'N9': 3, 'B7': 2}},
    'rule_text': 'obligations: zero-fill of directory clusters (length, guard, position, the two callers\' arguments), '
                 'dot entries, release-on-failure of the unpublished allocation, `..` rewrite on move, first-cluster reset '
                 'at offset 0, the contiguous-run counter of the free-slot search, the truncate order, plus the reclaim '
                 'rules shared with C05',
    'explanation': 'Structural necessary conditions of the raw-image invariants, each decided on every path of the MIR: a '
                   'new directory cluster is zeroed over cluster_size bytes at offset_from_cluster(new) under the `zero` '
                   'argument, which create_dir passes as true and File::write as is_dir(); `.`/`..` provenance; between '
                   'the allocation and the write that publishes it every error exit releases the cluster (found the '
                   'create_dir leak); a moved directory gets its `..` rewritten (violated: known finding); an iteration of '
                   'the free-slot search either extends the run or resets the counter (a run never spans used slots); '
                   'truncate marks end-of-chain before freeing the tail. Cross-links, cycles, chain length vs size and '
                   'long-name run well-formedness over histories are not decided.',
    'claim': 'Structural necessary conditions only (ordering, pairing, provenance); global FAT/directory consistency over '
             'histories is not decided.',
    'level_note': 'one known finding (R3.5) is listed in known_findings.txt',
    'technique': 'static analysis: acquire/release typestate, dominance and dependence rules on MIR',
    'assumptions': COMMON_ASSUMPTIONS,
}

PROPS['C04'] = {
    'modules': ['c04', 'fattype', ('c14', ['P2', 'P3']), ('siblings', ['SB1', 'SB2']), ('c11', ['R11.4', 'R11.1', 'R11.6']), ('bits', ['K6']), ('c08', ['X2']), ('c03', ['R3.13']), ('c02', ['B5', 'B7'])],
    'level': 'other',
    'quick_configs': ['default'],
    'thorough_configs': ALL,
    'controls': ['P3'],
    'floors': {'default': {'K1': 10, 'K3': 2, 'K4': 1, 'FT1': 1, 'K5': 3, 'K1b': 1, 'K6': 1}},
    'rule_text': 'obligations: 5 on-disk layouts x {encoder, decoder} compared field by field (78 specification fields) '
                 'with the Microsoft FAT specification table; entry-position and extent provenance; the FAT-width table; '
                 'the write-back must-calls shared with C14',
    'explanation': 'K1 codec agreement by sequence extraction from the MIR: the primitive I/O calls of each serialize / '
                   'deserialize are listed in control-flow order on the Ok path, per layout variant (is_fat32 arm; '
                   'long/short entry arm), with widths from the primitive or the statically known buffer length (interval '
                   'analysis of slice lengths), loops over fixed arrays multiplied out, nested codecs spliced in, and each '
                   'value attributed to the struct field it comes from / ends up in; the resulting (offset, width, field) '
                   'lists of encoder and decoder must both equal tables/spec_layouts.json transcribed from the FAT '
                   'specification (an independent oracle: a bug symmetric in encoder and decoder is still caught), totals '
                   '512/512/512/32/32. K3: DirEntryEditor positions derive from the stream position after the short entry '
                   'minus 32. K4: extents = offset_from_cluster(cluster), min(cluster_size, bytes_left). FT1: FAT width '
                   'table. K2: flush/drop/unmount write-back must-calls (C14 rules). Equality of observed trees across '
                   'remount / independent decode is not decided.',
    'claim': 'Writer, reader and specification agree on every on-disk field (offset, width, identity) of the five '
             'structures; write-back on drop is must-called. Tree equality over histories is not decided.',
    'level_note': 'the specification table maps spec field names to struct field names by hand (tables/spec_layouts.json)',
    'technique': 'static analysis: codec sequence extraction from MIR + comparison with a specification table',
    'assumptions': COMMON_ASSUMPTIONS,
}

PROPS['C11'] = {
    'modules': ['c11', ('c10', ['R10.4', 'R10.2', 'R10.7']), ('c03', ['R3.8']), ('c20', ['W1', 'W4']), ('c08', ['X2']), 'invariants', ('c02', ['B5', 'B7'])],
    'level': 'other',
    'quick_configs': ['default'],
    'thorough_configs': ALL,
    'controls': ['R11.1', 'R11.2'],
    'floors': {'default': {'R11.1': 6, 'R11.2.adapter': 1, 'R11.3': 4, 'R10.4.hint': 1, 'R3.8': 1, 'R10.2': 1, 'R11.4': 2, 'R11.5': 6, 'INV.DiskSlice': 1, 'R11.6': 1}},
    'rule_text': 'one obligation per raw device-write site (closed set; each must be dominated by a successful seek whose '
                 'offset provenance is in an allowed class), per clipping site (File::write, DiskSlice read/write/seek), '
                 'plus the allocator bounds (hint clamp, padding entries; C10 rules) and the truncate order (C03 rule)',
    'explanation': 'The raw device-write sites of the library form a closed, enumerated set (calls that reach a device '
                   'write while a guard of the `disk` cell is alive, the mirrored write of DiskSlice, and the pass-through '
                   'FS adapter). For each, the seek that dominates it (Ok edge) has an offset whose data provenance is one '
                   'of: offset_from_cluster(c) [+ in-cluster offset], begin + offset [+ i*size] of a bounded slice, the '
                   'entry editor\'s position, one of the two status-byte constants, or offset_from_sector(fs_info_sector). '
                   'A new write site outside these classes, or one without a seek, is reported. Lengths are clipped: '
                   'File::write by cluster_size - offset % cluster_size, DiskSlice by size - offset, DiskSlice::seek '
                   'rejects offsets beyond the slice. The allocator never hands out entries at or past total_clusters + 2 '
                   '(hint strictly below; padding entries marked) and truncate terminates the chain before freeing. Not '
                   'decided: that the cluster written belongs to this file (ownership is a runtime property).',
    'claim': 'Closed classified write sites with seek pairing, offset provenance and length clipping on all paths; cluster '
             'ownership is not decided.',
    'level_note': 'offset classes are decided by data dependence (over-approximate: may miss, cannot alarm)',
    'technique': 'static analysis: write-site enumeration, dominance and data-dependence classification on MIR',
    'assumptions': COMMON_ASSUMPTIONS + ['cluster numbers passed to offset_from_cluster are valid (premise shared with C17/C20)'],
}

PROPS['C18'] = {
    'modules': ['c18', ('bits', ['R18.8'])],
    'level': 'other',
    'quick_configs': ['default'],
    'thorough_configs': ALL,
    'controls': [],
    'floors': {'default': {'R18.1': 3, 'R18.2': 6, 'R18.4': 1, 'R18.5': 3, 'R18.6': 4, 'R18.3': 1, 'R18.7': 2, 'R18.5b': 2, 'R18.8': 2}},
    'rule_text': 'obligations: one per clock read (must go through options.time_provider), per timestamp setter (closed '
                 'caller set from the mono call graph), the access-date option guard, the stamp-on-write must-call, the '
                 'rename-keeps-body shape and one per editor setter (its unchanged-test must cover every stored field)',
    'explanation': 'Stamping rules as who-may-call and must-call rules over the monomorphic call graph and the MIR: the '
                   'clock is only read through the configured provider (the system clock only inside the chrono provider); '
                   'created/modified/accessed are set only from entry creation, the public setters, the post-write update '
                   'and File::read under update_accessed_date; every Ok-exit of File::write with a non-zero count crosses '
                   'the update that stamps the modification time with the clock value; DirFileEntryData::renamed is a clone '
                   'with only `name` assigned and rename writes that value; each editor setter compares all stored fields '
                   'of its timestamp before deciding the entry is unchanged, component by component (R18.5b). The packing: '
                   'the decoder cuts the words at the bit positions of the specification (R18.6); under the ranges that '
                   'Date::new / Time::new establish (read off the interval analysis of the constructors) every value packed '
                   'into a word fits the bits it is given and the sub-second byte stays within 0..=199 (R18.7); and bit-'
                   'provenance abstract interpretation of encode and decode shows that year offset, month, day, hour, minute '
                   'and the two-second count come back bit for bit for every value in those ranges (R18.8). NOT decided: the '
                   'arithmetic identity for the odd second and the 10 ms units (sub-second byte = millis/10 + (sec%2)*100), '
                   'and the chrono conversions.',
    'claim': 'Stamping discipline (who reads the clock, who sets which timestamp, when) on all paths; bit-field round trip of '
             'the DOS date word and of hour / minute / two-second count of the time word for all constructor-valid values; '
             'the odd-second / millisecond arithmetic of the sub-second byte is bounded (0..=199) but its round trip is not '
             'decided.',
    'level_note': 'caller sets are closed tables in rules/c18.py (a new legitimate caller must be added there)',
    'technique': 'static analysis: who-may-call over the mono call graph + must-pass-through and dependence on MIR + interval '
                 'and bit-provenance abstract interpretation of the packing code',
    'assumptions': COMMON_ASSUMPTIONS + ['Date / Time values are built by their checked constructors or by decode (public fields '
                                         'are not overwritten with out-of-range values by the caller)'],
}

PROPS['C19'] = {
    'modules': ['c19', ('c17', ['T2n'])],
    'level': 'other',
    'quick_configs': ['default', 'noalloc'],
    'thorough_configs': ['default', 'noalloc'],
    'controls': [],
    'floors': {'default': {'R19.1': 1000, 'R19.1b': 2, 'R19.3': 2, 'R19.4': 1}},
    'rule_text': 'one obligation per fatfs function body per configuration pair (default vs no-alloc, default vs '
                 'no-unicode): equal normalised fingerprint or member of the documented feature-dependent set; one per '
                 'user of the unicode-dependent case-folding function; the sibling API and size relation of the two '
                 'long-name buffers; non-trivial = bodies that actually differ',
    'explanation': 'A11 cross-configuration diff of the resolved program: the fact extractor is run on the same tree under '
                   'the three feature sets the statement names; every function body is reduced to a multiset of semantic '
                   'events (callees, operators with constants, constructed variants, assigned fields, switch values, '
                   'asserts; drop elaboration, spans, local numbering and local types excluded). Bodies that differ or '
                   'exist on one side only must belong to the documented set (long-name buffer and builder, String-'
                   'returning accessors, chrono items; char_to_uppercase for the unicode feature). Callers of the '
                   'unicode-dependent function are confined to the two name-comparison functions, so the feature cannot '
                   'leak into bytes written to the volume. The fixed buffer offers the same methods and holds 20 x 13 >= '
                   '255 units. Every other property is additionally evaluated under all four configurations by its '
                   'thorough tier. Byte-identical images are a runtime property and not decided.',
    'claim': 'Feature-dependent code is confined to the documented items and their documented users (whole-crate diff of '
             'resolved bodies across feature sets); image identity is not decided.',
    'level_note': 'the allow-list of feature-dependent items is in rules/c19.py; a configuration that does not build is '
                  'reported as skipped',
    'technique': 'static analysis: cross-configuration diff of normalised MIR bodies + who-may-call',
    'assumptions': COMMON_ASSUMPTIONS,
}


# rules added after the second and third seeding rounds (DESIGN.md section 9.6)
ADDENDA = {
    'C01': ' R1.8: no Ok exit of Dir::rename avoids both rename_internal and the recursion into a sub-directory. N5b (from '
           'module c15): a possibly-true result of the long-name comparison is reachable only after the end of both names.',
    'C02': ' B5.neg: the signed seek target is not clamped / saturated / made absolute before the fallible conversion.',
    'C03': ' R3.9: long-name slots are padded with 0xFFFF behind a single 0x0000 terminator. R3.1 also requires the '
           'zero-fill on every Ok path of the `zero` arm.',
    'C04': ' SB1/SB2: the mount-side root-directory size and cluster count use the same rounding as the format side.',
    'C05': ' R3.8 (from module c03): truncate marks the new end before freeing the tail, so the returned count excludes '
           'the kept cluster.',
    'C07': ' The rejecting comparisons of M2b are checked at their boundary: which arm is taken when both operands are '
           'equal (e.g. backup boot sector == reserved sectors must be rejected).',
    'C08': ' X4 holds for every store of Fat32::set / Fat12::set_raw (no bypass path). R10.2 and T3/T3b are taken over '
           'from C10 / C17 (active table selection; orphaned long-name runs).',
    'C09': ' R9.7: no error-discarding Result function (ok, into_iter, unwrap_or, ..) instantiated with a device-capable '
           'error type is reached from fatfs code through library adaptors such as iter.flatten() (monomorphic graph).',
    'C10': ' R10.2 requires the geometry to be selected by mirroring_enabled() itself (not by something derived from it).',
    'C11': ' W1/W4 are taken over from C20 (no 32-bit overflow in the offset arithmetic; biased cluster bounds).',
    'C15': ' N5b: equality is reported only after both sequences are exhausted. N7: the number of long-name slots is the '
           'length divided by 13 rounded up.',
    'C16': ' S3.chk: a checksum-form entry blocks a numeric tail only if its checksum digits equal the generator\'s. '
           'S3.step: the next checksum tried derives from the current checksum and constants alone.',
    'C18': ' R18.3 requires the stamp on every path of the entry arm. R18.6: the DOS date / time words are cut at the bit '
           'positions of the specification (shift / mask pairs of decode, shifts of encode).',
    'C19': ' R19.3 also requires set_len / len of the fixed buffer to be the identity (as Vec\'s are); T2n is evaluated in '
           'the no-alloc build.',
    'C20': ' W2 requires the second leg to end exactly at the first leg\'s start. W4: every comparison of a cluster number '
           'with a bound derived from total_clusters carries the +2 / -2 bias of the reserved entries. SB2 as in C07.',
}
for _pid, _txt in ADDENDA.items():
    PROPS[_pid]['explanation'] = PROPS[_pid]['explanation'] + _txt


# one line per rule id: what a discharged obligation of that rule means (copied into every evidence file for the rules that
# had instances in the run, so that the numbers under `rule_instances` can be read without the design document)
RULE_GLOSSARY = {
    'R9.1': 'a device-capable Result is examined: every path returns, kind-tests or retries its error',
    'R9.6': 'no call made while a RefCell guard is alive can borrow the same cell again',
    'R9.7': 'no error-discarding Result function is reached with a device error through a library adaptor',
    'R9.8': 'an item-discarding iterator adaptor over device results keeps Err items (predicate evaluated on "the item is Err")',
    'R9.9': 'the retry predicate: Error<T> delegates to the wrapped error on Io only; std::io::Error retries Interrupted and nothing else',
    'R3.7b': 'the free-slot run counter is compared with the slots needed after counting the current slot',
    'R3.10': 'a new cluster is marked end-of-chain before its predecessor is linked to it',
    'R3.11': "a file's first cluster is recorded before the next fallible device operation",
    'R11.4': 'DiskSlice::read advances by the delivered count; DiskSlice::write hands the clipped length to every mirror with write_all',
    'R11.5': 'every Read::read / Write::write implementation returns the count its inner stream returned',
    'K1b': 'fields the boot-sector decoder overwrites after reading are the three the specification ties to the boot signature',
    'K5': 'an entry setter stores, on every path, every field its getter reads for the same FAT type',
    'K6': 'first_cluster(set_first_cluster(n)) == n bit for bit; "no cluster" is decided on the whole number',
    'X2': 'every FAT32 reader tests the masked entry; the link Fat32::get returns is at most 0x0FFF_FFFF',
    'X4': 'Fat32::set merges the old reserved nibble, read through a reader that does not mask it; FAT12 keeps the neighbour nibble',
    'X7': 'every table access seeks to cluster * bits / 8 (closed form extracted and compared over one period)',
    'X8': 'FAT12 get_raw(set_raw(v)) == v and the neighbour nibble survives, both parities, all values (bit provenance)',
    'X9': 'every word Fat32::set stores is (old & 0xF000_0000) | 28-bit value (bit provenance)',
    'M2f': 'with a 16-bit FAT size of 0 the boot sector is treated as FAT32 whatever the other fields say',
    'V6': 'the root-directory size used for sizing / written to the BPB depends on the FAT type it is used for',
    'N5c': 'the case-fold iterator of a character is consumed in full, not cut to its first item',
    'N8': 'a length in UTF-8 bytes is never compared / added to a length in UTF-16 units or chars',
    'B7': 'the cluster remembered after a transfer is the one whose offset went to the device, or is computed from the device count',
    'R10.8': 'a view of the table region (start right after the reserved sectors) is built only where mirroring / active FAT are looked at',
    'R11.7': 'code that writes several pieces after one seek is never instantiated on the raw FS adapter (which moves the device after a write)',
    'A5.9': 'NotEnoughSpace is constructed only by the table scans, never from cached bookkeeping',
    'T3c': 'every slot that does not end the call is handed to the long-name accumulator or clears it',
    'W4b': 'a parameter that is an exclusive end cluster number is not handed a plain cluster count',
    'R3.7c': 'the start of the free-slot run is (re)assigned only when the run is empty (`num_free == 0`) or at the reset on a used slot',
    'R3.13': 'a function that stores the handle\'s first cluster also stores the directory entry\'s, with the same kind of value',
    'R3.12': 'a cluster is appended after a remembered cluster only where that cluster\'s successor was looked up in the FAT on the way',
    'R10.6': 'set_raw (which overwrites the whole stored word) is called only by set of the same FAT width',
    'R10.7': 'copies written by a slice = constructor argument composed with the write loop count: fats with mirroring, one otherwise',
    'FT2': 'the FAT width a volume is mounted with is computed from the unmodified BiosParameterBlock::total_clusters',
    'N5d': 'where names are compared by folded characters (Unicode build) no comparison of their raw lengths decides the answer',
    'Q7': 'set_dirty_flag returns Ok without a device write only on arms decided by the cached status value',
    'R11.6': 'the FS-information value kept for write-back is the successfully decoded sector, never constructed after a read',
    'N9': 'the string that is looked up for existence, turned into the 8.3 alias and stored in the long-name slots is the caller\'s name itself',
    'N8b': 'a number of long-name slots (a count divided by LFN_PART_LEN) is derived from a length in UTF-16 units only',
    'P3': 'a write-back latch is lowered (any store other than `true`) only after the Ok edge of the device write',
    'Q2': 'unmount: FS-information flush, then - only on its Ok edge - set_dirty_flag(false)',
    'Q6': 'File::truncate cannot change the size and return Ok without a table write / set_dirty_flag(true)',
    'Q6b': 'every FatTrait::set crosses a device write on every Ok path',
    'R18.5b': "the editor's unchanged-test compares every component (date, time word, sub-second byte) the setter stores",
    'R18.7': 'every value packed into a DOS date/time word fits its bits; the sub-second byte stays within 0..=199',
    'R18.8': 'year offset, month, day, hour, minute, two-second count come back bit for bit (bit provenance)',
    'R19.4': 'without `unicode` the fold of every ASCII character is ASCII upper-casing (table over 128 singletons)',
    'S3.all': 'the exact-match arm of add_existing reaches every collision-bitmap update',
    'T3.cont': 'a continuation slot is copied only after its checksum compared equal to the run\'s',
    'T3.start': 'a slot that starts a run resizes the accumulator before anything is copied into it',
    'W2c': 'the FAT12 scan compares the cluster number with the bound between incrementing it and the next table read',
    'R1.9': 'entry identity (rename onto itself) is decided on the absolute entry position',
    'R1.10': 'no handle (to_dir / to_file / editor) is made from an entry after its slots were marked deleted',
    'INV.DiskSlice': 'offset <= size and byte counts below 2^48 hold at every construction and are kept by every store (inductive proof; feeds the panic inventories)',
}
