"""Regenerates /verif/MANIFEST.json from props.py (keeps the manifest and the checks in sync)."""
import json, os, sys
sys.path.insert(0, os.path.dirname(os.path.abspath(__file__)))
import props
VERIF = os.path.dirname(os.path.dirname(os.path.abspath(__file__)))
titles = {}
for l in open(os.path.join(VERIF, 'properties.jsonl')):
    p = json.loads(l); titles[p['id']] = p['title']
m = {
 "version": 1,
 "setup_cmd": "bin/vf setup",
 "hooks": {"guard": "fatfs_verif", "enable": "no source hooks: the checks read the compiler's MIR of /repo's working tree through a rustc_private driver (RUSTC_WRAPPER) and a witness crate that path-depends on /repo",
           "baseline_off_cmd": "cd /repo && cargo test --workspace --no-fail-fast --offline", "source_commits": [], "add_only": True},
 "engines": [{"name": "vf", "path": "bin/vf", "serves_properties": sorted(props.PROPS), "kind_free_text": "static analysis: rustc_private MIR fact extractor (driver/), witness crate closing the generic library (witness/), Python rule checker over CFGs and the monomorphic call graph (checker/)"}],
 "checks": [], "not_applicable": [],
 "notes": "All checks are static analyses of /repo's current working tree (nothing is executed). Exit 2 = machinery unsound for this run (never a VIOLATION). Genuine defects found and repaired are listed in known_findings.txt as fixed: entries.",
}
for pid in sorted(titles):
    if pid in props.PROPS:
        s = props.PROPS[pid]
        m['checks'].append({
            "property_id": pid, "quick_cmd": "bin/vf check %s --tier quick" % pid, "thorough_cmd": "bin/vf check %s --tier thorough" % pid,
            "evidence_file": "evidence/%s.json" % pid, "replay_cmd_template": "bin/vf explain {path}", "engine": "vf",
            "level_claimed": {"category": s['level'], "text": s['claim'], "design_ref": "DESIGN.md section 4, " + pid},
            "level_note": s['level_note'], "technique": s['technique']})
    else:
        m['not_applicable'].append({"property_id": pid, "reason": props.NOT_APPLICABLE.get(pid, "check not built yet (build in progress; see DESIGN.md section 8)")})
json.dump(m, open(os.path.join(VERIF, 'MANIFEST.json'), 'w'), indent=1)
print('checks:', [c['property_id'] for c in m['checks']])
