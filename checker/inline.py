"""Normalisation of the fact base: functions that the rule tables do not know are made transparent.

The rules and tables name functions of the pinned tree (anchors). A refactoring that splits such a function moves part
of its body into a NEW private function; every rule that looks at the shape of the original function (dominance,
must-pass-through, dependence, codec sequences, panic-site tables) would then see a call where it expects the code.
This pass inlines, bottom-up, every fatfs function that

  * is not in tables/known_functions.json (the function names of the pinned tree under the four feature sets),
  * is not a closure, not a trait-impl method and not public,
  * is called directly (by name) and is not recursive,

into each of its call sites, on the MIR facts: locals and blocks of the callee are appended to the caller, `return`
becomes a jump to a join block that moves the callee's return place into the call's destination, the monomorphic call
edges of the callee's instances are re-attached to the caller's instances at the new block numbers. The inlined function
stays in the fact base (crate tag 'fatfs-inlined') so that name lookups keep working, but rules that iterate over the
fatfs functions no longer see it as a function of its own."""
import copy
import json
import os

VERIF = os.path.dirname(os.path.dirname(os.path.abspath(__file__)))
KNOWN = os.path.join(VERIF, 'tables', 'known_functions.json')
MAX_BLOCKS = 600
MAX_ROUNDS = 6


def load_known():
    if not os.path.exists(KNOWN):
        return None
    return set(json.load(open(KNOWN)))


def _map_place(p, lmap):
    q = {'l': lmap(p['l']), 'p': []}
    for e in p['p']:
        e2 = dict(e)
        if 'idx' in e2 and isinstance(e2['idx'], int):
            e2['idx'] = lmap(e2['idx'])
        q['p'].append(e2)
    return q


def _map_any(x, lmap):
    """deep copy with every place remapped"""
    if isinstance(x, dict):
        if 'l' in x and 'p' in x and isinstance(x.get('p'), list) and isinstance(x.get('l'), int) and set(x) <= {'l', 'p'}:
            return _map_place(x, lmap)
        return {k: _map_any(v, lmap) for k, v in x.items()}
    if isinstance(x, list):
        return [_map_any(v, lmap) for v in x]
    return x


def _map_stmt(s, lmap):
    if s['k'] == 'dead':
        return {'k': 'dead', 'l': lmap(s['l'])}
    out = dict(s)
    if 'lhs' in s:
        out['lhs'] = _map_place(s['lhs'], lmap)
    if 'rv' in s:
        out['rv'] = _map_any(s['rv'], lmap)
    return out


def _map_term(t, lmap, bmap, join_blk):
    k = t['k']
    if k == 'return':
        return {'k': 'goto', 'ret': join_blk, 'span': t['span']}
    out = {}
    for key, v in t.items():
        if key in ('ret', 'otherwise', 'unwind'):
            out[key] = bmap(v) if isinstance(v, int) else v
        elif key == 'targets':
            out[key] = [[val, bmap(b)] for val, b in v]
        elif key in ('args', 'dest', 'discr', 'cond', 'place', 'func'):
            out[key] = _map_any(v, lmap)
        elif key == 'msg':
            out[key] = _map_any(v, lmap)
        else:
            out[key] = v
    return out


def inline_call(facts, caller, blk, callee):
    """inline `callee` at the call terminator of caller block blk; returns the block map callee-block -> caller-block"""
    t = caller.blocks[blk]['term']
    base_l = len(caller.locals)
    base_b = len(caller.blocks)
    n_cb = len(callee.blocks)
    prelude = base_b + n_cb
    join = base_b + n_cb + 1
    lmap = lambda l: base_l + l
    bmap = lambda b: base_b + b
    for loc in callee.locals:
        caller.locals.append(dict(loc))
    for cb in callee.blocks:
        nb = {'cleanup': cb['cleanup'], 'stmts': [_map_stmt(s, lmap) for s in cb['stmts']],
              'term': _map_term(cb['term'], lmap, bmap, join)}
        caller.blocks.append(nb)
    span = t['span']
    # prelude: parameters := arguments
    pst = []
    for i, a in enumerate(t['args']):
        if i + 1 > callee.argc:
            break
        pst.append({'k': 'assign', 'lhs': {'l': lmap(i + 1), 'p': []}, 'rv': {'k': 'use', 'a': copy.deepcopy(a)}, 'span': span})
    caller.blocks.append({'cleanup': False, 'stmts': pst, 'term': {'k': 'goto', 'ret': bmap(0), 'span': span}})
    # join: destination := callee's return place
    jst = [{'k': 'assign', 'lhs': copy.deepcopy(t['dest']), 'rv': {'k': 'use', 'a': {'m': {'l': lmap(0), 'p': []}}}, 'span': span}]
    jterm = {'k': 'goto', 'ret': t['ret'], 'span': span} if t.get('ret') is not None else {'k': 'unreachable', 'span': span}
    caller.blocks.append({'cleanup': False, 'stmts': jst, 'term': jterm})
    caller.blocks[blk]['term'] = {'k': 'goto', 'ret': prelude, 'span': span, 'inlined': callee.name}
    # the callee's return place lives on as a local of the caller: blocks that store an error there are error exits of
    # the inlined frame (error_blocks() treats them like stores to the caller's own return place)
    caller.__dict__.setdefault('inlined_ret_locals', set()).add(lmap(0))
    for r in callee.__dict__.get('inlined_ret_locals', ()):
        caller.__dict__['inlined_ret_locals'].add(lmap(r))
    caller._succ = caller._pred = caller._dom = caller._pdom = caller._reach = None
    caller.__dict__.pop('_bool_switch_cache', None)
    return {b: bmap(b) for b in range(n_cb)}


def _operand_form(facts):
    """how this fact base spells a move operand ({'m': place} / {'c': place})"""
    return 'm'


def normalise(facts):
    known = load_known()
    facts.inlined = {}
    if known is None:
        return
    for _ in range(MAX_ROUNDS):
        fat = {n: f for n, f in facts.fns.items() if f.crate == 'fatfs'}
        unknown = {n for n, f in fat.items() if n not in known and not f.is_closure and f.impl_trait is None and
                   not f.pub and '{closure' not in n and len(f.blocks) <= MAX_BLOCKS}
        if not unknown:
            return
        # call sites by callee
        sites = {}
        calls_unknown = {}
        for n, f in fat.items():
            for bi, b in enumerate(f.blocks):
                t = b['term']
                if t['k'] == 'call' and t.get('callee') in unknown and t.get('callee') != n:
                    sites.setdefault(t['callee'], []).append((n, bi))
                    calls_unknown.setdefault(n, set()).add(t['callee'])
        if not sites:
            return
        # bottom-up: inline first the unknown functions that do not themselves call unknown functions
        leaves = [c for c in sites if not (calls_unknown.get(c) or set()) & set(sites)]
        if not leaves:
            leaves = sorted(sites)[:1]
        for cname in sorted(leaves):
            callee = facts.fns[cname]
            for caller_name, blk in sites[cname]:
                caller = facts.fns[caller_name]
                if caller.blocks[blk]['term']['k'] != 'call':
                    continue
                bmap = inline_call(facts, caller, blk, callee)
                facts.inlined.setdefault(cname, []).append((caller_name, blk))
                # re-attach the call edges of the callee's instances to the caller's instances
                for iid in facts.insts_of.get(caller_name, []):
                    cis = [c for c, kind in facts.edge_at.get((iid, blk), ()) if facts.instances[c]['fn'] == cname]
                    for ci in cis:
                        for cb, tgt, kind in list(facts.out_edges.get(ci, ())):
                            nb = bmap.get(cb)
                            if nb is None:
                                continue
                            facts.out_edges[iid].append((nb, tgt, kind))
                            facts.in_edges[tgt].append((iid, nb, kind))
                            facts.edge_at[(iid, nb)].append((tgt, kind))
            # the function is now transparent everywhere it was called
            if not any(t_.get('callee') == cname for f in fat.values() for b in f.blocks
                       for t_ in [b['term']] if t_['k'] == 'call'):
                callee.crate = 'fatfs-inlined'


def write_known(names):
    json.dump(sorted(names), open(KNOWN, 'w'), indent=0)
