"""Normalisation of the fact base: functions that the rule tables do not know are made transparent.

The rules and tables name functions of the pinned tree (anchors). A refactoring that splits such a function moves part
of its body into a NEW private function; every rule that looks at the shape of the original function (dominance,
must-pass-through, dependence, codec sequences, panic-site tables) would then see a call where it expects the code.
This pass inlines, bottom-up, every fatfs function that

  * is not in tables/known_functions.json (the function names of the pinned tree under the four feature sets),
  * is not a closure, not a trait-impl method and not public,
  * is called directly (by name) and is not recursive,

into each of its call sites, on the MIR facts: locals and blocks of the callee are appended to the caller, `return`
becomes a jump to a join block that moves the callee's return place into the call's destination, the monomorphic call
edges of the callee's instances are re-attached to the caller's instances at the new block numbers. The inlined function
stays in the fact base (crate tag 'fatfs-inlined') so that name lookups keep working, but rules that iterate over the
fatfs functions no longer see it as a function of its own."""
import copy
import json
import os
import re

VERIF = os.path.dirname(os.path.dirname(os.path.abspath(__file__)))
KNOWN = os.path.join(VERIF, 'tables', 'known_functions.json')
MAX_BLOCKS = 600
MAX_ROUNDS = 6


def load_known():
    if not os.path.exists(KNOWN):
        return None
    return set(json.load(open(KNOWN)))


def _map_place(p, lmap):
    q = {'l': lmap(p['l']), 'p': []}
    for e in p['p']:
        e2 = dict(e)
        if 'idx' in e2 and isinstance(e2['idx'], int):
            e2['idx'] = lmap(e2['idx'])
        q['p'].append(e2)
    return q


def _map_any(x, lmap):
    """deep copy with every place remapped"""
    if isinstance(x, dict):
        if 'l' in x and 'p' in x and isinstance(x.get('p'), list) and isinstance(x.get('l'), int) and set(x) <= {'l', 'p'}:
            return _map_place(x, lmap)
        return {k: _map_any(v, lmap) for k, v in x.items()}
    if isinstance(x, list):
        return [_map_any(v, lmap) for v in x]
    return x


def _map_stmt(s, lmap):
    if s['k'] == 'dead':
        return {'k': 'dead', 'l': lmap(s['l'])}
    out = dict(s)
    if 'lhs' in s:
        out['lhs'] = _map_place(s['lhs'], lmap)
    if 'rv' in s:
        out['rv'] = _map_any(s['rv'], lmap)
    return out


def _map_term(t, lmap, bmap, join_blk):
    k = t['k']
    if k == 'return':
        return {'k': 'goto', 'ret': join_blk, 'span': t['span']}
    out = {}
    for key, v in t.items():
        if key in ('ret', 'otherwise', 'unwind'):
            out[key] = bmap(v) if isinstance(v, int) else v
        elif key == 'targets':
            out[key] = [[val, bmap(b)] for val, b in v]
        elif key in ('args', 'dest', 'discr', 'cond', 'place', 'func'):
            out[key] = _map_any(v, lmap)
        elif key == 'msg':
            out[key] = _map_any(v, lmap)
        else:
            out[key] = v
    return out


def inline_call(facts, caller, blk, callee):
    """inline `callee` at the call terminator of caller block blk; returns the block map callee-block -> caller-block"""
    t = caller.blocks[blk]['term']
    base_l = len(caller.locals)
    base_b = len(caller.blocks)
    n_cb = len(callee.blocks)
    prelude = base_b + n_cb
    join = base_b + n_cb + 1
    lmap = lambda l: base_l + l
    bmap = lambda b: base_b + b
    for loc in callee.locals:
        caller.locals.append(dict(loc))
    for cb in callee.blocks:
        nb = {'cleanup': cb['cleanup'], 'stmts': [_map_stmt(s, lmap) for s in cb['stmts']],
              'term': _map_term(cb['term'], lmap, bmap, join)}
        caller.blocks.append(nb)
    span = t['span']
    # prelude: parameters := arguments
    pst = []
    for i, a in enumerate(t['args']):
        if i + 1 > callee.argc:
            break
        pst.append({'k': 'assign', 'lhs': {'l': lmap(i + 1), 'p': []}, 'rv': {'k': 'use', 'a': copy.deepcopy(a)}, 'span': span})
    caller.blocks.append({'cleanup': False, 'stmts': pst, 'term': {'k': 'goto', 'ret': bmap(0), 'span': span}})
    # join: destination := callee's return place
    jst = [{'k': 'assign', 'lhs': copy.deepcopy(t['dest']), 'rv': {'k': 'use', 'a': {'m': {'l': lmap(0), 'p': []}}}, 'span': span}]
    jterm = {'k': 'goto', 'ret': t['ret'], 'span': span} if t.get('ret') is not None else {'k': 'unreachable', 'span': span}
    caller.blocks.append({'cleanup': False, 'stmts': jst, 'term': jterm})
    caller.blocks[blk]['term'] = {'k': 'goto', 'ret': prelude, 'span': span, 'inlined': callee.name}
    # the callee's return place lives on as a local of the caller: blocks that store an error there are error exits of
    # the inlined frame (error_blocks() treats them like stores to the caller's own return place)
    caller.__dict__.setdefault('inlined_ret_locals', set()).add(lmap(0))
    for r in callee.__dict__.get('inlined_ret_locals', ()):
        caller.__dict__['inlined_ret_locals'].add(lmap(r))
    caller._succ = caller._pred = caller._dom = caller._pdom = caller._reach = None
    caller.__dict__.pop('_bool_switch_cache', None)
    return {b: bmap(b) for b in range(n_cb)}


def _operand_form(facts):
    """how this fact base spells a move operand ({'m': place} / {'c': place})"""
    return 'm'


def _render_ty(types, ix, depth=0):
    t = types[ix]
    if t is None or depth > 4:
        return '?'
    if t.get('k') == 'adt':
        args = [a for a in (t.get('args') or [])]
        return t.get('path', '?') + ('<%s>' % ', '.join(_render_ty(types, a, depth + 1) for a in args) if args else '')
    return t.get('s') or '?'


def devirtualise(facts):
    """Provided methods of a crate trait (`trait FatTrait { fn get(..) { Self::decode(Self::get_raw(..)?) } }`) are generic in
    `Self`; every rule about `Fat32::get` wants the FAT32 body. For each implementing type that does not override the method a
    copy named `<T as Trait>::m` is made in which `Trait::x` calls are resolved to `<T as Trait>::x`; call sites elsewhere that
    name the trait method with a concrete `Self` are resolved the same way, and the monomorphic instances are renamed."""
    from model import Fn
    impls = {}
    for n, f in facts.fns.items():
        if f.crate == 'fatfs' and f.impl_trait and not f.impl_trait.startswith('default:') and f.self_ty and \
                f.impl_trait.startswith('fatfs::'):
            impls.setdefault(f.impl_trait, {}).setdefault(f.self_ty, {})[n.rsplit('::', 1)[-1]] = n
    known = load_known() or set()
    # only provided methods the pinned tree does not have (`Write::write_all`, `Read::read_exact` keep their generic form:
    # the rules about them are written for it)
    provided = [f for f in facts.fns.values() if f.crate == 'fatfs' and (f.impl_trait or '').startswith('default:fatfs::') and
                f.name not in known]
    made = {}
    for P in provided:
        trait = P.impl_trait[len('default:'):]
        m = P.name.rsplit('::', 1)[-1]
        for T, methods in impls.get(trait, {}).items():
            new = '<%s as %s>::%s' % (T, trait, m)
            if new in facts.fns:
                continue
            d = copy.deepcopy(P.d)
            d['impl_trait'] = trait
            d['self_ty'] = T
            nf = Fn(new, d, P.types, P.adts, P.source)
            nf.facts_ref = facts
            nf.synth_from = P.name
            facts.fns[new] = nf
            methods[m] = new
            made.setdefault(P.name, {})[T] = new
    if not made:
        facts.devirtualised = 0
        return
    n = 0
    for fn in list(facts.fns.values()):
        if fn.crate != 'fatfs':
            continue
        for B in fn.blocks:
            t = B['term']
            if t['k'] != 'call':
                continue
            c = t.get('callee') or ''
            trait = c.rsplit('::', 1)[0]
            if trait not in impls:
                continue
            T = None
            ga = t.get('gargs') or []
            if ga:
                g0 = fn.types[ga[0]]
                if (g0 or {}).get('s') == 'Self' or (g0 or {}).get('k') == 'param':
                    T = fn.self_ty if getattr(fn, 'synth_from', None) else None
                else:
                    T = _render_ty(fn.types, ga[0])
            tgt = impls[trait].get(T, {}).get(c.rsplit('::', 1)[-1]) if T else None
            if tgt:
                t['callee'] = tgt
                n += 1
    for i in facts.instances:
        mp = made.get(i['fn'])
        if not mp:
            continue
        a = i['args'].lstrip('[')
        for T, new in mp.items():
            if a.startswith(T + ',') or a.startswith(T + ']'):
                facts.insts_of[i['fn']] = [x for x in facts.insts_of.get(i['fn'], []) if x != i['id']]
                i['fn'] = new
                facts.insts_of[new].append(i['id'])
                break
    for pname in made:
        # the generic original is judged through its copies
        facts.fns[pname].crate = 'fatfs-inlined'
    facts.devirtualised = n


def normalise(facts):
    known = load_known()
    facts.inlined = {}
    if known is None:
        return
    for _ in range(MAX_ROUNDS):
        fat = {n: f for n, f in facts.fns.items() if f.crate == 'fatfs'}
        known_trait_methods = {(m_.group(1), k_.rsplit('::', 1)[-1]) for k_ in known
                               for m_ in [re.match(r'^<.+ as (.+)>::[^:]+$', k_)] if m_}
        unknown = {n for n, f in fat.items() if n not in known and not f.is_closure and
                   (f.impl_trait is None or (f.impl_trait.startswith('fatfs::') and
                                             (f.impl_trait, n.rsplit('::', 1)[-1]) not in known_trait_methods and
                                             not getattr(f, 'synth_from', None))) and
                   not f.pub and '{closure' not in n and len(f.blocks) <= MAX_BLOCKS}
        if not unknown:
            return
        # call sites by callee
        sites = {}
        calls_unknown = {}
        for n, f in fat.items():
            for bi, b in enumerate(f.blocks):
                t = b['term']
                if t['k'] == 'call' and t.get('callee') in unknown and t.get('callee') != n:
                    sites.setdefault(t['callee'], []).append((n, bi))
                    calls_unknown.setdefault(n, set()).add(t['callee'])
        if not sites:
            return
        # bottom-up: inline first the unknown functions that do not themselves call unknown functions
        leaves = [c for c in sites if not (calls_unknown.get(c) or set()) & set(sites)]
        if not leaves:
            leaves = sorted(sites)[:1]
        for cname in sorted(leaves):
            callee = facts.fns[cname]
            for caller_name, blk in sites[cname]:
                caller = facts.fns[caller_name]
                if caller.blocks[blk]['term']['k'] != 'call':
                    continue
                bmap = inline_call(facts, caller, blk, callee)
                facts.inlined.setdefault(cname, []).append((caller_name, blk))
                # re-attach the call edges of the callee's instances to the caller's instances
                for iid in facts.insts_of.get(caller_name, []):
                    cis = [c for c, kind in facts.edge_at.get((iid, blk), ()) if facts.instances[c]['fn'] == cname]
                    for ci in cis:
                        for cb, tgt, kind in list(facts.out_edges.get(ci, ())):
                            nb = bmap.get(cb)
                            if nb is None:
                                continue
                            facts.out_edges[iid].append((nb, tgt, kind))
                            facts.in_edges[tgt].append((iid, nb, kind))
                            facts.edge_at[(iid, nb)].append((tgt, kind))
            # the function is now transparent everywhere it was called
            if not any(t_.get('callee') == cname for f in fat.values() for b in f.blocks
                       for t_ in [b['term']] if t_['k'] == 'call'):
                callee.crate = 'fatfs-inlined'


def write_known(names):
    json.dump(sorted(names), open(KNOWN, 'w'), indent=0)


# ---------------------------------------------------------------------------------------------------------------
# iterator adaptors that are loops in disguise: `it.try_for_each(|x| ..)` / `it.for_each(|x| ..)` become an explicit
# loop around the inlined closure body, so that rules about loops (per-mirror writes, codec sequences, error
# propagation out of the loop) see the same shape as with `for x in it { .. }`

LOOP_ADAPTORS = ('Iterator::try_for_each', 'Iterator::for_each')


def _type_index(types, pred, make):
    for i, t in enumerate(types):
        if pred(t):
            return i
    types.append(make())
    return len(types) - 1


def _closure_def_of(fn, operand):
    p = operand.get('m') or operand.get('c')
    if p is None or p['p']:
        return None, None
    defs = [s for b in fn.blocks for s in b['stmts']
            if s['k'] == 'assign' and s['lhs']['l'] == p['l'] and not s['lhs']['p']]
    if len(defs) != 1:
        return None, None
    rv = defs[0]['rv']
    if rv['k'] == 'agg' and rv.get('ak') == 'closure':
        return rv['def'], p['l']
    return None, None


def loopify(facts, fn, blk, known):
    t = fn.blocks[blk]['term']
    callee = t.get('callee') or ''
    is_try = callee.endswith('Iterator::try_for_each')
    cdef, clo_local = _closure_def_of(fn, t['args'][1])
    cf = facts.fns.get(cdef) if cdef else None
    if cf is None or cf.argc != 2 or len(cf.blocks) > MAX_BLOCKS or t.get('ret') is None:
        return False
    types = fn.types
    span = t['span']
    it_op = t['args'][0]
    it_p = it_op.get('m') or it_op.get('c')
    if it_p is None or it_p['p']:
        return False
    it_ty = fn.locals[it_p['l']]['ty']
    item_ty = cf.locals[2]['ty']
    ret_ty = cf.locals[0]['ty']
    env_ty = cf.locals[1]['ty']
    env_is_ref = types[env_ty].get('k') == 'ref'
    ref_it_ty = _type_index(types, lambda x: x.get('k') == 'ref' and x.get('mut') and x.get('to') == it_ty,
                            lambda: {'s': '&mut <iter>', 'k': 'ref', 'to': it_ty, 'mut': True})
    opt_ty = _type_index(types, lambda x: x.get('path') == 'core::option::Option' and x.get('args') == [item_ty],
                         lambda: {'s': 'Option<item>', 'k': 'adt', 'path': 'core::option::Option', 'args': [item_ty]})
    isize_ty = _type_index(types, lambda x: x.get('k') == 'int' and x.get('bits') == 64 and x.get('signed'),
                           lambda: {'s': 'isize', 'k': 'int', 'bits': 64, 'signed': True, 'ptr': True})
    unit_ty = _type_index(types, lambda x: x.get('k') == 'tuple' and not x.get('of'), lambda: {'s': '()', 'k': 'tuple', 'of': []})

    def new_local(ty, name=None):
        fn.locals.append({'ty': ty, 'name': name})
        return len(fn.locals) - 1

    L_it = new_local(it_ty)
    L_itref = new_local(ref_it_ty)
    L_x = new_local(opt_ty)
    L_d = new_local(isize_ty)
    L_item = new_local(item_ty)
    L_env = new_local(env_ty)
    L_r = new_local(ret_ty)
    L_dr = new_local(isize_ty)
    pl = lambda l, proj=None: {'l': l, 'p': proj or []}
    mv = lambda l, proj=None: {'m': pl(l, proj)}
    base = len(fn.blocks)
    H, N, S, K, X, E, U = base, base + 1, base + 2, base + 3, base + 4, base + 5, base + 6
    asg = lambda lhs, rv: {'k': 'assign', 'lhs': lhs, 'rv': rv, 'span': span}
    blocks = []
    # H: x = next(&mut it)
    blocks.append({'cleanup': False, 'stmts': [asg(pl(L_itref), {'k': 'ref', 'mut': True, 'p': pl(L_it)})],
                   'term': {'k': 'call', 'callee': 'core::iter::traits::iterator::Iterator::next', 'callee_crate': 'core',
                            'args': [mv(L_itref)], 'dest': pl(L_x), 'dest_ty': opt_ty, 'ret': N, 'span': span,
                            'unwind': None, 'func': None, 'gargs': [it_ty], 'synthetic': True}})
    # N: switch discr(x)
    blocks.append({'cleanup': False, 'stmts': [asg(pl(L_d), {'k': 'discr', 'p': pl(L_x)})],
                   'term': {'k': 'switch', 'discr': mv(L_d), 'targets': [[0, E], [1, S]], 'otherwise': U, 'span': span}})
    # S: item = (x as Some).0 ; env = &mut closure ; r = closure(env, item)
    env_rv = {'k': 'ref', 'mut': bool(types[env_ty].get('mut')), 'p': pl(clo_local)} if env_is_ref else \
        {'k': 'use', 'a': {'c': pl(clo_local)}}
    blocks.append({'cleanup': False,
                   'stmts': [asg(pl(L_item), {'k': 'use', 'a': mv(L_x, [{'vi': 1, 'dc': 'Some'}, {'f': 0, 'n': '0'}])}),
                             asg(pl(L_env), env_rv)],
                   'term': {'k': 'call', 'callee': cdef, 'callee_crate': 'fatfs', 'args': [mv(L_env), mv(L_item)],
                            'dest': pl(L_r), 'dest_ty': ret_ty, 'ret': K, 'span': span, 'unwind': None, 'func': None,
                            'gargs': [], 'synthetic': True}})
    # K: continue or leave
    if is_try:
        blocks.append({'cleanup': False, 'stmts': [asg(pl(L_dr), {'k': 'discr', 'p': pl(L_r)})],
                       'term': {'k': 'switch', 'discr': mv(L_dr), 'targets': [[0, H]], 'otherwise': X, 'span': span}})
    else:
        blocks.append({'cleanup': False, 'stmts': [], 'term': {'k': 'goto', 'ret': H, 'span': span}})
    # X: dest = r (the closure's Err / Break is what try_for_each returns)
    blocks.append({'cleanup': False, 'stmts': [asg(copy.deepcopy(t['dest']), {'k': 'use', 'a': mv(L_r)})],
                   'term': {'k': 'goto', 'ret': t['ret'], 'span': span}})
    # E: exhausted: dest = Ok(()) / ()
    unit = {'k': {'ty': unit_ty, 's': '()', 'val': None}}
    if is_try:
        rty = types[ret_ty]
        e_rv = {'k': 'agg', 'ak': 'adt', 'adt': rty.get('path') or 'core::result::Result', 'variant': 'Ok', 'vi': 0,
                'ops': [unit], 'fields': []}
    else:
        e_rv = {'k': 'use', 'a': unit}
    blocks.append({'cleanup': False, 'stmts': [asg(copy.deepcopy(t['dest']), e_rv)],
                   'term': {'k': 'goto', 'ret': t['ret'], 'span': span}})
    blocks.append({'cleanup': False, 'stmts': [], 'term': {'k': 'unreachable', 'span': span}})
    fn.blocks.extend(blocks)
    # original block: it = move iterator ; goto H
    fn.blocks[blk]['stmts'].append(asg(pl(L_it), {'k': 'use', 'a': copy.deepcopy(it_op)}))
    fn.blocks[blk]['term'] = {'k': 'goto', 'ret': H, 'span': span, 'loopified': callee}
    fn._succ = fn._pred = fn._dom = fn._pdom = fn._reach = None
    fn.__dict__.pop('_bool_switch_cache', None)
    # closure instances reached from this call through the adaptor's own (core) instances
    clo_insts = {}
    for iid in facts.insts_of.get(fn.name, []):
        seen, work, found = set(), [c for c, k in facts.edge_at.get((iid, blk), ())], []
        while work:
            x = work.pop()
            if x in seen:
                continue
            seen.add(x)
            if facts.instances[x]['fn'] == cdef:
                found.append(x)
                continue
            if facts.instances[x]['crate'] in ('core', 'alloc'):
                work += [c for _b, c, _k in facts.out_edges.get(x, ())]
        clo_insts[iid] = found
        for ci in found:
            facts.out_edges[iid].append((S, ci, 'call'))
            facts.in_edges[ci].append((iid, S, 'call'))
            facts.edge_at[(iid, S)].append((ci, 'call'))
    # now the closure call at S is an ordinary direct call: inline it
    bmap = inline_call(facts, fn, S, cf)
    facts.inlined.setdefault(cdef, []).append((fn.name, S))
    for iid, cis in clo_insts.items():
        for ci in cis:
            for cb, tgt, kind in list(facts.out_edges.get(ci, ())):
                nb = bmap.get(cb)
                if nb is not None:
                    facts.out_edges[iid].append((nb, tgt, kind))
                    facts.in_edges[tgt].append((iid, nb, kind))
                    facts.edge_at[(iid, nb)].append((tgt, kind))
    cf.crate = 'fatfs-inlined'
    return True


MATCH_COMBINATORS = {
    # callee -> (variant whose payload goes to the closure, does the closure's result become the whole result?)
    # Only the two that can *replace* an error by another computation are rewritten; `map` / `map_err` / the Option twins
    # have closure models in the interval analysis and in the value-fate analysis that a rewrite would bypass.
    'core::result::Result::or_else': ('Err', True),
    'core::result::Result::and_then': ('Ok', True),
}
# ... except when the closure arrives through the `impl FnOnce` parameter of a helper that was inlined next to it
# (`self.entry.as_mut().map(edit)`): those models look for a closure literal at the call and find none
MOVED_CLOSURE_COMBINATORS = {
    'core::option::Option::map': ('Some', False),
    'core::option::Option::and_then': ('Some', True),
    'core::result::Result::map': ('Ok', False),
    'core::result::Result::map_err': ('Err', False),
}
VARIANT_INDEX = {'Ok': 0, 'Err': 1, 'None': 0, 'Some': 1}


def _attach_and_inline_closure(facts, fn, origin_blk, call_blk, cdef, cf):
    """the synthetic direct call of closure `cdef` at call_blk (made from the adaptor call at origin_blk) gets the
    monomorphic edges of the closure instances that the adaptor reached, and is inlined"""
    clo_insts = {}
    for iid in facts.insts_of.get(fn.name, []):
        seen, work, found = set(), [c for c, k in facts.edge_at.get((iid, origin_blk), ())], []
        while work:
            x = work.pop()
            if x in seen:
                continue
            seen.add(x)
            if facts.instances[x]['fn'] == cdef:
                found.append(x)
                continue
            if facts.instances[x]['crate'] in ('core', 'alloc'):
                work += [c for _b, c, _k in facts.out_edges.get(x, ())]
        clo_insts[iid] = found
        for ci in found:
            facts.out_edges[iid].append((call_blk, ci, 'call'))
            facts.in_edges[ci].append((iid, call_blk, 'call'))
            facts.edge_at[(iid, call_blk)].append((ci, 'call'))
    bmap = inline_call(facts, fn, call_blk, cf)
    facts.inlined.setdefault(cdef, []).append((fn.name, call_blk))
    for iid, cis in clo_insts.items():
        for ci in cis:
            for cb, tgt, kind in list(facts.out_edges.get(ci, ())):
                nb = bmap.get(cb)
                if nb is not None:
                    facts.out_edges[iid].append((nb, tgt, kind))
                    facts.in_edges[tgt].append((iid, nb, kind))
                    facts.edge_at[(iid, nb)].append((tgt, kind))
    cf.crate = 'fatfs-inlined'


def matchify(facts, fn, blk):
    """`r.or_else(|e| ..)`, `r.and_then(|v| ..)`, `r.map(|v| ..)`, `r.map_err(|e| ..)` (and the Option twins) with a closure the
    pinned tree does not have: rewritten into the `match` they abbreviate, closure inlined on its arm"""
    t = fn.blocks[blk]['term']
    callee = t.get('callee') or ''
    which, whole = MATCH_COMBINATORS.get(callee) or MOVED_CLOSURE_COMBINATORS[callee]
    cdef, clo_local = _closure_def_of(fn, t['args'][1])
    if cdef is None:
        cdef = _closure_behind(fn, t['args'][1])
        clo_local = (t['args'][1].get('m') or t['args'][1].get('c') or {}).get('l')
    cf = facts.fns.get(cdef) if cdef else None
    if cf is None or cf.argc != 2 or len(cf.blocks) > MAX_BLOCKS or t.get('ret') is None:
        return False
    types = fn.types
    span = t['span']
    r_op = t['args'][0]
    r_p = r_op.get('m') or r_op.get('c')
    if r_p is None or r_p['p']:
        return False
    r_ty = fn.locals[r_p['l']]['ty']
    is_result = callee.startswith('core::result::')
    adt = 'core::result::Result' if is_result else 'core::option::Option'
    other = {'Ok': 'Err', 'Err': 'Ok', 'Some': 'None'}[which]
    env_ty = cf.locals[1]['ty']
    env_is_ref = types[env_ty].get('k') == 'ref'
    arg_ty = cf.locals[2]['ty']
    ret_ty = cf.locals[0]['ty']
    isize_ty = _type_index(types, lambda x: x.get('k') == 'int' and x.get('bits') == 64 and x.get('signed'),
                           lambda: {'s': 'isize', 'k': 'int', 'bits': 64, 'signed': True, 'ptr': True})

    def new_local(ty, name=None):
        fn.locals.append({'ty': ty, 'name': name})
        return len(fn.locals) - 1

    L_r = new_local(r_ty)
    L_d = new_local(isize_ty)
    L_a = new_local(arg_ty)
    L_env = new_local(env_ty)
    L_v = new_local(ret_ty)
    pl = lambda l, proj=None: {'l': l, 'p': proj or []}
    mv = lambda l, proj=None: {'m': pl(l, proj)}
    asg = lambda lhs, rv: {'k': 'assign', 'lhs': lhs, 'rv': rv, 'span': span}
    base = len(fn.blocks)
    SW, CL, AF, OT, U = base, base + 1, base + 2, base + 3, base + 4
    dc = lambda v: [{'vi': VARIANT_INDEX[v], 'dc': v}, {'f': 0, 'n': '0'}]
    ctor = lambda v, ops: {'k': 'agg', 'ak': 'adt', 'adt': adt, 'variant': v, 'vi': VARIANT_INDEX[v], 'ops': ops, 'fields': []}
    blocks = []
    # SW: switch discr(r)
    blocks.append({'cleanup': False, 'stmts': [asg(pl(L_d), {'k': 'discr', 'p': pl(L_r)})],
                   'term': {'k': 'switch', 'discr': mv(L_d), 'targets': [[VARIANT_INDEX[which], CL], [VARIANT_INDEX[other], OT]],
                            'otherwise': U, 'span': span}})
    # CL: a = payload ; env ; v = closure(env, a)
    env_rv = {'k': 'ref', 'mut': bool(types[env_ty].get('mut')), 'p': pl(clo_local)} if env_is_ref else \
        {'k': 'use', 'a': {'m': pl(clo_local)}}
    blocks.append({'cleanup': False, 'stmts': [asg(pl(L_a), {'k': 'use', 'a': mv(L_r, dc(which))}), asg(pl(L_env), env_rv)],
                   'term': {'k': 'call', 'callee': cdef, 'callee_crate': 'fatfs', 'args': [mv(L_env), mv(L_a)],
                            'dest': pl(L_v), 'dest_ty': ret_ty, 'ret': AF, 'span': span, 'unwind': None, 'func': None,
                            'gargs': [], 'synthetic': True}})
    # AF: dest = v  /  dest = Variant(v)
    blocks.append({'cleanup': False,
                   'stmts': [asg(copy.deepcopy(t['dest']), {'k': 'use', 'a': mv(L_v)} if whole else ctor(which, [mv(L_v)]))],
                   'term': {'k': 'goto', 'ret': t['ret'], 'span': span}})
    # OT: the other variant passes through
    if other == 'None':
        ot_rv = ctor('None', [])
    else:
        ot_rv = ctor(other, [mv(L_r, dc(other))])
    blocks.append({'cleanup': False, 'stmts': [asg(copy.deepcopy(t['dest']), ot_rv)],
                   'term': {'k': 'goto', 'ret': t['ret'], 'span': span}})
    blocks.append({'cleanup': False, 'stmts': [], 'term': {'k': 'unreachable', 'span': span}})
    fn.blocks.extend(blocks)
    fn.blocks[blk]['stmts'].append(asg(pl(L_r), {'k': 'use', 'a': copy.deepcopy(r_op)}))
    fn.blocks[blk]['term'] = {'k': 'goto', 'ret': SW, 'span': span, 'matchified': callee}
    fn._succ = fn._pred = fn._dom = fn._pdom = fn._reach = None
    fn.__dict__.pop('_bool_switch_cache', None)
    _attach_and_inline_closure(facts, fn, blk, CL, cdef, cf)
    return True


def filterify(facts, fn, blk):
    """`opt.filter(|x| ..)` with a closure the pinned tree does not have: rewritten into
    `match opt { Some(x) => if pred(&x) { Some(x) } else { None }, None => None }`, predicate inlined"""
    t = fn.blocks[blk]['term']
    cdef, clo_local = _closure_def_of(fn, t['args'][1])
    cf = facts.fns.get(cdef) if cdef else None
    if cf is None or cf.argc != 2 or len(cf.blocks) > MAX_BLOCKS or t.get('ret') is None:
        return False
    types = fn.types
    span = t['span']
    r_op = t['args'][0]
    r_p = r_op.get('m') or r_op.get('c')
    if r_p is None or r_p['p']:
        return False
    r_ty = fn.locals[r_p['l']]['ty']
    env_ty = cf.locals[1]['ty']
    env_is_ref = types[env_ty].get('k') == 'ref'
    arg_ty = cf.locals[2]['ty']   # &T
    ret_ty = cf.locals[0]['ty']   # bool
    isize_ty = _type_index(types, lambda x: x.get('k') == 'int' and x.get('bits') == 64 and x.get('signed'),
                           lambda: {'s': 'isize', 'k': 'int', 'bits': 64, 'signed': True, 'ptr': True})

    def new_local(ty, name=None):
        fn.locals.append({'ty': ty, 'name': name})
        return len(fn.locals) - 1

    L_r, L_d, L_a, L_env, L_v = new_local(r_ty), new_local(isize_ty), new_local(arg_ty), new_local(env_ty), new_local(ret_ty)
    pl = lambda l, proj=None: {'l': l, 'p': proj or []}
    mv = lambda l, proj=None: {'m': pl(l, proj)}
    asg = lambda lhs, rv: {'k': 'assign', 'lhs': lhs, 'rv': rv, 'span': span}
    base = len(fn.blocks)
    SW, CL, K, KEEP, DROP, U = base, base + 1, base + 2, base + 3, base + 4, base + 5
    none_rv = {'k': 'agg', 'ak': 'adt', 'adt': 'core::option::Option', 'variant': 'None', 'vi': 0, 'ops': [], 'fields': []}
    blocks = []
    blocks.append({'cleanup': False, 'stmts': [asg(pl(L_d), {'k': 'discr', 'p': pl(L_r)})],
                   'term': {'k': 'switch', 'discr': mv(L_d), 'targets': [[1, CL], [0, DROP]], 'otherwise': U, 'span': span}})
    env_rv = {'k': 'ref', 'mut': bool(types[env_ty].get('mut')), 'p': pl(clo_local)} if env_is_ref else \
        {'k': 'use', 'a': {'m': pl(clo_local)}}
    blocks.append({'cleanup': False,
                   'stmts': [asg(pl(L_a), {'k': 'ref', 'mut': False, 'p': pl(L_r, [{'vi': 1, 'dc': 'Some'}, {'f': 0, 'n': '0'}])}),
                             asg(pl(L_env), env_rv)],
                   'term': {'k': 'call', 'callee': cdef, 'callee_crate': 'fatfs', 'args': [mv(L_env), mv(L_a)],
                            'dest': pl(L_v), 'dest_ty': ret_ty, 'ret': K, 'span': span, 'unwind': None, 'func': None,
                            'gargs': [], 'synthetic': True}})
    blocks.append({'cleanup': False, 'stmts': [],
                   'term': {'k': 'switch', 'discr': mv(L_v), 'targets': [[0, DROP]], 'otherwise': KEEP, 'span': span}})
    blocks.append({'cleanup': False, 'stmts': [asg(copy.deepcopy(t['dest']), {'k': 'use', 'a': mv(L_r)})],
                   'term': {'k': 'goto', 'ret': t['ret'], 'span': span}})
    blocks.append({'cleanup': False, 'stmts': [asg(copy.deepcopy(t['dest']), none_rv)],
                   'term': {'k': 'goto', 'ret': t['ret'], 'span': span}})
    blocks.append({'cleanup': False, 'stmts': [], 'term': {'k': 'unreachable', 'span': span}})
    fn.blocks.extend(blocks)
    fn.blocks[blk]['stmts'].append(asg(pl(L_r), {'k': 'use', 'a': copy.deepcopy(r_op)}))
    fn.blocks[blk]['term'] = {'k': 'goto', 'ret': SW, 'span': span, 'matchified': 'Option::filter'}
    fn._succ = fn._pred = fn._dom = fn._pdom = fn._reach = None
    fn.__dict__.pop('_bool_switch_cache', None)
    _attach_and_inline_closure(facts, fn, blk, CL, cdef, cf)
    return True


def normalise_loops(facts):
    known = load_known()
    if known is None:
        return
    for n, f in list(facts.fns.items()):
        if f.crate != 'fatfs':
            continue
        for bi in range(len(f.blocks)):
            t = f.blocks[bi]['term']
            if t['k'] == 'call' and (t.get('callee') or '').endswith(LOOP_ADAPTORS) and len(t.get('args') or []) == 2:
                cdef, _l = _closure_def_of(f, t['args'][1])
                # only closures the pinned tree does not have (a loop that was turned into an adaptor call)
                if cdef and cdef not in known:
                    try:
                        loopify(facts, f, bi, known)
                    except Exception:
                        pass
    # combinators over Result / Option with a closure the pinned tree does not have -> the match they stand for
    for _round in range(4):
        changed = False
        for n, f in list(facts.fns.items()):
            if f.crate != 'fatfs':
                continue
            for bi in range(len(f.blocks)):
                t = f.blocks[bi]['term']
                if t['k'] == 'call' and t.get('callee') in MATCH_COMBINATORS and len(t.get('args') or []) == 2:
                    cdef, _l = _closure_def_of(f, t['args'][1])
                    if cdef and cdef not in known and cdef in facts.fns and facts.fns[cdef].crate == 'fatfs':
                        try:
                            if matchify(facts, f, bi):
                                changed = True
                        except Exception:
                            pass
                if t['k'] == 'call' and t.get('callee') in MOVED_CLOSURE_COMBINATORS and len(t.get('args') or []) == 2:
                    direct, _l = _closure_def_of(f, t['args'][1])
                    cdef = _closure_behind(f, t['args'][1]) if direct is None else None
                    # (no `known` test: closure names are positional, and the pinned tree has no closure travelling
                    # through moves into a combinator - that only arises after a new helper was inlined)
                    if cdef and cdef in facts.fns and facts.fns[cdef].crate == 'fatfs':
                        try:
                            if matchify(facts, f, bi):
                                changed = True
                        except Exception:
                            pass
                if t['k'] == 'call' and t.get('callee') == 'core::option::Option::filter' and len(t.get('args') or []) == 2:
                    cdef, _l = _closure_def_of(f, t['args'][1])
                    if cdef and cdef not in known and cdef in facts.fns and facts.fns[cdef].crate == 'fatfs':
                        try:
                            if filterify(facts, f, bi):
                                changed = True
                        except Exception:
                            pass
        if not changed:
            break


def _closure_behind(fn, operand, depth=0):
    """closure definition a callable operand denotes: the operand is (a reference to / a moved copy of) a local built as a
    closure aggregate - e.g. the `impl Fn` parameter of a helper that was inlined next to the closure it was given"""
    p = operand.get('m') or operand.get('c')
    if p is None or p['p'] or depth > 6:
        return None
    defs = [s for b in fn.blocks for s in b['stmts'] if s['k'] == 'assign' and s['lhs']['l'] == p['l'] and not s['lhs']['p']]
    if len(defs) != 1:
        return None
    rv = defs[0]['rv']
    if rv['k'] == 'agg' and rv.get('ak') == 'closure':
        return rv['def']
    if rv['k'] == 'ref' and not rv['p']['p']:
        return _closure_behind(fn, {'c': rv['p']}, depth + 1)
    if rv['k'] == 'use':
        return _closure_behind(fn, rv['a'], depth + 1)
    return None


def _fnitem_behind(fn, operand, depth=0):
    """name of the function a callable operand denotes when it is a function item passed by name (`update(v, Data::created,
    Data::set_created)`): zero-sized constants all the way"""
    k = operand.get('k')
    if isinstance(k, dict) and k.get('fn'):
        return k['fn']
    p = operand.get('m') or operand.get('c')
    if p is None or p['p'] or depth > 6:
        return None
    defs = [s for b in fn.blocks for s in b['stmts'] if s['k'] == 'assign' and s['lhs']['l'] == p['l'] and not s['lhs']['p']]
    if len(defs) != 1:
        return None
    rv = defs[0]['rv']
    if rv['k'] == 'use':
        return _fnitem_behind(fn, rv['a'], depth + 1)
    if rv['k'] == 'ref' and not rv['p']['p']:
        return _fnitem_behind(fn, {'c': rv['p']}, depth + 1)
    return None


CLOSURE_CALLS = ('core::ops::function::Fn::call', 'core::ops::function::FnMut::call_mut', 'core::ops::function::FnOnce::call_once')


def direct_closure_calls(facts, known):
    """`f(x)` where f is a closure visible in the same function (after a helper taking `impl Fn` was inlined): the indirect
    call through the Fn traits is replaced by the closure's body"""
    n = 0
    for _round in range(3):
        changed = False
        for name, fn in list(facts.fns.items()):
            if fn.crate != 'fatfs':
                continue
            for bi in range(len(fn.blocks)):
                t = fn.blocks[bi]['term']
                if t['k'] != 'call' or t.get('callee') not in CLOSURE_CALLS or len(t.get('args') or []) != 2 or t.get('ret') is None:
                    continue
                cdef = _closure_behind(fn, t['args'][0])
                cf = facts.fns.get(cdef) if cdef else None
                if cf is None:
                    # a function passed by name: the call through the Fn traits becomes a direct call of it
                    fname = _fnitem_behind(fn, t['args'][0])
                    ff = facts.fns.get(fname) if fname else None
                    tup0 = t['args'][1].get('m') or t['args'][1].get('c')
                    if ff is not None and ff.crate.startswith('fatfs') and tup0 is not None and not tup0['p']:
                        stmts0, call_args0 = [], []
                        for i in range(ff.argc):
                            fn.locals.append({'ty': ff.locals[1 + i]['ty'], 'name': None})
                            li = len(fn.locals) - 1
                            stmts0.append({'k': 'assign', 'lhs': {'l': li, 'p': []}, 'span': t['span'],
                                           'rv': {'k': 'use', 'a': {'m': {'l': tup0['l'], 'p': [{'f': i, 'n': str(i)}]}}}})
                            call_args0.append({'m': {'l': li, 'p': []}})
                        fn.blocks[bi]['stmts'].extend(stmts0)
                        nt0 = dict(t)
                        nt0.update({'callee': fname, 'callee_crate': 'fatfs', 'args': call_args0, 'synthetic': True, 'func': None, 'gargs': []})
                        fn.blocks[bi]['term'] = nt0
                        fn._succ = fn._pred = fn._dom = fn._pdom = fn._reach = None
                        changed = True
                        n += 1
                    continue
                if cf.crate != 'fatfs' or len(cf.blocks) > MAX_BLOCKS:
                    continue
                tup = t['args'][1].get('m') or t['args'][1].get('c')
                if tup is None or tup['p']:
                    continue
                span = t['span']
                stmts = []
                call_args = [copy.deepcopy(t['args'][0])]
                for i in range(cf.argc - 1):
                    fn.locals.append({'ty': cf.locals[2 + i]['ty'], 'name': None})
                    li = len(fn.locals) - 1
                    stmts.append({'k': 'assign', 'lhs': {'l': li, 'p': []}, 'span': span,
                                  'rv': {'k': 'use', 'a': {'m': {'l': tup['l'], 'p': [{'f': i, 'n': str(i)}]}}}})
                    call_args.append({'m': {'l': li, 'p': []}})
                fn.blocks[bi]['stmts'].extend(stmts)
                nt = dict(t)
                nt.update({'callee': cdef, 'callee_crate': 'fatfs', 'args': call_args, 'synthetic': True, 'func': None, 'gargs': []})
                fn.blocks[bi]['term'] = nt
                fn._succ = fn._pred = fn._dom = fn._pdom = fn._reach = None
                try:
                    _attach_and_inline_closure(facts, fn, bi, bi, cdef, cf)
                    changed = True
                    n += 1
                except Exception:
                    fn.blocks[bi]['term'] = t
                    del fn.blocks[bi]['stmts'][len(fn.blocks[bi]['stmts']) - len(stmts):]
        if not changed:
            break
    facts.direct_closure_calls = n


# ---------------------------------------------------------------------------------------------------------------
# Materialised conditions: `let ok = a && b; if !ok { .. }`, `if matches!(..)` - the compiler stores `true` / `false` /
# the last comparison into a bool local in different blocks, joins, and switches on the local. Every path-sensitive
# analysis loses the connection between the comparison and the branch at that join. Jump threading restores it: a
# predecessor that stored a *constant* into the bool is sent directly to the switch target that constant selects
# (through a copy of the join block's side-effect-free statements), exactly as if the source had branched in place.

def _fold_bool(stmts, discr_local, known):
    """value (0/1) of the switch operand after the statements of the join block, given {bool local: const}; None when
    the statements do anything but copy / negate bools and mark storage"""
    env = dict(known)
    for s in stmts:
        k = s['k']
        if k == 'dead':
            env.pop(s.get('l'), None)
            continue
        if k != 'assign':
            return None
        lhs = s['lhs']
        rv = s['rv']
        if lhs['p']:
            return None
        v = None
        if rv['k'] == 'use':
            a = rv['a']
            pl = a.get('c') or a.get('m')
            if pl is not None and not pl['p'] and pl['l'] in env:
                v = env[pl['l']]
            elif 'k' in a and isinstance(a['k'], dict) and a['k'].get('val') in (0, 1):
                v = a['k']['val']
        elif rv['k'] == 'unop' and rv.get('op') == 'Not':
            a = rv['a']
            pl = a.get('c') or a.get('m')
            if pl is not None and not pl['p'] and pl['l'] in env:
                v = 1 - env[pl['l']]
        if v is None:
            # an unrelated pure statement may stay (it is copied), as long as it does not touch the tracked locals
            if rv['k'] in ('use', 'cast', 'unop', 'binop', 'ref', 'discr') and lhs['l'] not in env:
                env.pop(lhs['l'], None)
                continue
            return None
        env[lhs['l']] = v
    return env.get(discr_local)


def _const_bool_store(blk, local):
    """constant stored into `local` by the last statement of blk that writes it (None when it is not a constant)"""
    val = None
    found = False
    for s in blk['stmts']:
        if s['k'] == 'assign' and s['lhs']['l'] == local:
            found = True
            val = None
            if not s['lhs']['p'] and s['rv']['k'] == 'use':
                a = s['rv']['a']
                if 'k' in a and isinstance(a['k'], dict) and a['k'].get('val') in (0, 1):
                    val = a['k']['val']
    return found, val


def thread_bools(facts):
    n_threaded = 0
    for fn in facts.fns.values():
        if fn.crate not in ('fatfs', 'witness') or not fn.blocks:
            continue
        changed = False
        nblocks = len(fn.blocks)
        for j in range(nblocks):
            J = fn.blocks[j]
            t = J['term']
            if J.get('cleanup') or t['k'] != 'switch':
                continue
            d = t['discr'].get('c') or t['discr'].get('m')
            if d is None or d['p'] or fn.locals[d['l']]['ty'] is None:
                continue
            if (fn.types[fn.locals[d['l']]['ty']] or {}).get('k') != 'bool':
                continue
            # bool locals the switch operand is computed from inside J (or the operand itself)
            cands = {d['l']}
            for s in J['stmts']:
                if s['k'] == 'assign' and not s['lhs']['p'] and s['lhs']['l'] in cands and s['rv']['k'] in ('use', 'unop'):
                    a = s['rv']['a']
                    pl = a.get('c') or a.get('m')
                    if pl is not None and not pl['p']:
                        cands.add(pl['l'])
            # walk statements backwards to find the source bool that is live-in
            srcs = set(cands)
            for s in J['stmts']:
                if s['k'] == 'assign' and not s['lhs']['p']:
                    srcs.discard(s['lhs']['l'])
            if len(srcs) != 1:
                continue
            b = next(iter(srcs))
            preds = [pi for pi, P in enumerate(fn.blocks) if not P.get('cleanup') and P['term']['k'] == 'goto' and
                     P['term'].get('ret') == j and pi != j]
            for pi in preds:
                P = fn.blocks[pi]
                found, val = _const_bool_store(P, b)
                if not found or val is None:
                    continue
                dv = _fold_bool(J['stmts'], d['l'], {b: val})
                if dv is None:
                    continue
                tgt = next((tb for v, tb in t['targets'] if v == dv), t['otherwise'])
                fn.blocks.append({'cleanup': False, 'stmts': copy.deepcopy(J['stmts']),
                                  'term': {'k': 'goto', 'ret': tgt, 'span': t['span'], 'threaded_from': j}})
                P['term'] = dict(P['term'], ret=len(fn.blocks) - 1)
                changed = True
                n_threaded += 1
        if changed:
            fn._succ = fn._pred = fn._dom = fn._pdom = fn._reach = None
            fn.__dict__.pop('_bool_switch_cache', None)
    facts.threaded = n_threaded


def thread_enums(facts):
    """A helper that *returns* an enum (`fn fat_mirroring(&self) -> FatMirroring`, replacing a pair of predicates) and was
    inlined leaves `R = Variant{..}` in each of its arms, a join, and a `match` on the discriminant of R in the caller:
    the connection between the helper's condition and the caller's arm is lost at the join. Jump threading, as for
    materialised bools: a block that stores a variant into the enum local is sent directly to the arm that variant selects,
    through a copy of the side-effect-free statements in between. Only in functions something was inlined into."""
    n = 0
    touched = {c for lst in (getattr(facts, 'inlined', {}) or {}).values() for c, _b in lst}
    for fn in facts.fns.values():
        if fn.crate not in ('fatfs', 'witness') or not fn.blocks or fn.name not in touched:
            continue
        changed = False
        for si in range(len(fn.blocks)):
            S = fn.blocks[si]
            t = S['term']
            if S.get('cleanup') or t['k'] != 'switch':
                continue
            d = t['discr'].get('c') or t['discr'].get('m')
            if d is None or d['p']:
                continue
            src = None
            for s_ in S['stmts']:
                if s_['k'] == 'assign' and not s_['lhs']['p'] and s_['lhs']['l'] == d['l']:
                    src = s_['rv']
            if src is None or src['k'] != 'discr' or src['p']['p']:
                continue

            def pure(stmts):
                return all(x['k'] in ('dead', 'live', 'nop') or (x['k'] == 'assign' and x['rv']['k'] in
                                                                    ('use', 'cast', 'unop', 'binop', 'ref', 'discr', 'agg'))
                           for x in stmts)
            if not pure(S['stmts']):
                continue
            # walk up: (block whose goto leads here, enum local to look for there, statements to replay)
            work = [(si, src['p']['l'], list(S['stmts']), 0)]
            seen = set()
            while work:
                cur, E, replay, depth = work.pop()
                if (cur, E) in seen or depth > 4:
                    continue
                seen.add((cur, E))
                preds = [pi for pi, P in enumerate(fn.blocks) if not P.get('cleanup') and P['term']['k'] == 'goto'
                         and P['term'].get('ret') == cur and pi != cur]
                if cur != si and len(preds) < 1:
                    continue
                for pi in preds:
                    P = fn.blocks[pi]
                    last = None
                    for x in P['stmts']:
                        if x['k'] == 'assign' and x['lhs']['l'] == E:
                            last = x
                    if last is None:
                        if pure(P['stmts']) and len(P['stmts']) <= 12:
                            work.append((pi, E, list(P['stmts']) + replay, depth + 1))
                        continue
                    if last['lhs']['p']:
                        continue
                    rv = last['rv']
                    if rv['k'] == 'use':
                        pl = rv['a'].get('c') or rv['a'].get('m')
                        if pl is not None and not pl['p'] and pure(P['stmts']) and len(P['stmts']) <= 12 and \
                                not any(x['k'] == 'assign' and x['lhs']['l'] == pl['l'] for x in P['stmts']):
                            work.append((pi, pl['l'], list(P['stmts']) + replay, depth + 1))
                        continue
                    if rv['k'] != 'agg' or rv.get('ak') != 'adt' or rv.get('vi') is None:
                        continue
                    a = facts.adts.get(rv.get('adt')) or {}
                    if a.get('kind') != 'enum':
                        continue
                    dv = rv['vi']
                    for v_ in a.get('variants', []):
                        if v_.get('name') == rv.get('variant') and 'discr' in v_:
                            dv = v_['discr']
                    tgt = next((tb for vv, tb in t['targets'] if vv == dv), t['otherwise'])
                    fn.blocks.append({'cleanup': False, 'stmts': copy.deepcopy(replay),
                                      'term': {'k': 'goto', 'ret': tgt, 'span': t['span'], 'threaded_from': si}})
                    P['term'] = dict(P['term'], ret=len(fn.blocks) - 1)
                    changed = True
                    n += 1
        if changed:
            fn._succ = fn._pred = fn._dom = fn._pdom = fn._reach = None
            fn.__dict__.pop('_bool_switch_cache', None)
    facts.threaded_enums = n


def fold_const_enums(facts):
    """A helper that takes a field-less enum as a mode parameter (`release(cluster, ChainRelease::Tail)`) and was inlined at
    a call with a literal argument keeps both arms of its `match` in the caller's CFG although only one can run. Constant
    propagation over single-definition locals: a local whose only definition is a unit variant (or a copy of such a local),
    never borrowed mutably, has a known discriminant; a switch on it is replaced by a goto to the arm it selects."""
    n = 0
    for fn in facts.fns.values():
        if fn.crate not in ('fatfs', 'witness') or not fn.blocks:
            continue
        if fn.name not in {c for lst in (getattr(facts, 'inlined', {}) or {}).values() for c, _b in lst}:
            continue  # only functions something was inlined into
        defs, multi, tainted = {}, set(), set()
        for bi, B in enumerate(fn.blocks):
            for s_ in B['stmts']:
                if s_['k'] != 'assign':
                    if s_['k'] == 'setdiscr':
                        tainted.add((s_.get('lhs') or {}).get('l'))
                    continue
                if s_['lhs']['p']:
                    tainted.add(s_['lhs']['l'])
                else:
                    l = s_['lhs']['l']
                    if l in defs:
                        multi.add(l)
                    defs[l] = s_['rv']
                rv = s_['rv']
                if rv['k'] in ('ref', 'rawptr') and (rv.get('mut') or rv['k'] == 'rawptr'):
                    tainted.add(rv['p']['l'])
            t = B['term']
            if t['k'] == 'call' and not t['dest']['p']:
                l = t['dest']['l']
                if l in defs:
                    multi.add(l)
                defs[l] = {'k': 'callresult'}
        for l in range(1, fn.argc + 1):
            multi.add(l)

        def value(l, depth=0):
            if l in multi or l in tainted or depth > 8:
                return None
            rv = defs.get(l)
            if rv is None:
                return None
            if rv['k'] == 'agg' and rv.get('ak') == 'adt' and not rv.get('ops'):
                a = facts.adts.get(rv.get('adt'))
                if a and a.get('kind') == 'enum' and all(not v.get('fields') for v in a['variants']):
                    for v in a['variants']:
                        if v['name'] == rv.get('variant') and 'discr' in v:
                            return v['discr']
                return None
            if rv['k'] == 'use':
                a = rv['a']
                pl = a.get('c') or a.get('m')
                if pl is not None and not pl['p']:
                    return value(pl['l'], depth + 1)
            return None

        changed = False
        for bi, B in enumerate(fn.blocks):
            t = B['term']
            if t['k'] != 'switch':
                continue
            d = t['discr'].get('c') or t['discr'].get('m')
            if d is None or d['p'] or d['l'] in multi:
                continue
            rv = defs.get(d['l'])
            if rv is None or rv['k'] != 'discr' or rv['p']['p']:
                continue
            v = value(rv['p']['l'])
            if v is None:
                continue
            tgt = next((tb for vv, tb in t['targets'] if vv == v), t['otherwise'])
            B['term'] = {'k': 'goto', 'ret': tgt, 'span': t['span'], 'folded_const_enum': v}
            changed = True
            n += 1
        if changed:
            fn._succ = fn._pred = fn._dom = fn._pdom = fn._reach = None
            fn.__dict__.pop('_bool_switch_cache', None)
    facts.folded_enums = n


# ---------------------------------------------------------------------------------------------------------------
# Renamed private fields: a few rules are tied to a field by the role it plays (the write-back latch of the cached
# directory entry / of the FS-information sector). The role is recognisable from the type - it is the only `bool` field of
# its struct - so a renamed latch is given its pinned name back in the fact base.

ROLE_FIELDS = {
    'fatfs::dir_entry::DirEntryEditor': ('bool', 'dirty'),
    'fatfs::fs::FsInfoSector': ('bool', 'dirty'),
}


def canonical_field_names(facts):
    renames = {}
    for adt, (kind, canon) in ROLE_FIELDS.items():
        a = facts.adts.get(adt)
        if not a or not a.get('variants'):
            continue
        fields = a['variants'][0]['fields']
        types = facts.api['types']
        cands = [f for f in fields if (types[f['ty']] or {}).get('k') == kind]
        if len(cands) == 1 and cands[0]['name'] != canon and not any(f['name'] == canon for f in fields):
            renames[cands[0]['name']] = canon
            cands[0]['name'] = canon
    # the cached copy of the on-disk status byte: the one field of type Cell<FsStatusFlags> in the crate, wherever it lives
    types = facts.api['types']
    cells = []
    for path, a in facts.api['adts'].items():
        if not path.startswith('fatfs::') or a.get('kind') != 'struct' or not a.get('variants'):
            continue
        for f in a['variants'][0]['fields']:
            ty = types[f['ty']] or {}
            if ty.get('k') == 'adt' and ty.get('path') == 'core::cell::Cell' and ty.get('args') and \
                    (types[ty['args'][0]] or {}).get('path', '').endswith('::FsStatusFlags'):
                cells.append(f)
    if len(cells) == 1 and cells[0]['name'] != 'current_status_flags':
        renames[cells[0]['name']] = 'current_status_flags'
        cells[0]['name'] = 'current_status_flags'
    if not renames:
        return

    def fix(x):
        if isinstance(x, dict):
            if 'f' in x and x.get('n') in renames:
                x['n'] = renames[x['n']]
            if isinstance(x.get('fields'), list):
                x['fields'] = [renames.get(f, f) for f in x['fields']]
            for v in x.values():
                fix(v)
        elif isinstance(x, list):
            for v in x:
                fix(v)
    for fn in facts.fns.values():
        if fn.crate.startswith('fatfs'):
            fix(fn.blocks)
    facts.renamed_fields = renames
