"""Reusable analyses (DESIGN.md section 3): effects over the mono graph (A4), result-edge labelling (A2),
value-fate exploration used by the error-discipline rules, must-pass-through (A5), data dependence (A3),
reachability with a cut (A7)."""
import re
from collections import defaultdict, deque

from model import (CFLOW, OPTION, RESULT, is_adt, op_const, op_place, operands_of_rvalue, place_key, place_str,
                   places_read_by_rvalue, ty_contains)

# ---------------------------------------------------------------------------------------------
# A4: leaves and effects

DEV_LEAF = re.compile(
    r'^<(vf_witness::Dev|std::io::cursor::Cursor(<.*>)?) as (fatfs::io|std::io)::(Read|Write|Seek)>::(\w+)$')
TIME_LEAF = re.compile(r'^<vf_witness::Tp as fatfs::time::TimeProvider>::\w+$|^chrono::offset::local::Local::now$|'
                       r'^<chrono::offset::local::Local as chrono::offset::TimeZone>::\w+$|^std::time::SystemTime::now$')


def dev_leaf_kind(name):
    m = DEV_LEAF.match(name)
    if not m:
        return None
    trait, meth = m.group(4), m.group(5)
    if trait == 'Read':
        return 'R'
    if trait == 'Seek':
        return 'S'
    if trait == 'Write':
        return 'F' if meth == 'flush' else 'W'
    return None


class Effects:
    """per-instance effect sets, by reverse reachability over the mono call graph"""

    def __init__(self, facts):
        self.facts = facts
        self.dev = {}
        for k in 'RWSF':
            self.dev[k] = facts.may_reach(lambda i, k=k: dev_leaf_kind(i['fn']) == k)
        self.dev_any = set().union(*self.dev.values())
        self.time = facts.may_reach(lambda i: TIME_LEAF.match(i['fn']) is not None)
        self.n_dev_leaves = sum(1 for i in facts.instances if dev_leaf_kind(i['fn']))

    def fn_reaches_dev(self, fn_name, bb, kinds='RWSF'):
        """does the call/drop at (fn, bb) reach the device in ANY instance of fn?  None = fn never instantiated"""
        ids = self.facts.insts_of.get(fn_name)
        if not ids:
            return None
        for iid in ids:
            for c, kind in self.facts.edge_at.get((iid, bb), ()):
                for k in kinds:
                    if c in self.dev[k]:
                        return True
        return False


# ---------------------------------------------------------------------------------------------
# type predicates for the error discipline


def err_is_device_capable(types, ix, depth=0):
    t = types[ix]
    k = t['k']
    if k in ('param', 'alias'):
        return True
    if k == 'adt':
        p = t['path']
        if p == 'fatfs::error::Error':
            a = t['args']
            if not a:
                return True
            a0 = types[a[0]]
            if a0['k'] == 'tuple' and not a0['of']:
                return False
            return True
        if p in ('std::io::error::Error', 'vf_witness::DevErr'):
            return True
    return False


def is_dev_result(types, ix):
    t = types[ix]
    return is_adt(t, RESULT) and len(t['args']) == 2 and err_is_device_capable(types, t['args'][1])


def contains_dev_result(types, ix):
    """Result<_, device-capable>, possibly inside Option / ControlFlow"""
    t = types[ix]
    if is_dev_result(types, ix):
        return True
    if is_adt(t, OPTION) and t['args']:
        return contains_dev_result(types, t['args'][0])
    if is_adt(t, CFLOW) and len(t['args']) == 2:
        return contains_dev_result(types, t['args'][0]) or contains_dev_result(types, t['args'][1])
    return False


# variant layout of the three carrier enums
VARIANTS = {RESULT: {0: 'Ok', 1: 'Err'}, OPTION: {0: 'None', 1: 'Some'}, CFLOW: {0: 'Continue', 1: 'Break'}}


def carrier(t):
    if t['k'] == 'adt' and t['path'] in VARIANTS:
        return t['path']
    return None


LOG_CRATES = ('log', )


def is_log_or_fmt_call(term):
    c = term.get('callee') or ''
    return term.get('callee_crate') in LOG_CRATES or c.startswith('core::fmt::') or c.startswith('log::')


# ---------------------------------------------------------------------------------------------
# A2: result-edge labelling


def switch_arms(term):
    """[(value or None for otherwise, target)]"""
    arms = [(v, t) for v, t in term['targets']]
    arms.append((None, term['otherwise']))
    return arms


def label_results(fn):
    """For every call whose destination is a Result/Option/ControlFlow local: find the SwitchInt that tests its
    discriminant and label the outgoing edges.

    returns {call_block: {'status': labelled|returned|unlabelled|consumed:<callee>,
                          'ok': set(edges), 'err': set(edges), 'ok_blocks': set(first blocks on ok side)}}
    Edges are (switch_block, target). For Option: Some=ok, None=err. For ControlFlow: Continue=ok, Break=err.
    A nested Option<Result<..>> labels the inner switch: ok = Some(Ok), err = Some(Err) plus None edge in 'none'."""
    out = {}
    for b, t in fn.calls():
        if t['k'] != 'call' or t.get('ret') is None:
            continue
        dty = fn.ty(t['dest_ty'])
        car = carrier(dty)
        if car is None:
            continue
        dest = place_key(t['dest'])
        info = {'status': 'unlabelled', 'ok': set(), 'err': set(), 'none': set(), 'carrier': car}
        out[b] = info
        if dest == (0, ()):
            info['status'] = 'returned'
            continue
        _follow_label(fn, t['ret'], {dest}, dty, info, set(), 0)
    return out


def _follow_label(fn, blk, aliases, ty, info, seen, depth):
    """walk forward (single-successor chains, and through branches that do not involve the value) until the
    discriminant switch of the tracked value"""
    if depth > 40 or (blk, frozenset(aliases)) in seen:
        return
    seen.add((blk, frozenset(aliases)))
    aliases = set(aliases)
    discr = set()
    b = fn.blocks[blk]
    car = carrier(ty)
    for s in b['stmts']:
        if s['k'] != 'assign':
            continue
        rv = s['rv']
        lhs = place_key(s['lhs'])
        if rv['k'] == 'use':
            p = op_place(rv['a'])
            if p is not None and place_key(p) in aliases:
                aliases.add(lhs)
                if lhs == (0, ()):
                    info['status'] = 'returned'
                    return
            elif p is not None and place_key(p) in info.setdefault('wrapped', set()):
                info['wrapped'].add(lhs)
        elif rv['k'] == 'discr' and place_key(rv['p']) in aliases:
            discr.add(lhs)
        elif rv['k'] == 'agg' and rv.get('variant') == 'Some' and len(rv.get('ops') or []) == 1:
            p = op_place(rv['ops'][0])
            if p is not None and place_key(p) in aliases:
                info.setdefault('wrapped', set()).add(lhs)  # `Some(result)`: see `transpose` below
    t = b['term']
    k = t['k']
    if k == 'call':
        args = [place_key(p) for p in (op_place(a) for a in t['args']) if p is not None]
        if re.match(r'^core::option::Option(<.*>)?::transpose$', t.get('callee') or '') and args and args[0] in info.get('wrapped', ()) \
                and t.get('ret') is not None:
            # `Some(r).transpose()` is Ok / Err exactly as r is (the `None` of the other arm becomes Ok(None))
            nd = place_key(t['dest'])
            if nd == (0, ()):
                info['status'] = 'returned'
                return
            _follow_label(fn, t['ret'], {nd}, fn.ty(t['dest_ty']), info, seen, depth + 1)
            return
        if any(a in aliases for a in args):
            callee = t.get('callee') or '?'
            if callee == 'core::ops::try_trait::Try::branch' and t.get('ret') is not None:
                nty = fn.ty(t['dest_ty'])
                info['via_try'] = True
                _follow_label(fn, t['ret'], {place_key(t['dest'])}, nty, info, seen, depth + 1)
                return
            if callee in ('core::result::Result::map_err', 'core::result::Result::map', 'core::result::Result::inspect',
                          'core::result::Result::inspect_err') and args and args[0] in aliases and t.get('ret') is not None:
                # Ok-ness is unchanged by these combinators: keep following the result they return
                nd = place_key(t['dest'])
                if nd == (0, ()):
                    info['status'] = 'returned'
                    return
                _follow_label(fn, t['ret'], {nd}, fn.ty(t['dest_ty']), info, seen, depth + 1)
                return
            if info['status'] == 'unlabelled':
                info['status'] = 'consumed:' + callee
            return
        if t.get('ret') is not None:
            _follow_label(fn, t['ret'], aliases, ty, info, seen, depth + 1)
        return
    if k == 'switch':
        dp = op_place(t['discr'])
        if dp is not None and place_key(dp) in discr and car is not None:
            names = VARIANTS[car]
            explicit = {v for v, _ in t['targets']}
            for v, tgt in switch_arms(t):
                if v is None:
                    vs = [x for x in names if x not in explicit]
                else:
                    vs = [v]
                for x in vs:
                    nm = names.get(x)
                    if nm in ('Ok', 'Continue'):
                        info['ok'].add((blk, tgt))
                    elif nm in ('Err', 'Break'):
                        info['err'].add((blk, tgt))
                    elif nm == 'None':
                        info['none'].add((blk, tgt))
                    elif nm == 'Some':
                        # nested: follow the payload
                        inner_ix = ty['args'][0] if ty['args'] else None
                        inner = fn.ty(inner_ix) if inner_ix is not None else None
                        if inner is not None and carrier(inner):
                            na = {(a[0], a[1] + (('dc', 'Some', 1), ('f', 0, '0'))) for a in aliases}
                            info['some_edge'] = (blk, tgt)
                            _follow_label(fn, tgt, na, inner, info, seen, depth + 1)
                        else:
                            info['ok'].add((blk, tgt))
            info['status'] = 'labelled'
            return
        for s in fn.succ(blk):
            _follow_label(fn, s, aliases, ty, info, seen, depth + 1)
        return
    if k in ('goto', 'drop', 'assert'):
        if k == 'drop' and place_key(t['place']) in aliases:
            if info['status'] == 'unlabelled':
                info['status'] = 'dropped'
            return
        _follow_label(fn, t['ret'], aliases, ty, info, seen, depth + 1)
        return
    return


# ---------------------------------------------------------------------------------------------
# Value-fate exploration for device-capable results (rules R9.1 - R9.5)

SWALLOW = {'ok', 'err', 'unwrap_or', 'unwrap_or_else', 'unwrap_or_default', 'map_or', 'map_or_else', 'is_ok', 'is_err',
           'is_ok_and', 'is_err_and', 'iter', 'into_iter', 'and', 'or'}
PANICKY = {'unwrap', 'expect', 'unwrap_err', 'expect_err', 'unwrap_unchecked', 'unwrap_err_unchecked'}
PRESERVE = {'map', 'and_then', 'inspect', 'inspect_err', 'copied', 'cloned', 'as_ref', 'as_mut', 'transpose'}
RELABEL = {'map_err', 'or_else'}


def is_ref_place(pk, refs):
    """place is a ref-holding local (or a chain of derefs of one)"""
    return (pk[0], ()) in refs and all(e == ('deref', ) for e in pk[1])


class Fate:
    """one finding of the fate exploration"""

    def __init__(self, rule, fn, origin_blk, what, path, site_span):
        self.rule = rule
        self.fn = fn
        self.origin_blk = origin_blk
        self.what = what
        self.path = path
        self.span = site_span


def result_method(callee):
    m = re.match(r'^core::(result::Result|option::Option)::(\w+)$', callee or '')
    return (m.group(1), m.group(2)) if m else None


def _closure_returns_its_argument(fn, deps, term):
    """is the closure handed to this combinator call an identity on its (error) argument?"""
    facts = getattr(fn, 'facts_ref', None)
    if facts is None:
        return False
    for a in term['args'][1:]:
        for tk in deps.of_operand(a):
            if tk[0] != 'closure' or tk[1] not in facts.fns:
                continue
            cf = facts.fns[tk[1]]
            if cf.argc < 2:
                return False
            # every value assigned to the return place is (a move chain from) parameter 2
            alias = {2}
            ok = False
            changed = True
            while changed:
                changed = False
                for bi in cf.reachable():
                    for s in cf.blocks[bi]['stmts']:
                        if s['k'] == 'assign' and not s['lhs']['p'] and s['rv']['k'] == 'use':
                            p = op_place(s['rv']['a'])
                            if p is not None and not p['p'] and p['l'] in alias and s['lhs']['l'] not in alias:
                                alias.add(s['lhs']['l'])
                                changed = True
            rets = [s for bi in cf.reachable() for s in cf.blocks[bi]['stmts']
                    if s['k'] == 'assign' and s['lhs']['l'] == 0 and not s['lhs']['p']]
            ok = bool(rets) and all(s['rv']['k'] == 'use' and op_place(s['rv']['a']) is not None and
                                    op_place(s['rv']['a'])['l'] in alias and not op_place(s['rv']['a'])['p'] for s in rets)
            return ok
    return False


def explore_result_fate(fn, origin_blk, start_blk, dest_key, dest_ty_ix, io_variant_index, findings, stats,
                        origin_desc):
    """DFS over CFG paths from start_blk; state = (mode, aliases, refs, discrs, intflags, ty_ix, examined)."""
    types = fn.types
    back = set(fn.back_edges())
    seen = set()
    reported = set()

    def report(rule, what, path, span):
        key = (rule, what)
        if key in reported:
            return
        reported.add(key)
        findings.append(Fate(rule, fn, origin_blk, what, list(path), span))

    deps = Deps(fn)

    def propagates_other_error(b):
        """does block b assign to the return place an error that stems from another call's result?"""
        for s in b['stmts']:
            if s['k'] == 'assign' and place_key(s['lhs']) == (0, ()):
                rv = s['rv']
                if rv['k'] == 'agg' and rv.get('ak') == 'adt' and rv.get('variant') == 'Err' and rv['ops']:
                    toks = deps.of_operand(rv['ops'][0])
                    if any(tk[0] == 'callsite' for tk in toks):
                        return True
        t = b['term']
        if t['k'] == 'call' and place_key(t['dest']) == (0, ()) and (t.get('callee') or '').endswith(
                'FromResidual::from_residual'):
            if t['args']:
                p = op_place(t['args'][0])
                if p is not None and contains_dev_result(types, fn.locals[p['l']]['ty']):
                    return True
        return False

    def step(blk, st, path, other_err=False):
        mode, aliases, refs, discrs, ints, ty_ix, examined = st
        key = (blk, mode, aliases, refs, discrs, ints, ty_ix, examined, other_err)
        if key in seen:
            return
        seen.add(key)
        if len(seen) > 20000:
            stats['fate_budget_hit'] = stats.get('fate_budget_hit', 0) + 1
            return
        aliases = set(aliases)
        refs = set(refs)
        discrs = set(discrs)
        ints = set(ints)
        b = fn.blocks[blk]
        path = path + [blk]
        oe = other_err or propagates_other_error(b)
        ty = types[ty_ix] if ty_ix is not None else None
        for s in b['stmts']:
            if s['k'] != 'assign':
                continue
            rv = s['rv']
            lhs = place_key(s['lhs'])
            k = rv['k']
            if k == 'use':
                p = op_place(rv['a'])
                if p is None:
                    # constant overwrites an alias
                    aliases.discard(lhs)
                    continue
                pk = place_key(p)
                if pk in aliases:
                    if lhs == (0, ()):
                        return  # propagated to the caller
                    if lhs[1] == ():
                        aliases.add(lhs)
                    else:
                        return  # stored into a structure: delegated
                elif any(a[0] == pk[0] and a[1][:len(pk[1])] == pk[1] and len(a[1]) > len(pk[1]) for a in aliases):
                    # the value that CONTAINS the pending payload is moved as a whole (`res => res?` after a partial
                    # match on it): the payload moves with it
                    if lhs == (0, ()):
                        return  # the whole result is returned to the caller
                    if lhs[1] == ():
                        for a in list(aliases):
                            if a[0] == pk[0] and a[1][:len(pk[1])] == pk[1] and len(a[1]) > len(pk[1]):
                                aliases.add((lhs[0], a[1][len(pk[1]):]))
                    else:
                        return  # stored into a structure: delegated
                elif is_ref_place(pk, refs):
                    if lhs[1] == ():
                        refs.add(lhs)
            elif k == 'agg':
                for o in rv['ops']:
                    p = op_place(o)
                    if p is not None and place_key(p) in aliases:
                        return  # wrapped into another value (Err(e), Some(Err(e)), struct): delegated
            elif k == 'ref':
                pk = place_key(rv['p'])
                if pk in aliases or is_ref_place(pk, refs):
                    if lhs[1] == ():
                        refs.add(lhs)
            elif k == 'discr':
                pk = place_key(rv['p'])
                if pk in aliases:
                    discrs.add(lhs)
                elif pk[1] and is_ref_place(pk, refs):
                    discrs.add(lhs)
            elif k == 'cast':
                p = op_place(rv['a'])
                if p is not None and place_key(p) in refs and lhs[1] == ():
                    refs.add(lhs)
        t = b['term']
        k = t['k']
        fr = lambda: (mode, frozenset(aliases), frozenset(refs), frozenset(discrs), frozenset(ints), ty_ix, examined)
        if k == 'return':
            if oe:
                # the call fails with another device-capable error that is propagated to the caller
                stats['masked_by_other_propagated_error'] = stats.get('masked_by_other_propagated_error', 0) + 1
                return
            if mode == 'whole':
                if not examined:
                    report('R9.1', 'result of %s is never examined on a path to return' % origin_desc, path, t['span'])
                else:
                    report('R9.3', 'result of %s is only tested (is_ok/is_err) and its error value is discarded' %
                           origin_desc, path, t['span'])
            else:
                report('R9.2', 'error payload of %s is not returned or kind-tested on a path to return' % origin_desc,
                       path, t['span'])
            return
        if k in ('unreachable', 'resume', 'terminate', 'other'):
            return
        if k == 'call' or k == 'tailcall':
            callee = t.get('callee') or '?'
            args = []
            for a in t['args']:
                p = op_place(a)
                args.append(place_key(p) if p is not None else None)
            by_val = [a for a in args if a is not None and a in aliases]
            by_ref = [a for a in args if a is not None and is_ref_place(a, refs)]
            nxt = t.get('ret')
            container = [a for a in args if a is not None and a not in aliases and any(
                x[0] == a[0] and x[1][:len(a[1])] == a[1] and len(x[1]) > len(a[1]) for x in aliases)]
            if container and not by_val:
                # the result holding the pending error payload is handed over whole
                if callee == 'core::ops::try_trait::Try::branch' and nxt is not None:
                    step(nxt, ('whole', frozenset({place_key(t['dest'])}), frozenset(), frozenset(), frozenset(),
                               t['dest_ty'], True), path, oe)
                    return
                stats['delegated'] = stats.get('delegated', 0) + 1
                return
            if by_val:
                rm = result_method(callee)
                if callee == 'core::ops::try_trait::Try::branch' and nxt is not None:
                    step(nxt, ('whole', frozenset({place_key(t['dest'])}), frozenset(), frozenset(), frozenset(),
                               t['dest_ty'], examined), path, oe)
                    return
                if mode == 'whole' and rm is not None:
                    meth = rm[1]
                    if meth in PANICKY:
                        report('R9.5', '%s() on the device-capable result of %s' % (meth, origin_desc), path, t['span'])
                        return
                    if meth in SWALLOW:
                        from rules.panics import feeds_only_debug_assert
                        if not t['dest']['p'] and feeds_only_debug_assert(fn, {t['dest']['l']}):
                            return  # the whole expression is the condition of a `debug_assert!`: not there in a release build
                        report('R9.3', 'result of %s is consumed by %s(), which discards the error value' %
                               (origin_desc, meth), path, t['span'])
                        return
                    if meth in RELABEL:
                        fnarg = None
                        for a in t['args']:
                            c = op_const(a)
                            if c is not None and c.get('fn'):
                                fnarg = c['fn']
                        if fnarg in ('core::convert::From::from', 'core::convert::Into::into'):
                            pass
                        elif meth == 'map_err' and fnarg and re.match(r'^fatfs::error::Error::Io(::\{\{?constructor.*)?$', fnarg):
                            pass  # `.map_err(Error::Io)`: the storage error is wrapped in the I/O variant, which is the rule
                        elif _closure_returns_its_argument(fn, deps, t):
                            pass  # `map_err(|e| { side effect; e })`: the error value is handed on unchanged
                        else:
                            report('R9.3', 'result of %s goes through %s(), which may replace the error kind' %
                                   (origin_desc, meth), path, t['span'])
                            return
                    if meth in PRESERVE or meth in RELABEL:
                        if place_key(t['dest']) == (0, ()):
                            return  # the (error-preserving) combinator's result is the function's return value
                        if nxt is not None and contains_dev_result(types, t['dest_ty']):
                            step(nxt, ('whole', frozenset({place_key(t['dest'])}), frozenset(), frozenset(),
                                       frozenset(), t['dest_ty'], examined), path, oe)
                        return
                # moved into some other function (From::from, from_residual, a helper, Some/Ok ctor fn): delegated
                stats['delegated'] = stats.get('delegated', 0) + 1
                return
            if by_ref:
                short = callee.rsplit('::', 1)[-1]
                if short == 'is_interrupted' and mode == 'payload' and nxt is not None:
                    ints.add(place_key(t['dest']))
                    step(nxt, fr(), path, oe)
                    return
                if mode == 'whole' and short in ('is_err', 'is_ok'):
                    if nxt is not None:
                        step(nxt, (mode, frozenset(aliases), frozenset(refs), frozenset(discrs), frozenset(ints), ty_ix,
                                   True), path, oe)
                    return
                # any other by-reference use (logging, Debug) does not consume
            if nxt is not None:
                if (blk, nxt) in back:
                    _backedge(mode, examined, path, t)
                    return
                step(nxt, fr(), path, oe)
            return
        if k == 'switch':
            dp = op_place(t['discr'])
            dk = place_key(dp) if dp is not None else None
            if dk is not None and dk in ints and mode == 'payload':
                # is_interrupted(): true arm = retry (allowed fate F3), false arm = still pending
                for v, tgt in switch_arms(t):
                    if v == 0:
                        _goto(blk, tgt, fr(), path, t, oe)
                return
            if dk is not None and dk in discrs:
                if mode == 'whole':
                    car = carrier(ty)
                    names = VARIANTS.get(car, {})
                    explicit = {v for v, _ in t['targets']}
                    for v, tgt in switch_arms(t):
                        vs = [x for x in names if x not in explicit] if v is None else [v]
                        kinds = {names.get(x) for x in vs}
                        if kinds & {'Err', 'Break'}:
                            # error side: payload pending
                            if car == CFLOW:
                                # Break(residual): the residual is Result<Infallible, E>; keep tracking it whole-ish:
                                na = {(a[0], a[1] + (('dc', 'Break', 1), ('f', 0, '0'))) for a in aliases}
                                rix = ty['args'][0]
                                _goto(blk, tgt, ('residual', frozenset(na), frozenset(), frozenset(), frozenset(), rix,
                                                 True), path, t, oe)
                            else:
                                na = {(a[0], a[1] + (('dc', 'Err', 1), ('f', 0, '0'))) for a in aliases}
                                eix = ty['args'][1]
                                _goto(blk, tgt, ('payload', frozenset(na), frozenset(), frozenset(), frozenset(), eix,
                                                 True), path, t, oe)
                        elif kinds & {'Some'}:
                            inner = ty['args'][0]
                            if contains_dev_result(types, inner):
                                na = {(a[0], a[1] + (('dc', 'Some', 1), ('f', 0, '0'))) for a in aliases}
                                _goto(blk, tgt, ('whole', frozenset(na), frozenset(), frozenset(), frozenset(), inner,
                                                 examined), path, t, oe)
                        elif kinds & {'Continue'} and car == CFLOW:
                            pass
                        # Ok / None / Continue: nothing pending on this arm
                    return
                if mode == 'payload':
                    pty = ty
                    is_enum_err = pty is not None and is_adt(pty, 'fatfs::error::Error')
                    for v, tgt in switch_arms(t):
                        if is_enum_err and v is not None and v != io_variant_index:
                            continue  # specific non-Io kind handled on this arm (allowed fate F2)
                        _goto(blk, tgt, fr(), path, t, oe)
                    return
            for tgt in fn.succ(blk):
                _goto(blk, tgt, fr(), path, t, oe)
            return
        if k in ('goto', 'drop', 'assert'):
            _goto(blk, t['ret'], fr(), path, t, oe)
            return

    def _backedge(mode, examined, path, t):
        if mode == 'whole':
            if not examined:
                report('R9.1', 'result of %s is never examined before the loop repeats' % origin_desc, path, t['span'])
            else:
                # same fate as at a return: tested by is_ok / is_err only, then overwritten or left behind by the next
                # iteration (seed C09-Q: a `result` local assigned once per FAT copy, only the last one returned)
                report('R9.3', 'result of %s is only tested (is_ok/is_err) and its error value is discarded when the '
                               'loop repeats' % origin_desc, path, t['span'])
        elif mode in ('payload', 'residual'):
            report('R9.4', 'error payload of %s is still pending when the loop repeats' % origin_desc, path, t['span'])

    def _goto(blk, tgt, st, path, t, oe):
        if (blk, tgt) in back:
            _backedge(st[0], st[6], path + [blk], t)
            return
        step(tgt, st, path, oe)

    # 'residual' mode behaves like payload for reporting but like whole for moves; implemented by aliasing modes
    def step_wrapper(blk, st, path):
        step(blk, st, path)

    step_wrapper(start_blk, ('whole', frozenset({dest_key}), frozenset(), frozenset(), frozenset(), dest_ty_ix, False), [])


# ---------------------------------------------------------------------------------------------
# A3 data dependence (flow-insensitive, over-approximate; used only for "must depend on" obligations)


# the fact base of the tree under analysis (set by whoever loads it): lets Deps look *through* calls to small fatfs
# helpers, so that an expression moved into a helper function keeps its provenance at the call site
CURRENT_FACTS = None
_SUMMARY_KINDS = ('call', 'op', 'field', 'const', 'constpath', 'ctor', 'fnref')


def callee_summary_tokens(callee, depth=0, facts=None):
    """provenance tokens of what a fatfs function returns (callees, operators, fields, constants), transitively through
    at most two levels of fatfs helpers"""
    facts = facts or CURRENT_FACTS
    if facts is None or depth > 2:
        return frozenset()
    fn = facts.fns.get(callee)
    if fn is None or fn.crate != 'fatfs' or not fn.blocks:
        return frozenset()
    cache = facts.__dict__.setdefault('_deps_summary_cache', {})
    key = (callee, depth)
    if key in cache:
        return cache[key]
    cache[key] = frozenset()  # recursion guard
    d = Deps(fn, _summary_depth=depth + 1)
    toks = frozenset(tk for tk in d.of_local(0) if tk[0] in _SUMMARY_KINDS)
    cache[key] = toks
    return toks


class Deps:
    def __init__(self, fn, blocks=None, _summary_depth=0, expand_fields=False):
        """blocks: restrict to statements of these blocks (e.g. one arm of a branch plus the common prefix);
        expand_fields: a read of a private integer field also carries the provenance of everything stored into it"""
        self.fn = fn
        if not expand_fields:
            self._no_field_expand = True
        self.blocks = blocks
        self._summary_depth = _summary_depth
        self.direct = defaultdict(set)  # local -> set of tokens
        self._build()
        self._closure = {}

    def _tokens_of_place(self, p):
        toks = {('local', p['l'])}
        for i, e in enumerate(p['p']):
            if 'f' in e and e.get('n') is not None:
                toks.add(('field', e['n']))
                fst = self._field_sources()
                if fst:
                    owner = place_prefix_type(self.fn, p, i)
                    if owner is not None and owner.get('k') == 'adt':
                        toks |= fst.get((owner.get('path'), e['n']), frozenset())
            if 'idx' in e:
                toks.add(('local', e['idx']))
        return toks

    def _field_sources(self):
        """{(adt, field): tokens of everything the crate ever stores into that private field}: a value cached in a struct
        (`cluster_size: fs.cluster_size()`) still comes from where it was computed"""
        if getattr(self, '_no_field_expand', False):
            return None
        facts = getattr(self.fn, 'facts_ref', None)
        if facts is None:
            return None
        tab = facts.__dict__.get('_field_store_tokens')
        if tab is None:
            facts.__dict__['_field_store_tokens'] = {}  # guards against re-entry while it is being built
            tab = _build_field_store_tokens(facts)
            facts.__dict__['_field_store_tokens'] = tab
        return tab

    def _tokens_of_operand(self, o):
        p = op_place(o)
        if p is not None:
            return self._tokens_of_place(p)
        c = op_const(o)
        toks = set()
        if c is not None:
            if c.get('val') is not None:
                toks.add(('const', c['val']))
            if c.get('path'):
                toks.add(('constpath', c['path']))
            if c.get('fn'):
                toks.add(('fnref', c['fn']))
        return toks

    def _build(self):
        fn = self.fn
        for i in range(1, fn.argc + 1):
            self.direct[i].add(('param', i))
        for bi in (fn.reachable() if self.blocks is None else [x for x in fn.reachable() if x in self.blocks]):
            b = fn.blocks[bi]
            for s in b['stmts']:
                if s['k'] != 'assign':
                    continue
                l = s['lhs']['l']
                rv = s['rv']
                for o in operands_of_rvalue(rv):
                    self.direct[l] |= self._tokens_of_operand(o)
                if rv['k'] in ('ref', 'rawptr', 'discr'):
                    self.direct[l] |= self._tokens_of_place(rv['p'])
                if rv['k'] == 'binop':
                    self.direct[l].add(('op', rv['op'].replace('WithOverflow', '').replace('Unchecked', '')))
                if rv['k'] == 'agg' and rv.get('ak') == 'closure':
                    self.direct[l].add(('closure', rv['def']))
                if rv['k'] == 'agg' and rv.get('ak') == 'adt':
                    self.direct[l].add(('ctor', rv['adt'] + '::' + rv['variant']))
            t = b['term']
            if t['k'] == 'call':
                l = t['dest']['l']
                self.direct[l].add(('call', t.get('callee') or '?'))
                self.direct[l].add(('callsite', bi))
                for a in t['args']:
                    self.direct[l] |= self._tokens_of_operand(a)
                if t.get('callee') and t.get('callee') != fn.name:
                    self.direct[l] |= callee_summary_tokens(t['callee'], self._summary_depth, getattr(fn, 'facts_ref', None))
                # &mut arguments may be written by the callee: they depend on the other arguments too
                for a in t['args']:
                    p = op_place(a)
                    if p is None:
                        continue
                    lt = fn.local_ty(p['l'])
                    if lt['k'] == 'ref' and lt.get('mut') and not p['p']:
                        for a2 in t['args']:
                            if a2 is not a:
                                self.direct[p['l']] |= self._tokens_of_operand(a2)
                        self.direct[p['l']].add(('call', t.get('callee') or '?'))

    def of_local(self, l):
        if l in self._closure:
            return self._closure[l]
        seen_l = set()
        toks = set()
        st = [l]
        while st:
            x = st.pop()
            if x in seen_l:
                continue
            seen_l.add(x)
            for tk in self.direct.get(x, ()):
                toks.add(tk)
                if tk[0] == 'local' and tk[1] not in seen_l:
                    st.append(tk[1])
        # references: a local that is `&mut x` shares x's dependences and vice versa (cheap alias closure)
        self._closure[l] = toks
        return toks

    def of_operand(self, o):
        p = op_place(o)
        if p is None:
            return self._tokens_of_operand(o)
        toks = set(self._tokens_of_place(p))
        for tk in list(toks):
            if tk[0] == 'local':
                toks |= self.of_local(tk[1])
        return toks

    def of_place(self, p):
        toks = set(self._tokens_of_place(p))
        for tk in list(toks):
            if tk[0] == 'local':
                toks |= self.of_local(tk[1])
        return toks


def _build_field_store_tokens(facts):
    try:
        from rules.fieldinv import candidates, _owner_field, _copies_same_field
    except Exception:
        return {}
    cands = candidates(facts)
    out = {}
    keep = ('call', 'const', 'constpath', 'op', 'field')
    for fn in facts.fns.values():
        if fn.crate != 'fatfs':
            continue
        sites = []
        for bi in fn.reachable():
            for s in fn.blocks[bi]['stmts']:
                if s['k'] != 'assign':
                    continue
                rv = s['rv']
                if s['lhs']['p'] and rv['k'] == 'use':
                    k = _owner_field(fn, s['lhs'])
                    if k in cands and not _copies_same_field(fn, rv['a'], k):
                        sites.append((k, rv['a']))
                if rv['k'] == 'agg' and rv.get('ak') == 'adt':
                    for fname, o in zip(rv.get('fields') or [], rv.get('ops') or []):
                        k = (rv.get('adt'), fname)
                        if k in cands and not _copies_same_field(fn, o, k):
                            sites.append((k, o))
        if not sites:
            continue
        d = Deps(fn)
        for k, o in sites:
            toks = frozenset(tk for tk in d.of_operand(o) if tk[0] in keep)
            out[k] = out.get(k, frozenset()) | toks
    return out


# ---------------------------------------------------------------------------------------------
# A5: must-pass-through along Ok edges


def error_blocks(fn, none_is_failure=False):
    """blocks that assign an error value to the return place (Err(..) aggregate, from_residual call, or a
    Break/None carrier), i.e. blocks that can only lie on a non-Ok exit.  none_is_failure: a function returning Option
    that reports failure as `None` (a fallible helper whose caller only needs to know whether it worked)"""
    out = set()
    rets = {(0, ())} | {(r, ()) for r in fn.__dict__.get('inlined_ret_locals', ())}
    for bi in fn.reachable():
        b = fn.blocks[bi]
        for s in b['stmts']:
            if s['k'] == 'assign' and place_key(s['lhs']) in rets:
                rv = s['rv']
                if rv['k'] == 'agg' and rv.get('ak') == 'adt' and rv['adt'] in VARIANTS and rv['variant'] in ('Err', ):
                    out.add(bi)
                if none_is_failure and rv['k'] == 'agg' and rv.get('ak') == 'adt' and rv['adt'] == 'core::option::Option' and \
                        rv.get('variant') == 'None':
                    out.add(bi)
        t = b['term']
        if t['k'] == 'call' and place_key(t['dest']) in rets and (t.get('callee') or '').endswith(
                'FromResidual::from_residual'):
            out.add(bi)
    return out


class Must:
    """MUST(T): functions all of whose Ok-exit paths cross the Ok edge of a call satisfying `target`.

    target(fn, blk, term, callee_names) -> bool is evaluated on call terminators; callee_names is the set of
    resolved callee fn names over all instances (or None)."""

    def __init__(self, facts, target):
        self.facts = facts
        self.target = target
        self.labels = {}
        self.members = None

    def _labels(self, fn):
        if fn.name not in self.labels:
            self.labels[fn.name] = label_results(fn)
        return self.labels[fn.name]

    def callee_names(self, fn, bb):
        ids = self.facts.callees_at(fn.name, bb)
        if ids is None:
            c = fn.callee(bb)
            return {c} if c else set()
        return {self.facts.inst_name(i) for i in ids}

    def crossing_edges(self, fn, member_set):
        """edges whose traversal means 'a target call returned Ok'"""
        cut = set()
        lab = self._labels(fn)
        for b, t in fn.calls():
            if t['k'] != 'call' or t.get('ret') is None:
                continue
            names = self.callee_names(fn, b)
            hit = self.target(fn, b, t, names) or (names and all(n in member_set for n in names))
            if not hit:
                continue
            info = lab.get(b)
            if info is None or info['status'] in ('returned', ):
                cut.add((b, t['ret']))
            elif info['status'] == 'labelled':
                cut |= info['ok']
            else:
                # result not tested: the call itself is crossed on every path through it; the Ok-ness is unknown,
                # so it does not count (conservative: obligation not discharged through this call)
                pass
        extra = getattr(self, 'extra_cut', None)
        if extra is not None:
            cut |= set(extra(fn))  # edges on which the obligation is void (e.g. the cached value is known to be absent)
        return cut

    def passes(self, fn, member_set):
        cut = self.crossing_edges(fn, member_set)
        eb = error_blocks(fn)
        reach = fn.reach_from([0], cut_blocks=eb, cut_edges=cut)
        rets = [r for r in fn.return_blocks() if r in reach]
        return not rets, rets

    def compute(self, candidates):
        """greatest fixed point over the candidate fns"""
        members = set(f.name for f in candidates)
        changed = True
        while changed:
            changed = False
            for f in candidates:
                if f.name not in members:
                    continue
                ok, _ = self.passes(f, members)
                if not ok:
                    members.discard(f.name)
                    changed = True
        self.members = members
        return members


def path_to(fn, start, goal_blocks, cut_blocks=(), cut_edges=()):
    """one shortest path (list of blocks) from start to any goal, honouring cuts; None if unreachable"""
    cut_blocks = set(cut_blocks)
    cut_edges = set(cut_edges)
    goal = set(goal_blocks)
    if start in cut_blocks:
        return None
    prev = {start: None}
    dq = deque([start])
    while dq:
        b = dq.popleft()
        if b in goal:
            out = []
            while b is not None:
                out.append(b)
                b = prev[b]
            return out[::-1]
        for s in fn.succ(b):
            if s in prev or s in cut_blocks or (b, s) in cut_edges:
                continue
            prev[s] = b
            dq.append(s)
    return None


# ---------------------------------------------------------------------------------------------
# small structural helpers


def place_prefix_type(fn, p, upto):
    """type info of the value denoted by the first `upto` projection elements of place dict p (None if unknown)"""
    types = fn.types
    ty = types[fn.locals[p['l']]['ty']]
    vi = 0
    for e in p['p'][:upto]:
        if ty is None:
            return None
        if 'deref' in e:
            if ty['k'] in ('ref', 'ptr'):
                ty = types[ty['to']]
            elif ty['k'] == 'adt' and ty['path'] == 'alloc::boxed::Box' and ty['args']:
                ty = types[ty['args'][0]]
            else:
                return None
            vi = 0
        elif 'f' in e:
            if ty['k'] == 'adt':
                adt = fn.adts.get(ty['path'])
                if adt is None:
                    return None
                try:
                    ty = types[adt['variants'][vi]['fields'][e['f']]['ty']]
                except (IndexError, KeyError):
                    return None
            elif ty['k'] == 'tuple':
                try:
                    ty = types[ty['of'][e['f']]]
                except IndexError:
                    return None
            else:
                return None
            vi = 0
        elif 'dc' in e or 'vi' in e:
            vi = e.get('vi', 0)
        else:
            return None
    return ty


def field_owner(fn, p, field_name):
    """adt path of the struct whose field `field_name` is the LAST field projection of place p, else None"""
    idx = None
    for i, e in enumerate(p['p']):
        if 'f' in e and e.get('n') == field_name:
            idx = i
    if idx is None:
        return None
    ty = place_prefix_type(fn, p, idx)
    if ty is not None and ty['k'] == 'adt':
        return ty['path']
    return None


def last_def_in_block(fn, blk, local, before=None):
    """last `assign` statement in blk (optionally before statement index) whose lhs is exactly `local`"""
    stmts = fn.blocks[blk]['stmts']
    rng = range(len(stmts) if before is None else before)
    out = None
    for i in rng:
        s = stmts[i]
        if s['k'] == 'assign' and s['lhs']['l'] == local and not s['lhs']['p']:
            out = s
    return out


def _def_upwards(fn, blk, l, depth=0):
    """how local l is defined on the way into blk's end: ('const', v) | ('def', block holding the defining statement) | None"""
    cur = blk
    for _ in range(12):
        s = last_def_in_block(fn, cur, l)
        if s is not None:
            rv = s['rv']
            if rv['k'] == 'use' and op_const(rv['a']) is not None and op_const(rv['a']).get('val') in (0, 1):
                return ('const', op_const(rv['a'])['val'])
            return ('def', cur)
        t = fn.blocks[cur]['term']
        if t['k'] == 'call' and t['dest']['l'] == l and not t['dest']['p']:
            return None
        ps = [x for x in fn.pred(cur) if x in fn.reachable()]
        if len(ps) != 1:
            return None
        cur = ps[0]
    return None


# A getter that the tables name can be decoded in place after a refactoring (`active_fat()` -> the payload of a
# `FatMirroring::Disabled { active_fat: flags & 0x0F }`): the same provenance counts as the call
CALL_ALIASES = {
    '::active_fat': [{('field', 'extended_flags'), ('const', 0x0F), ('op', 'BitAnd')}],
}


def has_call(toks, suffix):
    if any(tk[0] == 'call' and tk[1].endswith(suffix) for tk in toks):
        return True
    return any(alt <= toks for alt in CALL_ALIASES.get(suffix, ()))


OPTION_VIEWS = ('core::option::Option::as_mut', 'core::option::Option::as_ref', 'core::result::Result::as_ref',
                'core::result::Result::as_mut')


def _option_view_of(fn, p, depth=0):
    """`x.f.as_mut()` / `.as_ref()` has the discriminant of `x.f`: the place whose view the local p holds (through moves), or None"""
    if p['p'] or depth > 6:
        return None
    l = p['l']
    defs = [s['rv'] for bi in fn.reachable() for s in fn.blocks[bi]['stmts']
            if s['k'] == 'assign' and not s['lhs']['p'] and s['lhs']['l'] == l]
    if len(defs) == 1 and defs[0]['k'] == 'use':
        q = op_place(defs[0]['a'])
        return _option_view_of(fn, q, depth + 1) if q is not None else None
    if defs:
        return None
    calls = [t for b, t in fn.calls() if not t['dest']['p'] and t['dest']['l'] == l]
    if len(calls) != 1 or calls[0].get('callee') not in OPTION_VIEWS or not calls[0]['args']:
        return None
    a = op_place(calls[0]['args'][0])
    if a is None or a['p']:
        return None
    adefs = [s['rv'] for bi in fn.reachable() for s in fn.blocks[bi]['stmts']
             if s['k'] == 'assign' and not s['lhs']['p'] and s['lhs']['l'] == a['l']]
    if len(adefs) == 1 and adefs[0]['k'] == 'ref' and adefs[0]['p']['p']:
        return adefs[0]['p']
    return None


def switch_source(fn, blk):
    """what does the SwitchInt at blk test?  {'kind': 'place'|'call'|'discr'|'binop'|'unknown', ...}"""
    t = fn.blocks[blk]['term']
    if t['k'] != 'switch':
        return None
    p = op_place(t['discr'])
    if p is None:
        return {'kind': 'const'}
    if p['p']:
        return {'kind': 'place', 'place': p}
    l = p['l']
    cur = blk
    for _ in range(40):
        s = last_def_in_block(fn, cur, l)
        if s is not None:
            rv = s['rv']
            if rv['k'] == 'use':
                q = op_place(rv['a'])
                if q is None:
                    return {'kind': 'const', 'const': op_const(rv['a'])}
                if q['p']:
                    return {'kind': 'place', 'place': q, 'blk': cur}
                l = q['l']
                continue
            if rv['k'] == 'discr':
                viewed = _option_view_of(fn, rv['p']) if not rv['p']['p'] else None
                return {'kind': 'discr', 'place': viewed or rv['p'], 'blk': cur}
            if rv['k'] == 'binop':
                return {'kind': 'binop', 'op': rv['op'], 'a': rv['a'], 'b': rv['b'], 'blk': cur}
            if rv['k'] == 'unop':
                return {'kind': 'unop', 'op': rv['op'], 'a': rv['a'], 'blk': cur}
            return {'kind': 'unknown'}
        preds = [x for x in fn.pred(cur) if x in fn.reachable()]
        if len(preds) != 1:
            # a materialised condition (`let c = a || b;` / `a && b`): some predecessors store a constant (the short-circuit
            # arms), exactly one stores the last comparison - on that path the local IS that comparison
            live = []
            for pb_ in preds:
                d_ = _def_upwards(fn, pb_, l)
                if d_ is None:
                    live = None
                    break
                if d_[0] == 'const':
                    continue
                live.append(d_)
            if not live or len(live) != 1:
                return {'kind': 'unknown'}
            cur = live[0][1]
            continue
        pb = preds[0]
        pt = fn.blocks[pb]['term']
        if pt['k'] == 'call' and pt['dest']['l'] == l and not pt['dest']['p']:
            return {'kind': 'call', 'callee': pt.get('callee'), 'term': pt, 'blk': pb}
        cur = pb
    return {'kind': 'unknown'}


def nonzero_targets(term):
    """targets of a boolean switch taken when the value is non-zero (true)"""
    out = [t for v, t in term['targets'] if v != 0]
    if not any(v == 1 for v, _ in term['targets']):
        out.append(term['otherwise'])
    return out


def zero_targets(term):
    out = [t for v, t in term['targets'] if v == 0]
    if not out:
        out.append(term['otherwise'])
    return out


def edge_dominates(fn, edges, blk, _depth=0):
    """is blk unreachable from the entry once the given CFG edges are removed (and reachable otherwise)?

    Also true through a *materialised boolean*: when blk is only reached on the true (false) arm of a switch on a
    bool local that is assigned nothing but constants, and every block that assigns it `true` (`false`) is itself
    dominated by the edges (`matches!(..)`, `let ok = a && b; if ok {..}`): the branch was taken only if one of those
    assignments ran."""
    if blk not in fn.reachable():
        return False
    edges = set(edges)
    if blk not in fn.reach_from([0], cut_edges=edges):
        return True
    if _depth >= 3:
        return False
    for bi, want, arm in _bool_switches(fn):
        arm_edges = {(bi, x) for x in arm}
        if not arm_edges or blk in fn.reach_from([0], cut_edges=arm_edges):
            continue  # this arm does not dominate blk
        setters = _bool_setters(fn, bi)
        if setters is None:
            continue
        blocks = setters.get(want, [])
        if blocks and all(edge_dominates(fn, edges, b2, _depth + 1) for b2 in blocks):
            return True
    return False


def _bool_switches(fn):
    cache = fn.__dict__.setdefault('_bool_switch_cache', None)
    if cache is not None:
        return cache
    out = []
    for bi in fn.reachable():
        t = fn.blocks[bi]['term']
        if t['k'] != 'switch':
            continue
        p = op_place(t['discr'])
        if p is None or p['p'] or fn.local_ty(p['l']).get('k') != 'bool':
            continue
        out.append((bi, 1, nonzero_targets(t)))
        out.append((bi, 0, zero_targets(t)))
    fn.__dict__['_bool_switch_cache'] = out
    return out


def _bool_setters(fn, sw_blk):
    """{1: [blocks assigning const true], 0: [blocks assigning const false]} for the bool local tested at sw_blk (following
    one plain copy), or None when it is assigned anything else"""
    p = op_place(fn.blocks[sw_blk]['term']['discr'])
    l = p['l']
    for _ in range(3):
        assigns = []
        for bi in fn.reachable():
            for s in fn.blocks[bi]['stmts']:
                if s['k'] == 'assign' and s['lhs']['l'] == l and not s['lhs']['p']:
                    assigns.append((bi, s['rv']))
            t = fn.blocks[bi]['term']
            if t['k'] == 'call' and t['dest']['l'] == l and not t['dest']['p']:
                return None
        if len(assigns) == 1 and assigns[0][1]['k'] == 'use' and op_place(assigns[0][1]['a']) is not None and \
                not op_place(assigns[0][1]['a'])['p']:
            l = op_place(assigns[0][1]['a'])['l']
            continue
        out = {0: [], 1: []}
        for bi, rv in assigns:
            c = op_const(rv['a']) if rv['k'] == 'use' else None
            if c is None or c.get('val') not in (0, 1):
                return None
            out[c['val']].append(bi)
        return out if (out[0] or out[1]) else None
    return None


def const_operand_value(o):
    c = op_const(o)
    if c is None:
        return None
    return c.get('val')
