"""A6 two-state protocol analysis over the monomorphic call graph (DESIGN.md section 3 / Appendix F.5).

States {Before, After}; the Ok edge of a call to an *event* function moves Before -> After. A *protected action*
(an unguarded device write) performed while the state may still be Before is a violation. Per instance the summary
(act, out) is computed to a fixed point: act = a protected action may happen when entered in Before;
out = states possible at an Ok-exit when entered in Before."""
from analyses import dev_leaf_kind, error_blocks, label_results

B, A = 'Before', 'After'


class Protocol:
    def __init__(self, facts, is_event_fn, guarded_blocks_of, protected_leaf=lambda name: dev_leaf_kind(name) == 'W'):
        self.facts = facts
        self.is_event_fn = is_event_fn
        self.guarded = guarded_blocks_of
        self.protected_leaf = protected_leaf
        self.act = {}
        self.out = {}
        self.first = {}  # inst -> (bb, callee inst or None) first protected action witness
        self._labels = {}

    def labels(self, fn):
        if fn.name not in self._labels:
            self._labels[fn.name] = label_results(fn)
        return self._labels[fn.name]

    def solve(self, entries):
        facts = self.facts
        scope = facts.reach_from_insts(list(entries))
        for i in scope:
            self.act[i] = False
            self.out[i] = set()
        changed = True
        rounds = 0
        while changed and rounds < 50:
            changed = False
            rounds += 1
            for i in scope:
                a, o, w = self.analyse(i)
                if a and not self.act[i]:
                    self.act[i] = True
                    self.first[i] = w
                    changed = True
                if not o <= self.out[i]:
                    self.out[i] |= o
                    changed = True
        return scope

    def analyse(self, i):
        facts = self.facts
        inst = facts.instances[i]
        name = inst['fn']
        if self.protected_leaf(name):
            return True, {B}, (None, None)
        fn = facts.fns.get(name)
        if fn is None:
            # body not dumped (std / core): summarise from callees conservatively
            act = False
            wit = None
            out = {B}
            for bb, c, kind in facts.out_edges[i]:
                if self.is_event_fn(facts.instances[c]['fn']):
                    out.add(A)
                if self.act.get(c) or self.protected_leaf(facts.instances[c]['fn']):
                    act = True
                    wit = wit or (bb, c)
                out |= self.out.get(c, set())
            return act, out, wit
        lab = self.labels(fn)
        guarded = self.guarded(fn)
        # edge transformers
        ok_edge_of = {}
        err_edge_of = {}
        for cb, info in lab.items():
            if info['status'] == 'labelled':
                for e in info['ok']:
                    ok_edge_of.setdefault(e, []).append(cb)
                for e in info['err'] | info.get('none', set()):
                    err_edge_of.setdefault(e, []).append(cb)
        # per call block: effect on the state along its Ok edge
        call_effect = {}
        act = False
        wit = None
        st = {0: {B}}
        work = [0]
        eb = error_blocks(fn)
        pending = {}  # call block -> state before the call (for applying at labelled edges)
        iters = 0
        while work and iters < 20000:
            iters += 1
            b = work.pop()
            cur = st[b]
            t = fn.blocks[b]['term']
            nxt_state = set(cur)
            if t['k'] in ('call', 'drop') and b not in guarded:
                callees = [c for c, kind in facts.edge_at.get((i, b), ())]
                eff_out = None
                for c in callees:
                    cname = facts.instances[c]['fn']
                    if B in cur and (self.protected_leaf(cname) or self.act.get(c)):
                        act = True
                        if wit is None:
                            wit = (b, c)
                    if self.is_event_fn(cname):
                        eff_out = (eff_out or set()) | {A}
                    elif B in cur:
                        eff_out = (eff_out or set()) | (self.out.get(c, set()) or set())
                if callees and B in cur and eff_out is not None:
                    info = lab.get(b)
                    if info is not None and info['status'] == 'labelled':
                        # state changes only on the Ok edges of this call
                        pending[b] = (set(cur), eff_out)
                    elif info is not None and info['status'] == 'returned':
                        nxt_state = (cur - {B}) | eff_out
                    else:
                        ev_only = all(self.is_event_fn(facts.instances[c]['fn']) for c in callees)
                        nxt_state = cur | eff_out if not ev_only else cur | eff_out
            if b in eb:
                continue  # an error exit: its state is irrelevant for the Ok-exit summary
            for s in fn.succ(b):
                ns = set(nxt_state)
                for cb in ok_edge_of.get((b, s), ()):
                    if cb in pending:
                        before, eff = pending[cb]
                        if B in ns:
                            ns = (ns - {B}) | eff
                old = st.get(s)
                if old is None or not ns <= old:
                    st[s] = (old or set()) | ns
                    work.append(s)
        out = set()
        for r in fn.return_blocks():
            if r in st:
                # only Ok exits matter: returns reached without passing an error block
                pass
        reach_ok = fn.reach_from([0], cut_blocks=eb)
        for r in fn.return_blocks():
            if r in st and r in reach_ok:
                out |= st[r]
        return act, out, wit

    def chain(self, i, limit=12):
        """call chain from instance i to the first protected action performed in state Before"""
        out = []
        seen = set()
        while i is not None and i not in seen and len(out) < limit:
            seen.add(i)
            w = self.first.get(i)
            fn = self.facts.fns.get(self.facts.instances[i]['fn'])
            if w is None:
                out.append((self.facts.instances[i]['fn'], None))
                break
            bb, c = w
            loc = None
            if fn is not None and bb is not None:
                loc = fn.loc(fn.blocks[bb]['term']['span'])
            out.append((self.facts.instances[i]['fn'], loc))
            i = c
        return out
