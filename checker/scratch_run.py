import sys, time, argparse
import os; sys.path.insert(0, os.path.dirname(os.path.abspath(__file__)))
from model import Facts
from analyses import Effects
from core import Report
from extract import extract
import importlib
ap=argparse.ArgumentParser(); ap.add_argument('rule'); ap.add_argument('--repo',default='/repo'); ap.add_argument('--config',default='default'); ap.add_argument('-q',action='store_true')
a=ap.parse_args()
class Ctx: pass

t=time.time()
api,facts,dt=extract(a.config,a.repo)
ctx=Ctx(); ctx.cache={}; ctx.repo=a.repo; ctx.facts=Facts(api,facts); ctx.effects=Effects(ctx.facts); ctx.config=a.config
if not a.q: print('extract+load',time.time()-t)
rep=Report(a.rule.upper(),a.config)
t=time.time()
for r in a.rule.split(','):
    importlib.import_module('rules.'+r).run(ctx,rep)
if not a.q:
    print('run',time.time()-t)
    print('obligations',rep.obligations,'discharged',rep.discharged,'nontrivial',len(rep.nontrivial))
    print(rep.counts); print(rep.notes)
print('MACHINERY',rep.machinery_errors)
for v in rep.violations:
    print('VIOL',v.rule,v.where,v.msg); print('    key',v.key)
    if not a.q:
        for d in v.detail: print('    ',d)
print('controls',sorted(rep.controls_hit))
