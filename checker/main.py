"""vf: entry point of the static checks.

  vf setup                         build the extractor and pre-build dependencies for every configuration
  vf check Cxx --tier quick|thorough [--repo PATH]
  vf explain <replay.json>

Exit codes: 0 = every obligation discharged (known findings are printed, not counted);
            1 = at least one violation not listed in known_findings.txt (prints VIOLATION lines);
            2 = the machinery itself is unsound for this run (never prints VIOLATION)."""
import argparse
import importlib
import json
import os
import sys
import time
import traceback

sys.path.insert(0, os.path.dirname(os.path.abspath(__file__)))

from analyses import Effects  # noqa: E402
from core import VERIF, Report, load_known, tree_sha  # noqa: E402
from extract import CONFIGS, ExtractError, build_driver, extract  # noqa: E402
from model import Facts  # noqa: E402
import props  # noqa: E402


class Ctx:
    pass


def load_ctx(config, repo):
    api, facts, dt = extract(config, repo)
    ctx = Ctx()
    ctx.config = config
    ctx.repo = repo
    ctx.facts = Facts(api, facts)
    import analyses
    analyses.CURRENT_FACTS = ctx.facts
    ctx.effects = Effects(ctx.facts)
    ctx.extract_s = dt
    ctx.cache = {}
    return ctx


def audit(ctx, rep):
    """machinery-level sanity of one extraction (exit 2 when violated)"""
    f = ctx.facts
    if f.api.get('unsafe_fns', 0) != 0:
        rep.machinery('AUDIT fatfs declares unsafe fns: call graph completeness is no longer guaranteed')
    if f.api.get('indirect_calls', 0) != 0:
        # resolved to the functions the program itself turns into pointers (model.Facts); anything else is unknown code
        sites = {k: v for k, v in f.indirect_sites.items() if k[0].startswith(('fatfs::', '<fatfs::'))}
        if len(sites) < f.api['indirect_calls'] or not all(sites.values()):
            rep.machinery('AUDIT fatfs contains calls through function pointers that no reified function of the program '
                          'matches (%d sites, %d resolved)' % (f.api['indirect_calls'], sum(1 for v in sites.values() if v)))
    if ctx.effects.n_dev_leaves < 4:
        rep.machinery('AUDIT device leaves missing from the instance graph (%d)' % ctx.effects.n_dev_leaves)
    # coverage of the public API by the witness roots
    reached = {i['fn'] for i in f.instances}
    missing = []
    for name in sorted(f.public_fns):
        if name in reached:
            continue
        fn = f.fns.get(name)
        if fn is None:
            continue
        expn = fn.span.get('expn') or ''
        if expn.startswith('derive') or expn in ('bitflags', '__impl_bitflags', '__impl_public_bitflags',
                                                 '__impl_public_bitflags_forward', '__impl_public_bitflags_ops',
                                                 '__impl_public_bitflags_iter', '__impl_internal_bitflags',
                                                 '__impl_public_bitflags_consts', '__bitflags_flag') or 'bitflags' in expn:
            continue
        if fn.impl_trait and fn.impl_trait.startswith(('core::clone', 'core::fmt', 'core::cmp', 'core::default',
                                                       'core::hash', 'core::marker')):
            continue
        missing.append(name)
    if missing:
        rep.machinery('AUDIT uncovered public API (no witness root reaches it): ' + ', '.join(missing[:12]))
    return len(reached)


def evaluate(pid, configs, repo, ctx_cache=None):
    """run the rule modules of one property under the given configurations; returns (reports, skipped, machinery,
    fn_count, inst_count) or None when the default configuration cannot be extracted"""
    spec = props.PROPS[pid]
    reports = []
    skipped = []
    machinery = []
    fn_count = inst_count = 0
    for cfg in configs:
        try:
            if ctx_cache is not None and cfg in ctx_cache:
                ctx = ctx_cache[cfg]
            else:
                ctx = load_ctx(cfg, repo)
                if ctx_cache is not None:
                    ctx_cache[cfg] = ctx
        except ExtractError as e:
            if cfg == 'default':
                print('MACHINERY: extraction failed for the default configuration\n' + str(e), file=sys.stderr)
                return None
            skipped.append(cfg)
            continue
        rep = Report(pid, cfg)
        try:
            inst_count = max(inst_count, audit(ctx, rep))
            fn_count = max(fn_count, len(ctx.facts.fatfs_fns()))
            for modspec in spec['modules']:
                if isinstance(modspec, (tuple, list)):
                    modname, only = modspec[0], tuple(modspec[1])
                    mod = importlib.import_module('rules.' + modname)
                    sub = Report(pid, cfg)
                    mod.run(ctx, sub)
                    rep.merge_rules(sub, only)
                else:
                    mod = importlib.import_module('rules.' + modspec)
                    mod.run(ctx, rep)
            # positive controls / floors only in the configuration that has them
            for rule in spec.get('controls', ()):
                if rule not in rep.controls_hit:
                    rep.machinery('RULE-DEAD rule %s did not report its positive control' % rule)
            for rule, n in spec.get('floors', {}).get(cfg, {}).items():
                rep.floor(rule, n)
        except Exception:
            rep.machinery('EXCEPTION in rules: ' + traceback.format_exc())
        reports.append(rep)
        machinery += ['[%s] %s' % (cfg, m) for m in rep.machinery_errors]
    return reports, skipped, machinery, fn_count, inst_count


def run_property(pid, tier, repo):
    t0 = time.time()
    spec = props.PROPS[pid]
    configs = spec['quick_configs'] if tier == 'quick' else spec['thorough_configs']
    known, fixed = load_known()
    ev0 = evaluate(pid, configs, repo)
    if ev0 is None:
        return 2, None
    reports, skipped, machinery, fn_count, inst_count = ev0
    selftest = []
    if tier == 'thorough' and os.environ.get('VF_NO_SELFTEST') != '1':
        import selftest as st
        selftest, st_errors = st.run_for_property(pid, repo)
        machinery += st_errors
    # merge violations across configurations by key
    merged = {}
    for rep in reports:
        for v in rep.violations:
            if v.key in merged:
                merged[v.key].config += ',' + rep.config
            else:
                merged[v.key] = v
    # a rule that could not find what it is anchored on (a function, a call, the shape it reads) did not show its clause:
    # that is a finding about the tree, reported like one - not an unsoundness of the machinery (audits, dead rules and
    # exceptions stay machinery errors, exit 2)
    from core import Violation
    import re as _re
    anchors = [m for m in machinery if _re.search(r'\] (ANCHOR|FLOOR)', m)]
    machinery = [m for m in machinery if m not in anchors]
    for m in anchors:
        txt = m.split('] ', 1)[-1]
        key = 'ANCHOR|' + _re.sub(r'\d+', 'N', txt)[:120]
        if key not in merged:
            merged[key] = Violation(pid, 'ANCHOR', key, 'src/', 'a rule of this check could not be evaluated on this tree, so the clause it '
                                    'decides is not shown to hold: ' + txt, config=m.split(']')[0].lstrip('['))
    unknown = []
    known_hits = []
    for key, v in merged.items():
        if (pid, key) in known:
            known_hits.append((v, known[(pid, key)]))
        else:
            unknown.append(v)
    # evidence
    obligations = sum(r.obligations for r in reports)
    discharged = sum(r.discharged for r in reports)
    nontrivial = set()
    samples = []
    counts = {}
    notes = []
    for r in reports:
        nontrivial |= {(r.config, ) + x for x in r.nontrivial}
        samples += r.samples
        notes += ['[%s] %s' % (r.config, n) for n in r.notes]
        for k, n in r.counts.items():
            counts['%s@%s' % (k, r.config)] = n
    wall = time.time() - t0
    ev = {
        'property_id': pid,
        'tier': tier,
        'seed': int(os.environ.get('VERIF_SEED', '0') or 0),
        'level': spec['level'],
        'coverage': {
            'obligations': obligations,
            'discharged': discharged,
            'evaluations': obligations,
            'distinct_nontrivial': len(nontrivial),
            'rule': spec['rule_text'],
            'samples': samples[:24],
            'explanation': spec['explanation'],
            'checker_cmd': 'bin/vf check %s --tier %s' % (pid, tier),
            'trusted_base': ['rustc nightly MIR (opt-level 0) and its trait resolution',
                             'the fact extractor (driver/) being faithful to that MIR',
                             'the witness crate closing the generic library with leaf device/clock types'],
            'functions_analysed': fn_count,
            'instances_reachable': inst_count,
            'configs': [r.config for r in reports],
            'configs_skipped': skipped,
            'rule_instances': counts,
            'rules_glossary': {r: t for r, t in getattr(props, 'RULE_GLOSSARY', {}).items()
                               if any(k.split('@')[0] == r or k.split('@')[0].startswith(r + '.') for k in counts)},
            'controls_hit': sorted(set().union(*[r.controls_hit for r in reports])) if reports else [],
            'known_findings': [v.key for v, _ in known_hits],
            'notes': notes[:20],
            'tree_sha': tree_sha(repo),
            'selftest': selftest,
            'exhaustive': True,
        },
        'assumptions': spec['assumptions'],
        'wall_s': round(wall, 2),
        'violations': len(unknown),
    }
    os.makedirs(os.path.join(VERIF, 'evidence'), exist_ok=True)
    with open(os.path.join(VERIF, 'evidence', pid + '.json'), 'w') as f:
        json.dump(ev, f, indent=1)
    # report
    for r in reports:
        for n in r.notes:
            print('note [%s] %s' % (r.config, n))
    print('%s %s: %d obligations, %d discharged, %d distinct non-trivial, configs=%s skipped=%s, %.1fs' %
          (pid, tier, obligations, discharged, len(nontrivial), [r.config for r in reports], skipped, wall))
    for v, what in known_hits:
        print('KNOWN-FINDING: property=%s %s [%s %s]' % (pid, what, v.rule, v.where))
    if machinery:
        for m in machinery:
            print('MACHINERY: ' + m, file=sys.stderr)
        return 2, ev
    if unknown:
        os.makedirs(os.path.join(VERIF, 'replay'), exist_ok=True)
        for i, v in enumerate(unknown):
            print('%s %s  %s' % (pid, v.rule, v.where))
            print('    ' + v.msg)
            for d in v.detail:
                print('    ' + d)
            print('    key: ' + v.key)
            path = os.path.join(VERIF, 'replay', '%s-%d.json' % (pid, i))
            with open(path, 'w') as f:
                json.dump(v.to_json(), f, indent=1)
            print('VIOLATION property=%s replay=%s' % (pid, path))
        return 1, ev
    return 0, ev


def setup():
    build_driver()
    ok = True
    for cfg in CONFIGS:
        try:
            extract(cfg, '/repo')
            print('setup: config %s ok' % cfg)
        except ExtractError as e:
            print('setup: config %s failed to extract: %s' % (cfg, str(e)[-2000:]))
            if cfg == 'default':
                ok = False
    return 0 if ok else 2


def main():
    ap = argparse.ArgumentParser()
    sub = ap.add_subparsers(dest='cmd')
    sub.add_parser('setup')
    c = sub.add_parser('check')
    c.add_argument('pid')
    c.add_argument('--tier', default=os.environ.get('VERIF_TIER', 'quick'))
    c.add_argument('--repo', default='/repo')
    e = sub.add_parser('explain')
    e.add_argument('path')
    a = ap.parse_args()
    if a.cmd == 'setup':
        sys.exit(setup())
    if a.cmd == 'check':
        tier = a.tier if a.tier in ('quick', 'thorough') else 'quick'
        rc, _ = run_property(a.pid, tier, a.repo)
        sys.exit(rc)
    if a.cmd == 'explain':
        print(json.dumps(json.load(open(a.path)), indent=1))
        sys.exit(0)
    ap.print_help()
    sys.exit(2)


if __name__ == '__main__':
    main()
