"""Checker self-test over the seeded corpus (/verif/seeded/<id>/patch.diff): each seeded change is a realistic
edit that breaks a property while the library still builds and its test suite still passes. The thorough tier of a
property applies every seeded change that this property's check is expected to flag (seeded/EXPECT.json) to a scratch
copy of the tree under analysis and re-runs the rule modules there: the expected rule must fire.

Nothing is executed: the scratch copy is only compiled by the fact extractor. Scratch copies live under /var/tmp and
are removed immediately. Expectations are only binding for the tree they were recorded on (tree hash in EXPECT.json);
on a different tree (e.g. one that already carries another change) a miss is reported as a note, not as an error."""
import json
import os
import shutil
import subprocess
import sys
import tempfile

sys.path.insert(0, os.path.dirname(os.path.abspath(__file__)))

from core import VERIF, tree_sha  # noqa: E402
import props  # noqa: E402

SEEDED = os.path.join(VERIF, 'seeded')
EXPECT = os.path.join(SEEDED, 'EXPECT.json')
SCRATCH_ROOT = os.environ.get('VF_SCRATCH', '/var/tmp')


def load_expect():
    if not os.path.exists(EXPECT):
        return {'tree_sha': None, 'seeds': {}}
    return json.load(open(EXPECT))


def scratch_copy(repo):
    d = tempfile.mkdtemp(prefix='vf-self-', dir=SCRATCH_ROOT)
    dst = os.path.join(d, 'tree')
    shutil.copytree(repo, dst, ignore=shutil.ignore_patterns('target', '.git', '*.img', 'resources'), symlinks=True)
    return d, dst


def cleanup(d, dst):
    import hashlib
    shutil.rmtree(d, ignore_errors=True)
    rid = hashlib.sha256(os.path.abspath(dst).encode()).hexdigest()[:10]
    cache = os.path.join(VERIF, '.cache', 'work')
    if os.path.isdir(cache):
        for n in os.listdir(cache):
            if n.endswith('-' + rid):
                shutil.rmtree(os.path.join(cache, n), ignore_errors=True)


def apply_patch(dst, patch):
    r = subprocess.run(['git', 'apply', '--whitespace=nowarn', patch], cwd=dst, capture_output=True, text=True)
    return r.returncode == 0, r.stderr.strip()[-300:]


def fired_rules(pid, repo, configs, ctx_cache):
    """rules of property pid that report a violation on the tree at `repo` (None when it does not build)"""
    from main import evaluate
    from core import load_known
    ev = evaluate(pid, configs, repo, ctx_cache)
    if ev is None:
        return None, []
    reports, skipped, machinery, _, _ = ev
    known, _ = load_known()
    rules = set()
    for r in reports:
        for v in r.violations:
            if (pid, v.key) not in known:
                rules.add(v.rule)
    import re as _re
    for m in machinery:
        if _re.search(r'\] (ANCHOR|FLOOR)', m):
            rules.add('ANCHOR')  # reported as a violation by main.py (a clause that could not be evaluated)
    if machinery and os.environ.get('VF_SHOW_MACHINERY') == '1':
        rules.add('MACHINERY(%s)' % machinery[0].split(']', 1)[-1].strip()[:60])
    return rules, machinery


def run_seed(seed, pids, repo, configs_of=None):
    """{pid: sorted rules fired} for one seeded change applied to a scratch copy of repo; or a string reason when the
    change cannot be evaluated"""
    patch = seed if os.path.isabs(seed) else os.path.join(SEEDED, seed, 'patch.diff')
    d, dst = scratch_copy(repo)
    try:
        ok, err = apply_patch(dst, patch)
        if not ok:
            return 'patch does not apply to this tree (%s)' % err.splitlines()[-1:] if err else 'patch does not apply'
        out = {}
        cache = {}
        for pid in pids:
            cfgs = (configs_of or {}).get(pid) or props.PROPS[pid]['quick_configs']
            rules, mach = fired_rules(pid, dst, cfgs, cache)
            if rules is None:
                return 'the changed tree does not build under the default configuration'
            out[pid] = sorted(rules)
        return out
    finally:
        cleanup(d, dst)


def run_for_property(pid, repo):
    """self-test entries for the evidence file and machinery errors"""
    exp = load_expect()
    binding = exp.get('tree_sha') == tree_sha(repo)
    entries, errors = [], []
    for seed, e in sorted(exp.get('seeds', {}).items()):
        want = e.get('checks', {}).get(pid)
        if not want:
            continue
        cfgs = e.get('configs', {})
        res = run_seed(seed, [pid], repo, cfgs)
        if isinstance(res, str):
            entries.append({'seed': seed, 'expected': want, 'outcome': 'skipped: ' + res})
            if binding:
                errors.append('SELFTEST seeded change %s could not be evaluated: %s' % (seed, res))
            continue
        fired = res.get(pid, [])
        hit = [r for r in want if r in fired]
        entries.append({'seed': seed, 'expected': want, 'fired': fired, 'outcome': 'detected' if hit else 'MISSED'})
        if not hit:
            msg = 'SELFTEST seeded change %s is no longer reported by %s (expected one of %s, fired %s)' % (seed, pid, want, fired)
            if binding:
                errors.append(msg)
            else:
                entries[-1]['outcome'] = 'missed on a tree other than the one the expectation was recorded on'
    return entries, errors


def record(jobs=6):
    """(re)build EXPECT.json: every seeded change against every property check on the current /repo tree"""
    from concurrent.futures import ProcessPoolExecutor
    repo = '/repo'
    seeds = sorted(n for n in os.listdir(SEEDED) if os.path.exists(os.path.join(SEEDED, n, 'patch.diff')))
    pids = sorted(props.PROPS)
    old = load_expect().get('seeds', {})
    out = {'tree_sha': tree_sha(repo), 'seeds': {}}
    with ProcessPoolExecutor(max_workers=jobs) as ex:
        futs = {s: ex.submit(run_seed, s, pids, repo, old.get(s, {}).get('configs')) for s in seeds}
        for s in seeds:
            res = futs[s].result()
            if isinstance(res, str):
                out['seeds'][s] = {'checks': {}, 'note': res}
            else:
                out['seeds'][s] = {'checks': {p: r for p, r in res.items() if r}}
            if old.get(s, {}).get('configs'):
                out['seeds'][s]['configs'] = old[s]['configs']
            print(s, json.dumps(out['seeds'][s]), flush=True)
    json.dump(out, open(EXPECT, 'w'), indent=1, sort_keys=True)


def benign(jobs=6, only=None, directory=None):
    """behaviour-preserving edits (seeded/benign/*.diff): no check may report a violation on any of them"""
    from concurrent.futures import ProcessPoolExecutor
    os.environ['VF_SHOW_MACHINERY'] = '1'
    bdir = directory or os.path.join(SEEDED, 'benign')
    files = sorted(f for f in os.listdir(bdir) if f.endswith('.diff'))
    if only:
        files = [f for f in files if any(o in f for o in only)]
    pids = sorted(props.PROPS)
    bad = 0
    with ProcessPoolExecutor(max_workers=jobs) as ex:
        futs = {f: ex.submit(run_seed, os.path.join(bdir, f), pids, '/repo') for f in files}
        for f in files:
            res = futs[f].result()
            if isinstance(res, str):
                print('%-45s SKIPPED %s' % (f, res))
                bad += 1
                continue
            fired = {p: r for p, r in res.items() if r}
            print('%-45s %s' % (f, 'silent' if not fired else 'FALSE ALARM ' + json.dumps(fired)), flush=True)
            bad += bool(fired)
    return bad


if __name__ == '__main__':
    if len(sys.argv) > 1 and sys.argv[1] == 'benign':
        sys.exit(1 if benign(6, sys.argv[2:]) else 0)
    elif len(sys.argv) > 2 and sys.argv[1] == 'benign-dir':
        sys.exit(1 if benign(int(sys.argv[3]) if len(sys.argv) > 3 else 5, None, os.path.abspath(sys.argv[2])) else 0)
    elif len(sys.argv) > 1 and sys.argv[1] == 'record':
        record(int(sys.argv[2]) if len(sys.argv) > 2 else 6)
    elif len(sys.argv) > 2 and sys.argv[1] == 'seed':
        print(json.dumps(run_seed(sys.argv[2], sys.argv[3:] or sorted(props.PROPS), '/repo'), indent=1))
    else:
        print(__doc__)
