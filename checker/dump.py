import os
import sys, json
sys.path.insert(0,'/verif/checker')
from model import *
def dump(fn, blocks=None):
    T=fn.types
    for i,b in enumerate(fn.blocks):
        if b['cleanup'] or i not in fn.reachable(): continue
        if blocks and i not in blocks: continue
        print('bb%d:'%i)
        for s in b['stmts']:
            if s['k']=='assign':
                rv=s['rv']; k=rv['k']
                if k in('use','cast','unop','repeat'): r='%s %s'%(k if k!='use' else '',op_str(rv['a'],fn))
                elif k=='binop': r='%s(%s, %s)'%(rv['op'],op_str(rv['a'],fn),op_str(rv['b'],fn))
                elif k in('ref','rawptr'): r='&%s%s'%('mut ' if rv.get('mut') else '',place_str(rv['p'],fn))
                elif k=='discr': r='discr(%s)'%place_str(rv['p'],fn)
                elif k=='agg': r='%s(%s)'%((rv.get('adt','')+'::'+rv.get('variant','')) if rv['ak']=='adt' else rv['ak']+(' '+rv.get('def','') if rv['ak']=='closure' else ''), ', '.join(op_str(o,fn) for o in rv['ops']))
                else: r=k
                print('    %s = %s   @%d'%(place_str(s['lhs'],fn),r,s['span']['line']))
            elif s['k']=='setdiscr': print('    setdiscr %s = %d'%(place_str(s['lhs'],fn),s['vi']))
        t=b['term']; k=t['k']
        if k=='call': print('    -> %s = call %s(%s) -> bb%s  @%d %s'%(place_str(t['dest'],fn),t.get('callee'),', '.join(op_str(a,fn) for a in t['args']),t.get('ret'),t['span']['line'],t['span'].get('expn') or ''))
        elif k=='switch': print('    -> switch %s %s otherwise bb%d'%(op_str(t['discr'],fn),t['targets'],t['otherwise']))
        elif k=='drop': print('    -> drop %s -> bb%d'%(place_str(t['place'],fn),t['ret']))
        elif k=='assert': print('    -> assert %s %s(%s) -> bb%d @%d'%(op_str(t['cond'],fn),t['msg']['kind']+':'+t['msg'].get('op',''),', '.join(op_str(o,fn) for o in t['msg']['ops']),t['ret'],t['span']['line']))
        elif k=='goto': print('    -> goto bb%d'%t['ret'])
        else: print('    ->',k)
if __name__=='__main__':
    cfg=sys.argv[3] if len(sys.argv)>3 else 'default'
    from extract import extract
    api, facts, _ = extract(cfg, os.environ.get('VF_REPO', '/repo')); F=Facts(api, facts)
    names=[n for n in F.fns if sys.argv[1] in n]
    if len(names)>1 and sys.argv[1] in names: names=[sys.argv[1]]
    for n in names:
        print('=====',n, F.fns[n].file(), F.fns[n].span['line'])
        if len(sys.argv)>2 and sys.argv[2]!='-': dump(F.fns[n], set(int(x) for x in sys.argv[2].split(',')))
        elif len(names)<4: dump(F.fns[n])
