"""Bit-provenance abstract interpretation (A12).

Bit-packing code (FAT12 entries, FAT32 reserved bits, DOS date / time words, the two halves of a first-cluster number)
only moves bits: shifts and masks by constants, `|`, widening and truncating casts. For such code the value of every
bit of every integer is, exactly, one of: constant 0, constant 1, bit k of a named input, or unknown. This module
computes that description for every acyclic success path of a function and lets a rule compose a writer with a
reader (substitute the writer's output for the reader's input) to decide a round trip for *all* values at once.

Domain: a value of width W is a tuple of W bits (least significant first); a bit is 0, 1, ('in', name, k) or None
(unknown). Arithmetic whose operands are not both constant yields a fresh named input (its result is opaque) whose
high bits can be limited by a caller-supplied width (from the interval analysis), so that `(year - 1980) << 9` is
"seven opaque bits at position 9".  Nothing is executed; no solver is involved."""
from model import op_const, op_place, place_key


def const_bits(v, w):
    v &= (1 << w) - 1
    return tuple((v >> i) & 1 for i in range(w))


def input_bits(name, w, known_width=None):
    kw = w if known_width is None else min(w, known_width)
    return tuple(('in', name, i) if i < kw else 0 for i in range(w))


def is_const(bv):
    return bv is not None and all(b in (0, 1) for b in bv)


def to_int(bv):
    return sum(b << i for i, b in enumerate(bv))


def resize(bv, w):
    if bv is None:
        return None
    if len(bv) >= w:
        return tuple(bv[:w])
    return tuple(bv) + (0, ) * (w - len(bv))


def b_and(a, b):
    def one(x, y):
        if x == 0 or y == 0:
            return 0
        if x == 1:
            return y
        if y == 1:
            return x
        return x if x == y else None
    return tuple(one(x, y) for x, y in zip(a, b))


def b_or(a, b):
    def one(x, y):
        if x == 1 or y == 1:
            return 1
        if x == 0:
            return y
        if y == 0:
            return x
        return x if x == y else None
    return tuple(one(x, y) for x, y in zip(a, b))


def b_shl(a, n):
    w = len(a)
    return tuple(([0] * n + list(a))[:w]) if n < w else (0, ) * w


def b_shr(a, n):
    w = len(a)
    return tuple(list(a[n:]) + [0] * min(n, w))


def disjoint(a, b):
    return all(x == 0 or y == 0 for x, y in zip(a, b))


def substitute(bv, mapping):
    """replace ('in', name, k) bits by mapping[name][k] (bits of names not in the mapping stay)"""
    out = []
    for b in bv:
        if isinstance(b, tuple) and b[1] in mapping:
            src = mapping[b[1]]
            out.append(src[b[2]] if b[2] < len(src) else 0)
        else:
            out.append(b)
    return tuple(out)


def width_of(fn, ty_ix):
    t = fn.ty(ty_ix) if ty_ix is not None else None
    if t and t.get('k') == 'int':
        return t['bits']
    if t and t.get('k') == 'bool':
        return 1
    return None


class Paths:
    """success paths of one function with the bit provenance of everything it reads, writes and returns"""

    def __init__(self, fn, param_names=None, param_widths=None, arith_widths=None, max_paths=64, field_inputs=True):
        self.fn = fn
        self.param_widths = param_widths or {}
        self.arith_widths = arith_widths or {}
        self.max_paths = max_paths
        self.field_inputs = field_inputs
        self.paths = []
        self.incomplete = False
        self._back = set(fn.back_edges())
        env = {}
        for i in range(1, fn.argc + 1):
            w = width_of(fn, fn.locals[i]['ty'])
            if w:
                nm = (param_names or {}).get(i) or fn.locals[i].get('name') or 'p%d' % i
                env[(i, ())] = input_bits(nm, w, self.param_widths.get(nm))
        self._dfs(0, env, {}, {'reads': [], 'writes': [], 'calls': [], 'ret': None, 'fields': {}, 'arith': []}, 0, frozenset())

    # ---- helpers
    def _ty_of_place(self, p):
        from analyses import place_prefix_type
        return place_prefix_type(self.fn, p, len(p['p']))

    def _w_of_place(self, p):
        t = self._ty_of_place(p)
        if t and t.get('k') == 'int':
            return t['bits']
        if t and t.get('k') in ('bool', ):
            return 1
        return None

    def _read_place(self, env, p):
        pk = place_key(p)
        if pk in env:
            return env[pk]
        # payload of a Result / Option / ControlFlow carrier: `(x as Ok).0`
        if len(pk[1]) >= 2 and pk[1][-2][0] == 'dc' and pk[1][-1][0] == 'f' and pk[1][-2][1] in ('Ok', 'Some', 'Continue'):
            base = (pk[0], pk[1][:-2])
            if ('payload', base) in env:
                return env[('payload', base)]
        w = self._w_of_place(p)
        if w is None:
            return None
        # payload of an enum-typed parameter (`FatValue::Data(n)`): a named input - also through a plain moved copy of the
        # parameter (the argument of a helper that was inlined)
        base_l = pk[0]
        for _ in range(4):
            if ('alias', base_l) in env:
                base_l = env[('alias', base_l)]
        if 1 <= base_l <= self.fn.argc and len(pk[1]) == 2 and pk[1][0][0] == 'dc' and pk[1][1][0] == 'f':
            nm = '%s.%s.%s' % (self.fn.locals[base_l].get('name') or 'p%d' % base_l, pk[1][0][1], pk[1][1][1])
            return input_bits(nm, w, self.param_widths.get(nm))
        # a field read through self / a struct parameter: a named input
        names = [e.get('n') for e in p['p'] if 'f' in e and e.get('n') is not None]
        if self.field_inputs and names and not names[-1].isdigit():
            nm = 'field:' + names[-1]
            return input_bits(nm, w, self.param_widths.get(nm))
        return (None, ) * w

    def _read_operand(self, env, o, want_w=None):
        c = op_const(o)
        if c is not None:
            w = width_of(self.fn, c.get('ty')) or want_w
            if c.get('val') is not None and w:
                return const_bits(c['val'], w)
            return None
        p = op_place(o)
        return self._read_place(env, p) if p is not None else None

    def _fresh(self, acc, kind, w, operands, span):
        name = 'arith#%d:%s' % (len(acc['arith']), kind)
        kw = self.arith_widths.get((kind, span.get('line'))) or self.arith_widths.get(kind)
        acc['arith'].append({'name': name, 'op': kind, 'operands': operands, 'line': span.get('line')})
        return input_bits(name, w, kw)

    # ---- transfer
    def _assign(self, env, acc, s):
        lhs, rv = s['lhs'], s['rv']
        lk = place_key(lhs)
        w = self._w_of_place(lhs)
        k = rv['k']
        val = None
        if k == 'use':
            val = self._read_operand(env, rv['a'], w)
            p = op_place(rv['a'])
            if val is None and p is not None:
                # non-integer move: carry a payload / tuple parts along
                src = place_key(p)
                if not src[1] and not lk[1]:
                    env[('alias', lk[0])] = src[0]
                for k2 in [k2 for k2 in env if isinstance(k2, tuple) and k2[0] == 'payload' and k2[1] == src]:
                    env[('payload', lk)] = env[k2]
                for k2 in [k2 for k2 in list(env) if isinstance(k2[0], int) and k2[0] == src[0] and k2[1][:len(src[1])] == src[1] and k2 != src]:
                    env[(lk[0], lk[1] + k2[1][len(src[1]):])] = env[k2]
        elif k == 'cast':
            v = self._read_operand(env, rv['a'])
            val = resize(v, w) if v is not None and w else None
        elif k == 'unop':
            v = self._read_operand(env, rv['a'], w)
            if rv.get('op') == 'Not' and is_const(v):
                val = const_bits(~to_int(v), len(v))
        elif k == 'binop':
            op = rv['op'].replace('WithOverflow', '').replace('Unchecked', '')
            a = self._read_operand(env, rv['a'], w)
            b = self._read_operand(env, rv['b'], w)
            aw = len(a) if a is not None else (len(b) if b is not None else w)
            res = None
            if a is not None and b is not None and len(a) != len(b) and op in ('Shl', 'Shr'):
                pass
            if a is not None and b is not None:
                if op == 'BitAnd' and len(a) == len(b):
                    res = b_and(a, b)
                elif op == 'BitOr' and len(a) == len(b):
                    res = b_or(a, b)
                elif op in ('Shl', 'Shr') and is_const(b):
                    res = b_shl(a, to_int(b)) if op == 'Shl' else b_shr(a, to_int(b))
                elif is_const(a) and is_const(b) and op in ('Add', 'Sub', 'Mul'):
                    x, y = to_int(a), to_int(b)
                    res = const_bits({'Add': x + y, 'Sub': x - y, 'Mul': x * y}[op], len(a))
                elif op == 'Add' and len(a) == len(b) and disjoint(a, b):
                    res = b_or(a, b)
                elif op == 'Mul' and is_const(b) and to_int(b) and to_int(b) & (to_int(b) - 1) == 0:
                    res = b_shl(a, to_int(b).bit_length() - 1)
                elif op == 'Div' and is_const(b) and to_int(b) and to_int(b) & (to_int(b) - 1) == 0:
                    res = b_shr(a, to_int(b).bit_length() - 1)
                elif op == 'Rem' and is_const(b) and to_int(b) and to_int(b) & (to_int(b) - 1) == 0:
                    res = b_and(a, const_bits(to_int(b) - 1, len(a)))
            if res is None and op in ('Add', 'Sub', 'Mul', 'Div', 'Rem') and aw:
                res = self._fresh(acc, op, aw, (a, b), s['span'])
            if rv['op'].endswith('WithOverflow') and res is not None:
                env[(lk[0], lk[1] + (('f', 0, '0'), ))] = res
                env[(lk[0], lk[1] + (('f', 1, '1'), ))] = (0, )
                return
            val = res
        elif k == 'agg':
            if rv.get('ak') == 'adt' and rv.get('variant') in ('Ok', 'Some', 'Continue') and rv['ops']:
                v = self._read_operand(env, rv['ops'][0])
                if v is not None:
                    env[('payload', lk)] = v
                elif op_place(rv['ops'][0]) is not None:
                    src = place_key(op_place(rv['ops'][0]))
                    for k2 in [k2 for k2 in list(env) if isinstance(k2[0], int) and k2[0] == src[0] and k2[1][:len(src[1])] == src[1]]:
                        env[('payload', (lk[0], lk[1] + k2[1][len(src[1]):]))] = env[k2]
                if lk == (0, ()):
                    acc['ret'] = v if v is not None else {kk[1][1]: vv for kk, vv in env.items() if kk[0] == 'payload' and kk[1][0] == 0 and kk[1][1]}
            elif rv.get('ak') in ('tuple', 'adt') and rv.get('ak') == 'tuple':
                for i, o in enumerate(rv['ops']):
                    v = self._read_operand(env, o)
                    if v is not None:
                        env[(lk[0], lk[1] + (('f', i, str(i)), ))] = v
                if lk == (0, ()):
                    acc['ret'] = tuple(self._read_operand(env, o) for o in rv['ops'])
            elif rv.get('ak') == 'adt' and rv.get('fields'):
                rec = {}
                for fname, o in zip(rv['fields'], rv['ops']):
                    v = self._read_operand(env, o)
                    rec[fname] = v
                acc['fields'][rv['adt']] = rec
                if lk == (0, ()):
                    acc['ret'] = rec
        if w is None and val is None:
            return
        if val is None:
            env.pop(lk, None)
        else:
            env[lk] = val
            if lhs['p']:
                names = [e.get('n') for e in lhs['p'] if 'f' in e and e.get('n') is not None]
                if names and not names[-1].isdigit():
                    acc['fields'].setdefault('store', {})[names[-1]] = val
            if lk == (0, ()):
                acc['ret'] = val

    def _dfs(self, b, env, assume, acc, depth, seen):
        fn = self.fn
        if len(self.paths) >= self.max_paths or depth > 400:
            self.incomplete = True
            return
        env = dict(env)
        acc = {'reads': list(acc['reads']), 'writes': list(acc['writes']), 'calls': list(acc['calls']), 'ret': acc['ret'],
               'fields': {k: dict(v) for k, v in acc['fields'].items()}, 'arith': list(acc['arith'])}
        blk = fn.blocks[b]
        for s in blk['stmts']:
            if s['k'] == 'assign':
                self._assign(env, acc, s)
        t = blk['term']
        k = t['k']
        if k == 'return':
            self.paths.append({'assume': dict(assume), 'reads': acc['reads'], 'writes': acc['writes'], 'calls': acc['calls'],
                               'ret': acc['ret'], 'fields': acc['fields'], 'arith': acc['arith']})
            return
        if k in ('goto', 'drop', 'assert'):
            if (b, t['ret']) in self._back or t['ret'] in seen:
                self.incomplete = True
                return
            self._dfs(t['ret'], env, assume, acc, depth + 1, seen | {b})
            return
        if k == 'switch':
            d = self._read_operand(env, t['discr'])
            p = op_place(t['discr'])
            # discriminant of a Result / ControlFlow carrier: follow the success arm only
            carrier = None
            if p is not None:
                src = self._discr_source(b, p)
                if src is not None:
                    carrier = src
            if carrier is not None:
                ty = self._ty_of_place(carrier)
                path = (ty or {}).get('path', '')
                if path.endswith(('result::Result', 'control_flow::ControlFlow')):
                    tgt = next((tb for v, tb in t['targets'] if v == 0), None)
                    if tgt is not None:
                        self._dfs(tgt, env, assume, acc, depth + 1, seen | {b})
                    return
            if d is not None and is_const(d):
                v = to_int(d)
                tgt = next((tb for val, tb in t['targets'] if val == v), t['otherwise'])
                self._dfs(tgt, env, assume, acc, depth + 1, seen | {b})
                return
            # one unknown bit decides: record what each arm assumes about it
            unknown = [(i, x) for i, x in enumerate(d or ()) if x not in (0, 1)]
            for val, tb in t['targets']:
                a2 = dict(assume)
                if d is not None and len(unknown) == 1 and isinstance(unknown[0][1], tuple):
                    a2[unknown[0][1]] = (val >> unknown[0][0]) & 1
                self._dfs(tb, env, a2, acc, depth + 1, seen | {b})
            a2 = dict(assume)
            if d is not None and len(unknown) == 1 and isinstance(unknown[0][1], tuple) and len(t['targets']) == 1:
                a2[unknown[0][1]] = 1 - ((t['targets'][0][0] >> unknown[0][0]) & 1)
            self._dfs(t['otherwise'], env, a2, acc, depth + 1, seen | {b})
            return
        if k == 'call':
            callee = t.get('callee') or ''
            dest = place_key(t['dest'])
            short = callee.rsplit('::', 1)[-1]
            dw = self._w_of_place(t['dest'])
            args = [self._read_operand(env, a) for a in t['args']]
            if callee.endswith(('FromResidual::from_residual', )) or t.get('ret') is None:
                return  # error exit / diverging call: not a success path
            if callee in ('core::convert::From::from', 'core::convert::Into::into') and dw and args and args[0] is not None:
                env[dest] = resize(args[0], dw)
            elif callee.endswith('Try::branch') and t['args']:
                p = op_place(t['args'][0])
                if p is not None and ('payload', place_key(p)) in env:
                    env[('payload', dest)] = env[('payload', place_key(p))]
            elif short in ('read_u8', 'read_u16_le', 'read_u32_le'):
                w = {'read_u8': 8, 'read_u16_le': 16, 'read_u32_le': 32}[short]
                name = 'read#%d' % len(acc['reads'])
                acc['reads'].append(name)
                env[('payload', dest)] = input_bits(name, w)
            elif short in ('write_u8', 'write_u16_le', 'write_u32_le') and len(args) >= 2:
                acc['writes'].append(args[1])
            else:
                acc['calls'].append((callee, args))
                if dw:
                    env[dest] = input_bits('call:%s#%d' % (short, len(acc['calls']) - 1), dw)
                else:
                    rt = self._ty_of_place(t['dest'])
                    if rt and rt.get('k') == 'adt' and rt.get('path', '').endswith(('result::Result', 'option::Option')) and rt.get('args'):
                        iw = width_of(fn, rt['args'][0])
                        if iw:
                            env[('payload', dest)] = input_bits('call:%s#%d' % (short, len(acc['calls']) - 1), iw)
            if (b, t['ret']) in self._back or t['ret'] in seen:
                self.incomplete = True
                return
            self._dfs(t['ret'], env, assume, acc, depth + 1, seen | {b})
            return
        # unreachable / other: not a success path

    def _discr_source(self, b, p):
        """place whose discriminant the local p holds (assigned in this block)"""
        for s in reversed(self.fn.blocks[b]['stmts']):
            if s['k'] == 'assign' and place_key(s['lhs']) == place_key(p) and s['rv']['k'] == 'discr':
                return s['rv']['p']
        return None

