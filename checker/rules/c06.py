"""C06 - formatting yields a valid empty volume (DESIGN.md section 4, V1-V5).

Decided (structure of format_volume and of the layout code, on every path):

V0  no panic site in the formatting path is left undischarged (interval analysis from the format roots, with the ranges
    the option setters establish; sites that depend on the sizing arithmetic are discharged only through a reasoned
    table entry)
V1  validate-before-write: every device write of format_volume is dominated by the Ok edge of format_boot_sector and by
    the not-an-error edge of the boot sector's own validation (strict)
V2  the pure layout code (everything reachable from format_boot_sector) and format_volume itself construct no error
    other than InvalidInput
V3  both boot-sector copies are serialisations of one value; the second is on the FAT32 arm, behind a seek that depends
    on backup_boot_sector()
V4  initialisation on every Ok path: FAT area zeroed (length from sectors_per_all_fats), format_fat, root area zeroed
    (length from root_dir_sectors); on the FAT32 arm root cluster allocated, a whole cluster zeroed (length from
    cluster_size), FS-info written with free = total_clusters - 1 and next_free = root + 1; on the label arm a
    VOLUME_ID entry with the label is written at the start of the root directory
V5  64-bit quantities are only narrowed with `as` where the interval analysis proves the value fits (the device size
    behind the `> u32::MAX` rejection) or a reasoned table entry exists
FT1 (rules/fattype.py) the FAT-width decision table of FatType::from_clusters

Not decided: that the sizing heuristics produce a satisfiable layout for every size (numeric), mountability of the result.
"""
from analyses import Deps, edge_dominates, error_blocks, label_results, nonzero_targets, place_prefix_type, switch_source, \
    zero_targets
from core import vkey
from intervals import Analysis, FnCtx, fmt, type_range
from model import op_const, op_place
from rules import panics

FV = 'fatfs::fs::format_volume'
FBS = 'fatfs::boot_sector::format_boot_sector'
VALIDATE = 'fatfs::boot_sector::BootSector::validate'
SERIALIZE = 'fatfs::boot_sector::BootSector::serialize'
# inside the sizing arithmetic only the division / remainder sites are analysed (a zero divisor panics in every build)
DIV_KINDS = ('assert:div0', 'assert:rem0')

# narrowing `as` casts in the formatting code that the interval analysis cannot prove: (function, snippet fragment) -> reason
CAST_BELIEFS = [
    # (function, required local names in the operand's dependence, required callee suffixes, reason)
    ('fatfs::boot_sector::determine_sectors_per_fat', {'t1', 't2'}, set(),
     'sectors_per_fat = ceil((t0 + 2*spc) / (entries per cluster + fats)) with a divisor >= 2 and t0 + 2*spc < 2^32 + 510: '
     'the quotient is below 2^32'),
    ('fatfs::boot_sector::determine_bytes_per_cluster', {'total_bytes'}, {'next_power_of_two'},
     'a power of two derived from the volume size, immediately clamped to [bytes_per_sector, 32 KiB]: a truncated value is '
     'still clamped to a legal cluster size and an unsuitable one is rejected by try_fs_layout (InvalidInput)'),
]


def in_v0_scope(fname, site, lscope):
    """V0 covers everything outside the sizing code, all of the sizing code's own functions (determine_*,
    try_fs_layout, format_bpb, format_boot_sector, estimate_fat_type), and the division sites of the BPB / FatType
    methods they call on the not-yet-validated BPB (the other sites of those methods are analysed in their
    post-validation contexts only)"""
    if fname not in lscope:
        return True
    if site['kind'] in DIV_KINDS:
        return True
    return not fname.startswith(UNVALIDATED_METHODS)


UNVALIDATED_METHODS = ('fatfs::boot_sector::BiosParameterBlock::', 'fatfs::fs::FatType::')


def calls_of(toks):
    return {tk[1].rsplit('::', 1)[-1] for tk in toks if tk[0] == 'call'}


def layout_scope(facts):
    """functions statically reachable from format_boot_sector inside fatfs"""
    seen, work = set(), [FBS]
    while work:
        n = work.pop()
        if n in seen or n not in facts.fns or facts.fns[n].crate != 'fatfs':
            continue
        seen.add(n)
        fn = facts.fns[n]
        for b, t in fn.calls():
            c = t.get('callee')
            if c:
                work.append(c)
        for bi in fn.reachable():
            for s in fn.blocks[bi]['stmts']:
                if s['k'] == 'assign' and s['rv']['k'] == 'agg' and s['rv'].get('ak') == 'closure':
                    work.append(s['rv']['def'])
    return seen


def ok_reach_avoiding(fn, start, cut_call_blocks, extra_cut_edges=()):
    cut = set(extra_cut_edges)
    for b in cut_call_blocks:
        cut |= {(b, x) for x in fn.succ(b)}
    return fn.reach_from(start, cut_blocks=error_blocks(fn), cut_edges=cut)


def run(ctx, rep):
    facts, eff = ctx.facts, ctx.effects
    F = facts.fns.get(FV)
    B = facts.fns.get(FBS)
    if F is None or B is None:
        rep.machinery('ANCHOR-MISSING format_volume / format_boot_sector')
        return
    d = Deps(F)
    lab = label_results(F)
    calls = list(F.calls())

    def sites(suffix):
        return [(b, t) for b, t in calls if (t.get('callee') or '').endswith(suffix)]

    # ---------------- V0 panic sites of the formatting path (outside the sizing arithmetic)
    roots = [iid for n, iid in sorted(facts.roots.items()) if n.rsplit('::', 1)[-1].startswith('root_fmt_')]
    lscope = layout_scope(facts)
    if not roots:
        rep.machinery('ANCHOR-MISSING format roots')
    else:
        from rules.c17 import validated_bpb_fields
        base = dict(validated_bpb_fields(facts))
        base.update(option_invariants(facts, rep))
        col = panics.run_inventory(facts, roots, base_fields=base)
        table = panics.load_discharge_table()
        classes = panics.report_sites(rep, 'V0', col, table, prop_note='reachable while formatting',
                                      scope_pred=lambda fn, site: in_v0_scope(fn.name, site, lscope))
        skipped = len([1 for (fname, b), site in col.sites.items() if not in_v0_scope(fname, site, lscope)])
        rep.notes.append('format-path panic sites outside the layout code by discharge class: %s; %d sites inside the '
                         'sizing code (overflow sites of BPB / FatType methods called on the not yet validated BPB; %d functions reachable from format_boot_sector) are NOT analysed' % (
                             classes, skipped, len(lscope)))
        rep.counts['V0.not-analysed'] = skipped
    # ---------------- V1 validate before the first write
    fbs = sites('boot_sector::format_boot_sector')
    val = sites('BootSector::validate')
    ok_edges = set()
    vedges = set()
    mapped_closure = None
    why = []
    if len(fbs) != 1 or len(val) != 1:
        why.append('expected exactly one format_boot_sector and one validate call')
    else:
        info = lab.get(fbs[0][0])
        if not info or info['status'] != 'labelled':
            why.append('the result of format_boot_sector is not handled by `?`/match')
        else:
            ok_edges = set(info['ok'])
        vb, vt = val[0]
        strict = op_const(vt['args'][1])
        if strict is None or strict.get('val') != 1:
            why.append('the self-validation is not strict')
        # the validated value is the one produced by format_boot_sector
        if not any(('callsite', fbs[0][0]) in d.of_operand(a) for a in vt['args'][:1]):
            why.append('validate is not applied to the boot sector produced by format_boot_sector')
        # the result may first be re-labelled with map_err and then handled by `?`: the closure's value is what is forwarded
        mapped_closure = None
        for b, t in calls:
            if (t.get('callee') or '').endswith('Result::map_err') and ('callsite', vb) in d.of_operand(t['args'][0]):
                mapped_closure = [tk[1] for tk in d.of_operand(t['args'][1]) if tk[0] == 'closure']
                if b in lab and lab[b]['status'] == 'labelled':
                    vedges = set(lab[b]['ok'])
                elif vb in lab and lab[vb]['status'] == 'labelled':
                    vedges = set(lab[vb]['ok'])
        # the switch on is_err / match of the validation result
        for bi in (F.reachable() if not vedges else []):
            tt = F.blocks[bi]['term']
            if tt['k'] != 'switch':
                continue
            src = switch_source(F, bi)
            if not src:
                continue
            if src['kind'] == 'call' and (src.get('callee') or '').endswith(('Result::is_err', 'Result::is_ok')) and \
                    any(('callsite', vb) in d.of_operand(a) for a in src['term']['args']):
                good = zero_targets(tt) if src['callee'].endswith('is_err') else nonzero_targets(tt)
                vedges = {(bi, x) for x in good}
            elif src['kind'] == 'discr' and ('callsite', vb) in d.of_local(src['place']['l']) and vb in lab and \
                    lab[vb]['status'] == 'labelled':
                vedges = set(lab[vb]['ok'])
        if not vedges and vb in lab and lab[vb]['status'] == 'labelled':
            vedges = set(lab[vb]['ok'])
        if not vedges:
            why.append('no branch on the validation result')
    wsites = [(b, t) for b, t in calls if eff.fn_reaches_dev(F.name, b, 'W')]
    n_w = 0
    for b, t in wsites:
        n_w += 1
        ok = not why and edge_dominates(F, ok_edges, b) and edge_dominates(F, vedges, b)
        rep.oblige('V1', '%s|bb%d' % (F.name, b), ok=ok, nontrivial=True,
                   sample={'fn': F.name, 'at': F.loc(t['span']), 'write': (t.get('callee') or '').rsplit('::', 1)[-1]})
        if not ok:
            rep.violation('V1', vkey('V1', F.name, 'write-before-validate', (t.get('callee') or '').rsplit('::', 1)[-1]),
                          F.loc(t['span']),
                          'format_volume writes to the device (%s) on a path that has not passed the boot sector\'s own '
                          'strict validation%s' % ((t.get('callee') or '?').rsplit('::', 1)[-1], (': ' + '; '.join(why)) if why else ''))
    rep.counts['V1.writes'] = n_w
    # the validation failure is reported as InvalidInput (validate itself reports CorruptedFileSystem)
    if not why and vedges:
        sw = {b for b, _ in vedges}
        err_edges = {(b, x) for b in sw for x in F.succ(b)} - vedges
        region = [b2 for b2 in F.reachable() if edge_dominates(F, err_edges, b2)]
        builds = any(s['k'] == 'assign' and s['rv']['k'] == 'agg' and s['rv'].get('adt') == 'fatfs::error::Error' and
                     s['rv'].get('variant') == 'InvalidInput' for b2 in region for s in F.blocks[b2]['stmts'])
        forwards = any((F.blocks[b2]['term'].get('callee') or '').endswith('FromResidual::from_residual') for b2 in region)
        if mapped_closure:
            # the forwarded error is the closure's value: it must construct InvalidInput and nothing else
            vs = {s['rv'].get('variant') for c in mapped_closure if c in facts.fns for b2 in facts.fns[c].reachable()
                  for s in facts.fns[c].blocks[b2]['stmts']
                  if s['k'] == 'assign' and s['rv']['k'] == 'agg' and s['rv'].get('adt') == 'fatfs::error::Error'}
            builds, forwards = vs == {'InvalidInput'}, False
        ok = builds and not forwards
        rep.oblige('V2.validate', F.name, ok=ok, nontrivial=True)
        if not ok:
            rep.violation('V2', vkey('V2', F.name, 'validation-error-kind', ''), F.loc(val[0][1]['span']),
                          'a layout that fails the boot sector\'s self-validation must be rejected with InvalidInput; '
                          'format_volume %s' % ('forwards the validator\'s own error (CorruptedFileSystem)' if forwards
                                                else 'does not construct InvalidInput on that arm'))
    # ---------------- V2 error kinds
    scope = layout_scope(facts) | {FV}
    n_err = 0
    for name in sorted(scope):
        fn = facts.fns[name]
        for bi in sorted(fn.reachable()):
            for s in fn.blocks[bi]['stmts']:
                if s['k'] == 'assign' and s['rv']['k'] == 'agg' and s['rv'].get('adt') == 'fatfs::error::Error':
                    n_err += 1
                    v = s['rv'].get('variant')
                    ok = v == 'InvalidInput'
                    rep.oblige('V2', '%s|bb%d' % (name, bi), ok=ok, sample={'fn': name, 'at': fn.loc(s['span']), 'variant': v})
                    if not ok:
                        rep.violation('V2', vkey('V2', name, 'error-kind', v), fn.loc(s['span']),
                                      'the formatting code constructs Error::%s: an unsatisfiable request must be rejected '
                                      'with InvalidInput' % v)
    rep.counts['V2.sites'] = n_err
    if FBS not in scope or len(scope) < 8:
        rep.machinery('FLOOR layout scope has only %d functions' % len(scope))

    # ---------------- V3 boot-sector copies
    ser = sites('BootSector::serialize')
    ok, why3 = True, ''
    if len(ser) != 2:
        ok, why3 = False, 'expected two BootSector::serialize calls, found %d' % len(ser)
    else:
        roots_ = []
        for b, t in ser:
            an = Analysis(facts, F)
            p = op_place(t['args'][0])
            roots_.append(an.root_of_ref((p['l'], ())) if p is not None else None)
        if roots_[0] is None or roots_[0] != roots_[1]:
            ok, why3 = False, 'the two copies are serialised from different values'
        else:
            # the value is not modified between the two serialisations: no assignment to it after the first call
            root_local = roots_[0][0]
            between = F.reach_from([ser[0][0]]) - {ser[0][0]}
            for bi in between:
                for s in F.blocks[bi]['stmts']:
                    if s['k'] == 'assign' and s['lhs']['l'] == root_local:
                        ok, why3 = False, 'the boot sector is modified between the two copies'
                tt = F.blocks[bi]['term']
                if tt['k'] == 'call':
                    for a in tt['args']:
                        pa = op_place(a)
                        if pa is not None and not pa['p']:
                            lt = F.local_ty(pa['l'])
                            if lt['k'] == 'ref' and lt.get('mut') and an.root_of_ref((pa['l'], ()))[0] == root_local:
                                ok, why3 = False, 'the boot sector is lent mutably between the two copies'
        # second copy: on the FAT32 arm, after a seek that depends on backup_boot_sector()
        b2, t2 = ser[1]
        arm = None
        for bi in F.reachable():
            tt = F.blocks[bi]['term']
            if tt['k'] == 'switch':
                src = switch_source(F, bi)
                if src and src['kind'] == 'call' and (src.get('callee') or '').endswith('is_fat32') and \
                        edge_dominates(F, {(bi, x) for x in nonzero_targets(tt)}, b2):
                    arm = bi
        if arm is None:
            ok, why3 = False, 'the backup copy is not on the is_fat32() arm'
        seeks = [(b, t) for b, t in sites('io::Seek::seek') if 'backup_boot_sector' in calls_of(d.of_operand(t['args'][1]))
                 and 'bytes_from_sectors' in calls_of(d.of_operand(t['args'][1]))]
        if not seeks or not any(b in lab and lab[b]['status'] == 'labelled' and edge_dominates(F, set(lab[b]['ok']), b2)
                                for b, t in seeks):
            ok, why3 = False, 'the backup copy is not preceded by a seek to bytes_from_sectors(backup_boot_sector())'
        # ... and on the FAT32 arm the backup is written on every Ok path
        if arm is not None:
            nz = nonzero_targets(F.blocks[arm]['term'])
            reach = ok_reach_avoiding(F, nz, [b2])
            if any(r in reach for r in F.return_blocks()):
                ok, why3 = False, 'a FAT32 volume can be formatted without the backup boot sector being written'
    rep.oblige('V3', F.name, ok=ok, nontrivial=True)
    if not ok:
        rep.violation('V3', vkey('V3', F.name, 'boot-copies', ''), F.loc(F.span),
                      'main and backup boot sector must be two serialisations of one unmodified value: ' + why3)

    # ---------------- V4 initialisation must-calls
    def must(rule_tag, pred, start=(0, ), extra_cut=(), what=''):
        blks = [b for b, t in calls if pred(b, t)]
        ok_ = bool(blks)
        if ok_:
            reach = ok_reach_avoiding(F, list(start), blks, extra_cut)
            ok_ = not any(r in reach for r in F.return_blocks())
        rep.oblige('V4', rule_tag, ok=ok_, nontrivial=True, sample={'must': rule_tag, 'sites': blks})
        if not ok_:
            rep.violation('V4', vkey('V4', F.name, rule_tag, ''), F.loc(F.span),
                          'format_volume can return Ok without %s' % what)
        return blks

    def wz(dep_call):
        return lambda b, t: (t.get('callee') or '').endswith('fs::write_zeros') and dep_call in calls_of(d.of_operand(t['args'][1])) \
            and 'bytes_from_sectors' in calls_of(d.of_operand(t['args'][1]))

    must('zero-fat-area', wz('sectors_per_all_fats'), what='zeroing the FAT area (bytes_from_sectors(sectors_per_all_fats))')
    must('format-fat', lambda b, t: (t.get('callee') or '').endswith('table::format_fat'), what='initialising the FAT (format_fat)')
    # format_fat's geometry arguments come from the BPB
    for b, t in sites('table::format_fat'):
        a = t['args']
        ok_ = len(a) == 5 and {'sectors_per_fat', 'bytes_from_sectors'} <= calls_of(d.of_operand(a[3])) and \
            'total_clusters' in calls_of(d.of_operand(a[4])) and ('field', 'media') in d.of_operand(a[2])
        rep.oblige('V4', 'format-fat-args', ok=ok_, nontrivial=True)
        if not ok_:
            rep.violation('V4', vkey('V4', F.name, 'format-fat-args', ''), F.loc(t['span']),
                          'format_fat must be given the media byte, bytes_from_sectors(sectors_per_fat) and total_clusters '
                          'of the BPB being written')
    # FAT32 arm
    alloc = sites('table::alloc_cluster')
    arm32 = None
    if len(alloc) == 1:
        ab = alloc[0][0]
        for bi in F.reachable():
            tt = F.blocks[bi]['term']
            if tt['k'] != 'switch':
                continue
            src = switch_source(F, bi)
            if not src:
                continue
            is32 = (src['kind'] == 'call' and (src.get('callee') or '').endswith('is_fat32')) or \
                   (src['kind'] == 'call' and (src.get('callee') or '').endswith(('PartialEq::eq', 'PartialEq::ne')) and
                    any(('callsite', fbs[0][0]) in d.of_operand(a) for a in src['term']['args'])) if fbs else False
            if is32:
                arm_t = zero_targets(tt) if (src.get('callee') or '').endswith('::ne') else nonzero_targets(tt)
                if edge_dominates(F, {(bi, x) for x in arm_t}, ab):
                    arm32 = (bi, arm_t)
    # the fixed root directory area exists on FAT12/16 only (root_dir_sectors() is 0 on FAT32): the FAT32 arm is exempt
    must('zero-root-area', wz('root_dir_sectors'), extra_cut={(arm32[0], x) for x in arm32[1]} if arm32 else (),
         what='zeroing the fixed root directory area')
    if arm32 is None:
        rep.oblige('V4', 'fat32-arm', ok=False, nontrivial=True)
        rep.violation('V4', vkey('V4', F.name, 'fat32-arm', ''), F.loc(F.span),
                      'the root-cluster allocation is not on a FAT32-only arm of format_volume')
    else:
        start = arm32[1]
        must('fat32-alloc-root', lambda b, t: (t.get('callee') or '').endswith('table::alloc_cluster'), start,
             what='allocating the FAT32 root directory cluster')
        must('fat32-zero-root-cluster',
             lambda b, t: (t.get('callee') or '').endswith('fs::write_zeros') and 'cluster_size' in calls_of(d.of_operand(t['args'][1])),
             start, what='zeroing one whole cluster for the FAT32 root directory (length from cluster_size())')
        must('fat32-fsinfo', lambda b, t: (t.get('callee') or '').endswith('FsInfoSector::serialize'), start,
             what='writing the FS-information sector')
        # FS-info contents
        ok_, whyf = False, 'no FsInfoSector value constructed'
        for bi in F.reachable():
            for s in F.blocks[bi]['stmts']:
                if s['k'] == 'assign' and s['rv']['k'] == 'agg' and (s['rv'].get('adt') or '').endswith('fs::FsInfoSector'):
                    fl = dict(zip(s['rv'].get('fields') or [], s['rv']['ops']))
                    tf = d.of_operand(fl['free_cluster_count']) if 'free_cluster_count' in fl else set()
                    tn = d.of_operand(fl['next_free_cluster']) if 'next_free_cluster' in fl else set()
                    c1 = 'total_clusters' in calls_of(tf) and ('op', 'Sub') in tf and ('const', 1) in tf
                    c2 = any(('callsite', b) in tn for b, t in alloc) and ('op', 'Add') in tn and ('const', 1) in tn
                    dirty = op_const(fl.get('dirty')) if fl.get('dirty') is not None else None
                    c3 = dirty is not None and dirty.get('val') == 0
                    ok_ = c1 and c2 and c3
                    whyf = 'free = total_clusters - 1: %s, next_free = root + 1: %s, clean: %s' % (c1, c2, c3)
        rep.oblige('V4', 'fat32-fsinfo-values', ok=ok_, nontrivial=True, sample={'why': whyf})
        if not ok_:
            rep.violation('V4', vkey('V4', F.name, 'fsinfo-values', ''), F.loc(F.span),
                          'the FS-information sector of a fresh FAT32 volume must record total_clusters - 1 free clusters '
                          'and the cluster after the root as next free (%s)' % whyf)
        # the position of the root cluster and of the FS-info sector
        for tag, suffix, need in (('fat32-root-pos', 'fs::write_zeros', None), ('fat32-fsinfo-pos', 'FsInfoSector::serialize', 'fs_info_sector')):
            pass
        fsi = sites('FsInfoSector::serialize')
        seek_ok = any('fs_info_sector' in calls_of(d.of_operand(t['args'][1])) and b in lab and lab[b]['status'] == 'labelled' and
                      fsi and edge_dominates(F, set(lab[b]['ok']), fsi[0][0]) for b, t in sites('io::Seek::seek'))
        rep.oblige('V4', 'fat32-fsinfo-pos', ok=seek_ok, nontrivial=True)
        if not seek_ok:
            rep.violation('V4', vkey('V4', F.name, 'fsinfo-pos', ''), F.loc(F.span),
                          'the FS-information sector is not written behind a seek to bytes_from_sectors(fs_info_sector())')
    # label arm
    lbl = None
    for bi in F.reachable():
        tt = F.blocks[bi]['term']
        if tt['k'] == 'switch':
            src = switch_source(F, bi)
            if src and src['kind'] == 'discr' and [e.get('n') for e in src['place']['p'] if 'f' in e][-1:] == ['volume_label']:
                lbl = (bi, [x for v, x in tt['targets'] if v == 1])
    if lbl is None or not lbl[1]:
        rep.oblige('V4', 'label-arm', ok=False, nontrivial=True)
        rep.violation('V4', vkey('V4', F.name, 'label-arm', ''), F.loc(F.span), 'no branch on options.volume_label')
    else:
        must('label-entry', lambda b, t: (t.get('callee') or '').endswith('DirFileEntryData::serialize'), lbl[1],
             what='writing the volume-label entry when a label was requested')
        ok_ = False
        for b, t in sites('DirFileEntryData::new'):
            t0, t1 = d.of_operand(t['args'][0]), d.of_operand(t['args'][1])
            if ('field', 'volume_label') in t0 and (any(tk[0] == 'constpath' and tk[1].endswith('VOLUME_ID') for tk in t1) or
                                                    ('const', 8) in t1):
                ok_ = True
        rep.oblige('V4', 'label-entry-value', ok=ok_, nontrivial=True)
        if not ok_:
            rep.violation('V4', vkey('V4', F.name, 'label-entry-value', ''), F.loc(F.span),
                          'the label entry must carry the requested label and the VOLUME_ID attribute')

    # ---------------- V5 narrowing casts
    n_c = 0
    base = option_invariants(facts, None)
    for name in sorted(scope):
        fn = facts.fns[name]
        an = None
        dd = None
        for bi in sorted(fn.reachable()):
            for si, s in enumerate(fn.blocks[bi]['stmts']):
                if s['k'] != 'assign' or s['rv']['k'] != 'cast':
                    continue
                tt_ = fn.ty(s['rv']['to'])
                p = op_place(s['rv']['a'])
                if not tt_ or tt_.get('k') != 'int' or p is None:
                    continue
                oty = place_prefix_type(fn, p, len(p['p']))
                if not oty or oty.get('k') != 'int' or not (oty['bits'] > tt_['bits']):
                    continue
                n_c += 1
                if an is None:
                    an = Analysis(facts, fn, FnCtx({}, dict(base), set()), {}, 0)
                    dd = Deps(fn)
                st, rel = an.in_state.get(bi, (None, None))
                ok_, why5 = False, 'block unreachable'
                if st is not None:
                    st, rel = dict(st), dict(rel)
                    for s2 in fn.blocks[bi]['stmts'][:si]:
                        if s2['k'] == 'assign':
                            an.assign(st, rel, s2['lhs'], s2['rv'], bi)
                    v = an.read_operand(st, s['rv']['a'])
                    rng = type_range(tt_)
                    ok_ = v is not None and rng is not None and rng[0] <= v[0] and v[1] <= rng[1]
                    why5 = 'operand %s, target range %s' % (fmt(v), fmt(rng))
                how = 'interval'
                if not ok_:
                    # masked / shifted byte extraction is value-preserving by construction
                    toks = dd.of_operand(s['rv']['a'])
                    if tt_['bits'] == 8 and (('op', 'BitAnd') in toks or ('op', 'Shr') in toks) and not calls_of(toks):
                        ok_, how = True, 'byte extraction (mask / shift)'
                if not ok_:
                    toks = dd.of_operand(s['rv']['a'])
                    names = {fn.locals[tk[1]].get('name') for tk in toks if tk[0] == 'local'} - {None}
                    for bf, need, need_calls, reason in CAST_BELIEFS:
                        if bf == name and need <= names and ('op', 'Div') in toks and \
                                all(any(c.endswith(nc) for c in calls_of(toks)) for nc in need_calls):
                            ok_, how = True, 'belief: ' + reason
                rep.oblige('V5', '%s|bb%d' % (name, bi), ok=ok_, nontrivial=True,
                           sample={'fn': name, 'at': fn.loc(s['span']), 'expr': s['span']['snip'][:60], 'how': how, 'why': why5})
                if not ok_:
                    rep.violation('V5', vkey('V5', name, 'narrowing-cast', s['span']['snip']), fn.loc(s['span']),
                                  'a %d-bit value is narrowed to %d bits with `as` in the formatting code without a '
                                  'dominating range check (%s)' % (oty['bits'], tt_['bits'], why5))
    rep.counts['V5.casts'] = n_c


def option_invariants(facts, rep):
    """field ranges of FormatVolumeOptions established by its constructor and setters (their asserts are the
    documented panics of the builder API): computed from the setters themselves"""
    OPT = 'fatfs::fs::FormatVolumeOptions'
    inv = {}
    new = facts.fns.get('<%s as core::default::Default>::default' % OPT)
    setters = [f for n, f in facts.fns.items() if n.startswith(OPT + '::') and n != OPT + '::new']
    if new is None:
        return inv
    # the struct is only ever built by Default::default (fields are crate-private; derived Clone copies)
    for n, f in facts.fns.items():
        if f.crate != 'fatfs' or f is new or (f.impl_trait or '').startswith('core::clone'):
            continue
        for bi in f.reachable():
            for s in f.blocks[bi]['stmts']:
                if s['k'] == 'assign' and s['rv']['k'] == 'agg' and s['rv'].get('adt') == OPT:
                    if rep is not None:
                        rep.machinery('ANCHOR FormatVolumeOptions is constructed outside Default::default (%s): setter '
                                      'invariants no longer hold' % n)
                    return {}
    # constructor values
    ctor = {}
    for bi in new.reachable():
        for s in new.blocks[bi]['stmts']:
            if s['k'] == 'assign' and s['rv']['k'] == 'agg' and s['rv'].get('adt') == OPT:
                for fname, o in zip(s['rv'].get('fields') or [], s['rv']['ops']):
                    c = op_const(o)
                    if c is not None and c.get('val') is not None:
                        ctor[fname] = (c['val'], c['val'])
    # setters: the range of the assigned parameter after the setter's assert
    for f in setters:
        an = Analysis(facts, f)
        for bi in f.reachable():
            st, rel = an.in_state.get(bi, (None, None))
            if st is None:
                continue
            st, rel = dict(st), dict(rel)
            for s in f.blocks[bi]['stmts']:
                if s['k'] == 'assign' and s['lhs']['l'] == 1 and s['lhs']['p'] and 'f' in s['lhs']['p'][-1] and \
                        len(s['lhs']['p']) == 1 and s['rv']['k'] == 'use':
                    fname = s['lhs']['p'][-1].get('n')
                    v = an.read_operand(st, s['rv']['a'])
                    ty = place_prefix_type(f, s['lhs'], 1)
                    if fname in ctor and v is not None and ty and ty.get('k') == 'int':
                        lo, hi = ctor[fname]
                        ctor[fname] = (min(lo, v[0]), max(hi, v[1]))
                    elif fname in ctor:
                        ctor.pop(fname)
                if s['k'] == 'assign':
                    an.assign(st, rel, s['lhs'], s['rv'], bi)
    for k, v in ctor.items():
        inv[(OPT, k)] = v
    return inv


# ---------------------------------------------------------------------------------------------
# V6  FAT32 has no fixed root-directory region: the root size used for sizing / written to the BPB depends on the FAT type

def control_tokens(fn, d, locals_):
    """dependence tokens of the conditions that choose between two assignments of one of the given locals
    (`let x = if c { a } else { b }`): a switch two of whose arms reach different, non-empty sets of the local's
    assignment sites.  Early returns (an arm that reaches no assignment at all) are not choices of a value."""
    toks = set()
    per_local = {}
    for bi in fn.reachable():
        for s in fn.blocks[bi]['stmts']:
            if s['k'] == 'assign' and s['lhs']['l'] in locals_ and not s['lhs']['p']:
                per_local.setdefault(s['lhs']['l'], set()).add(bi)
        t = fn.blocks[bi]['term']
        if t['k'] == 'call' and t['dest']['l'] in locals_ and not t['dest']['p']:
            per_local.setdefault(t['dest']['l'], set()).add(bi)
    multi = {l: bs for l, bs in per_local.items() if len(bs) >= 2}
    if not multi:
        return toks
    for bi in fn.reachable():
        t = fn.blocks[bi]['term']
        if t['k'] != 'switch':
            continue
        arms = sorted(set(fn.succ(bi)))
        if len(arms) < 2:
            continue
        reach = [fn.reach_from([a], cut_blocks=[bi]) for a in arms]
        for l, bs in multi.items():
            seen = [frozenset(b for b in bs if b in r) for r in reach]
            if len({x for x in seen if x}) >= 2:
                toks |= d.of_operand(t['discr'])
                src = switch_source(fn, bi)
                if src and src.get('kind') == 'call':
                    for a in src['term']['args']:
                        toks |= d.of_operand(a)
                break
    return toks


def fat_type_locals(fn, toks):
    out = set()
    for tk in toks:
        if tk[0] == 'local':
            ty = fn.local_ty(tk[1]) or {}
            for _ in range(2):
                if ty.get('k') in ('ref', 'ptr'):
                    ty = fn.types[ty['to']]
            if ty.get('k') == 'adt' and ty.get('path', '').endswith('::FatType'):
                out.add(tk[1])
    return out


def depends_on_fat_type(fn, d, o, same_as=None, holder=None):
    """same_as: operands of FatType type passed in the same call - the dependence must be on (a local feeding) one of them;
    holder: the local the enclosing aggregate is assigned to (a struct built once per arm of a FAT-type test carries the
    dependence in *where* it is built, even when the field is a literal)"""
    toks = set(d.of_operand(o))
    locs = {tk[1] for tk in toks if tk[0] == 'local'}
    p = op_place(o)
    if p is not None:
        locs.add(p['l'])
    if holder is not None:
        locs.add(holder)
    toks |= control_tokens(fn, d, locs)
    if same_as:
        mine = fat_type_locals(fn, toks)
        theirs = set()
        for o2 in same_as:
            t2 = set(d.of_operand(o2))
            p2 = op_place(o2)
            if p2 is not None:
                t2.add(('local', p2['l']))
            theirs |= fat_type_locals(fn, t2)
        # the values must share an origin: a FatType local both derive from (the loop variable), not two unrelated ones
        def origins(ls):
            out = set(ls)
            for l in ls:
                out |= fat_type_locals(fn, d.of_local(l))
            return out
        return bool(origins(mine) & origins(theirs))
    for tk in list(toks):
        if tk[0] == 'local':
            ty = fn.local_ty(tk[1]) or {}
            for _ in range(2):
                if ty.get('k') in ('ref', 'ptr'):
                    ty = fn.types[ty['to']]
            if ty.get('k') == 'adt' and ty.get('path', '').endswith('::FatType'):
                return True
        if tk == ('field', 'fat_type'):
            return True
        if tk[0] == 'call' and tk[1].endswith(('::is_fat32', 'FatType::from_clusters')):
            return True
    return False


def run_root_region(ctx, rep):
    facts = ctx.facts
    n = 0
    lscope = layout_scope(facts)
    for name in sorted(lscope):
        fn = facts.fns.get(name)
        if fn is None:
            continue
        d = None
        sites = []
        for b, t in fn.calls():
            cal = facts.fns.get(t.get('callee') or '')
            if cal is None or cal.crate != 'fatfs' or cal.name == fn.name:
                continue
            for i in range(1, cal.argc + 1):
                if (cal.locals[i].get('name') or '') == 'root_dir_sectors' and i - 1 < len(t['args']):
                    # only callers that know the FAT type are held to it (they pass it on)
                    passes_ft = any(((cal.local_ty(j) or {}).get('path') or '').endswith('::FatType') for j in range(1, cal.argc + 1))
                    if passes_ft:
                        ft_ops = [t['args'][j - 1] for j in range(1, cal.argc + 1) if j - 1 < len(t['args']) and
                                  ((cal.local_ty(j) or {}).get('path') or '').endswith('::FatType')]
                        sites.append((b, t['span'], 'argument `root_dir_sectors` of %s' % cal.name.rsplit('::', 1)[-1], t['args'][i - 1], ft_ops))
        for bi in fn.reachable():
            for s in fn.blocks[bi]['stmts']:
                if s['k'] == 'assign' and s['rv']['k'] == 'agg' and s['rv'].get('ak') == 'adt' and s['rv'].get('fields'):
                    for fname in ('root_dir_sectors', 'root_entries'):
                        if fname in s['rv']['fields'] and ('fat_type' in s['rv']['fields'] or fname == 'root_entries'):
                            sites.append((bi, s['span'], 'field `%s` of %s' % (fname, s['rv']['adt'].rsplit('::', 1)[-1]),
                                          s['rv']['ops'][s['rv']['fields'].index(fname)], ('holder', s['lhs']['l']) if not s['lhs']['p'] else None))
        for b, span, what, o, ft_ops in sites:
            holder_ = None
            if isinstance(ft_ops, tuple) and ft_ops and ft_ops[0] == 'holder':
                holder_, ft_ops = ft_ops[1], None
            if d is None:
                d = Deps(fn)
            toks0 = d.of_operand(o)
            own = [i for i in range(1, fn.argc + 1) if (fn.locals[i].get('name') or '') in ('root_dir_sectors', 'root_entries')]
            if own and any(('param', i) in toks0 for i in own):
                continue  # handed on from this function's own parameter: judged at this function's callers
            n += 1
            ok = depends_on_fat_type(fn, d, o, ft_ops, holder=holder_)
            rep.oblige('V6', '%s|%s' % (fn.name, what), ok=ok, nontrivial=True,
                       sample={'fn': fn.name, 'at': fn.loc(span), 'what': what,
                               'rule': 'the value depends (data or control) on the FAT type'})
            if not ok:
                rep.violation('V6', vkey('V6', fn.name, what, ''), fn.loc(span),
                              'the %s in %s does not depend on the FAT type it is used for: FAT32 has no fixed root-directory region (its BPB '
                              'says 0 root entries), so a size that is the same for every FAT type mis-sizes the tables of '
                              'one of them' % (what, fn.name))
    rep.counts['V6.sites'] = n


_run_v = run


def run(ctx, rep):
    _run_v(ctx, rep)
    run_root_region(ctx, rep)
