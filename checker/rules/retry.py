"""R9.9 alone (the retry predicate), for properties that rely on transient storage errors being retried without paying
for the whole error-fate exploration of rules/c09.py."""
from rules import c09


def run(ctx, rep):
    c09.run_interrupt_predicate(ctx, rep)
