"""C17 - directory decoding is total (DESIGN.md section 4, T1-T4).

T1  every panic site reachable from listing a directory and querying an entry is discharged (interval analysis, in
    the alloc and in the fixed-buffer build)
T2  names returned never exceed 255 units: the builder compares the decoded length with the limit and falls back
T3  a broken long-name run falls back to the short name: checksum validation precedes the hand-over, an unfinished
    run is cleared, corrupted sequence numbers are rejected (decision table), skipped slots reset the run
T3b the long-name accumulator and the entry's slot range are reset together
T4  every cycle of the entry reader contains the slot read (necessary for termination)
"""
from analyses import Deps, Must, edge_dominates, switch_source, nonzero_targets, zero_targets
from core import vkey
from decision import fmt_rows
from intervals import Analysis, FnCtx
from model import op_const, op_place, place_key
from rules import dtables, panics
from rules.dtables import AnchorMissing

DECODE_ROOT_PARTS = ('root_ro_dir_iter', 'root_ro_diriter_', 'root_ro_entry_', 'root_ro_dir_open', 'root_ro_dir_clone',
                     'root_drop_entry', 'root_drop_diriter', 'root_drop_dir')
READER = 'fatfs::dir::DirIter::read_dir_entry'
BUILDER = 'fatfs::dir::LongNameBuilder'


def validated_bpb_fields(facts, with_struct_invariants=True):
    """field ranges of a BPB inside a FileSystem: what BootSector::validate establishes at its Ok exit (the only
    constructor of FileSystem runs after it; checked by C07/M2d) - plus the struct invariants that rules/invariants.py
    proves by induction (DiskSlice: offset <= size, byte counts below 2^48)"""
    cache = facts.__dict__.setdefault('_validated_cache', {})
    if with_struct_invariants in cache:
        return dict(cache[with_struct_invariants])
    facts.relations = panics.load_relations()
    V = facts.fns.get('fatfs::boot_sector::BootSector::validate')
    if V is None:
        return {}
    an = Analysis(facts, V, FnCtx({2: (0, 1)}, {}, set()), {}, 0, inst=(facts.insts_of.get(V.name) or [None])[0])
    out = dict(an.established)
    if with_struct_invariants:
        hull = {}
        try:
            # store-hull invariants of private integer / Option<integer> fields (A13b); an existing, tighter fact wins
            from rules import fieldinv
            hull, _d = fieldinv.infer(facts, dict(out))
        except Exception:
            hull = {}
        try:
            from rules import invariants
            ok, ranges, _detail = invariants.prove_diskslice(facts, hull)
            if ok:
                out.update(ranges)
        except Exception:
            pass
        for k_, v_ in hull.items():
            if k_ not in out:
                out[k_] = v_
    cache[with_struct_invariants] = dict(out)
    return out


def copy_sources(fn, local):
    """the local itself and the locals it is a plain move / copy of (through parameters of inlined helpers)"""
    out = {local}
    cur = local
    for _ in range(12):
        defs = [s for bi in fn.reachable() for s in fn.blocks[bi]['stmts']
                if s['k'] == 'assign' and s['lhs']['l'] == cur and not s['lhs']['p']]
        if len(defs) != 1 or defs[0]['rv']['k'] != 'use':
            break
        p = op_place(defs[0]['rv']['a'])
        if p is None or p['p']:
            break
        cur = p['l']
        out.add(cur)
    return out


def run(ctx, rep):
    facts = ctx.facts
    roots = [iid for n, iid in sorted(facts.roots.items())
             if any(p in n.rsplit('::', 1)[-1] for p in DECODE_ROOT_PARTS)]
    if len(roots) < 10:
        rep.machinery('FLOOR only %d decode roots' % len(roots))
        return
    base = validated_bpb_fields(facts)
    if ('fatfs::boot_sector::BiosParameterBlock', 'bytes_per_sector') not in base:
        rep.machinery('ANCHOR validated BPB invariants could not be derived from BootSector::validate')
    # ---------------- T1
    col = panics.run_inventory(facts, roots, base_fields=base)
    table = panics.load_discharge_table()
    classes = panics.report_sites(rep, 'T1', col, table, prop_note='reachable while listing a directory / querying an entry')
    rep.notes.append('decode-path panic sites by discharge class: %s (functions analysed: %d, contexts: %d)' % (
        classes, len(col.fn_contexts), sum(col.fn_contexts.values())))
    if ctx.config == 'nostd':
        return  # no long-name support in this configuration

    # ---------------- T2
    IB = facts.fns.get(BUILDER + '::into_buf')
    if IB is None:
        rep.machinery('ANCHOR-MISSING LongNameBuilder::into_buf')
    else:
        deps = Deps(IB)
        lens = [b for b, t in IB.calls() if (t.get('callee') or '').endswith('LfnBuffer::len')]
        trunc = [b for b, t in IB.calls() if (t.get('callee') or '').endswith('LongNameBuilder::truncate')]
        if not trunc:
            # the padding strip was merged into into_buf: it ends with the set_len that shortens the buffer
            trunc = [b for b, t in IB.calls() if (t.get('callee') or '').endswith('LfnBuffer::set_len')]
        clears = [b for b, t in IB.calls() if (t.get('callee') or '').endswith('LongNameBuilder::clear')]
        maxlen = facts.consts.get('fatfs::dir::MAX_LONG_NAME_LEN', {}).get('val', 255)
        ok = False
        for bi in IB.reachable():
            t = IB.blocks[bi]['term']
            if t['k'] != 'switch':
                continue
            src = switch_source(IB, bi)
            if not src or src['kind'] != 'binop' or src['op'] not in ('Gt', 'Ge', 'Lt', 'Le'):
                continue
            toks = deps.of_operand(src['a']) | deps.of_operand(src['b'])
            if not any(('callsite', b) in toks for b in lens):
                continue
            consts = [c.get('val') for c in (op_const(src['a']), op_const(src['b'])) if c]
            # which arm means "too long"?
            if src['op'] == 'Gt' and consts == [maxlen] and op_const(src['b']):
                long_edges = {(bi, x) for x in nonzero_targets(t)}
            elif src['op'] == 'Ge' and consts == [maxlen + 1] and op_const(src['b']):
                long_edges = {(bi, x) for x in nonzero_targets(t)}
            elif src['op'] == 'Le' and consts == [maxlen] and op_const(src['b']):
                long_edges = {(bi, x) for x in zero_targets(t)}
            elif src['op'] == 'Lt' and consts == [maxlen + 1] and op_const(src['b']):
                long_edges = {(bi, x) for x in zero_targets(t)}
            else:
                continue
            # on the too-long arm the builder is cleared; the test comes after the truncation
            after_trunc = all(bi not in IB.reach_from([0], cut_blocks=trunc) for _ in [0]) if trunc else False
            cleared = any(edge_dominates(IB, long_edges, c) for c in clears)
            if after_trunc and cleared:
                ok = True
        rep.oblige('T2', IB.name, ok=ok, nontrivial=True,
                   sample={'fn': IB.name, 'rule': 'decoded length compared with %d after truncation; longer runs are '
                           'cleared' % maxlen})
        if not ok:
            rep.violation('T2', vkey('T2', IB.name, 'length-bound', ''), IB.loc(IB.span),
                          'a long-name run can be handed over with more than %d units (20 slots x 13 units = 260): no '
                          'rejecting comparison of the decoded length after truncation' % maxlen)

    # ---------------- T2n fixed-buffer build: only the units of the current run are inspected
    if ctx.config == 'noalloc':
        TR = facts.fns.get(BUILDER + '::truncate')
        if TR is None and IB is not None and any((t.get('callee') or '').endswith('LfnBuffer::set_len') for b, t in IB.calls()):
            TR = IB  # merged into into_buf
        if TR is None:
            rep.machinery('ANCHOR-MISSING LongNameBuilder::truncate')
        else:
            d = Deps(TR)
            ok = False
            for b, t in TR.calls():
                if (t.get('callee') or '') in ('[T]::iter', 'core::slice::<impl [T]>::iter', '[T]::len', 'core::slice::<impl [T]>::len'):
                    toks = d.of_operand(t['args'][0])
                    if ('field', 'len') in toks or any(tk[0] == 'call' and tk[1].endswith('as_ucs2_units') for tk in toks):
                        ok = True
            # ... and the raw backing array is not scanned directly
            for bi in TR.reachable():
                for s_ in TR.blocks[bi]['stmts']:
                    if s_['k'] == 'assign' and s_['rv']['k'] == 'ref' and \
                            [e.get('n') for e in s_['rv']['p']['p'] if 'f' in e][-1:] == ['ucs2_units'] and TR is not IB:
                        pass
            rep.oblige('T2n', TR.name, ok=ok, nontrivial=True)
            if not ok:
                rep.violation('T2n', vkey('T2n', TR.name, 'bounded-scan', ''), TR.loc(TR.span),
                              'the fixed long-name buffer is scanned beyond the current run\'s length: stale units of an '
                              'earlier orphaned run can leak into the name (the alloc build cannot do this)')

    # ---------------- T3
    R = facts.fns.get(READER)
    if R is None:
        rep.machinery('ANCHOR-MISSING ' + READER)
        return
    chk = [b for b, t in R.calls() if (t.get('callee') or '').endswith('LongNameBuilder::validate_chksum')]
    into = [b for b, t in R.calls() if (t.get('callee') or '').endswith('LongNameBuilder::into_buf')]
    ok = bool(chk) and bool(into) and all(b not in R.reach_from([0], cut_blocks=chk) for b in into)
    rep.oblige('T3.chksum', READER, ok=ok, nontrivial=True)
    if not ok:
        rep.violation('T3', vkey('T3', READER, 'chksum-before-handover', ''), R.loc(R.span),
                      'a long name can be handed over without its checksum having been validated against the short '
                      'entry')
    VC = facts.fns.get(BUILDER + '::validate_chksum')
    if VC is not None:
        deps = Deps(VC)
        ok = False
        clears = [b for b, t in VC.calls() if (t.get('callee') or '').endswith('LongNameBuilder::clear')]
        sums = [b for b, t in VC.calls() if (t.get('callee') or '').endswith('lfn_checksum')]
        for bi in VC.reachable():
            t = VC.blocks[bi]['term']
            if t['k'] != 'switch':
                continue
            src = switch_source(VC, bi)
            if src and src['kind'] == 'binop' and src['op'] in ('Ne', 'Eq'):
                toks = deps.of_operand(src['a']) | deps.of_operand(src['b'])
                if any(('callsite', b) in toks for b in sums) and ('field', 'chksum') in toks:
                    mism = nonzero_targets(t) if src['op'] == 'Ne' else zero_targets(t)
                    if any(edge_dominates(VC, {(bi, x) for x in mism}, c) for c in clears):
                        ok = True
        rep.oblige('T3.chksum-clear', VC.name, ok=ok, nontrivial=True)
        if not ok:
            rep.violation('T3', vkey('T3', VC.name, 'mismatch-clears', ''), VC.loc(VC.span),
                          'a checksum mismatch does not discard the accumulated long name')
    if IB is not None:
        # unfinished run (last index seen != 1) is cleared
        ok = False
        clears = [b for b, t in IB.calls() if (t.get('callee') or '').endswith('LongNameBuilder::clear')]
        for bi in IB.reachable():
            t = IB.blocks[bi]['term']
            if t['k'] != 'switch':
                continue
            src = switch_source(IB, bi)
            if src and src['kind'] == 'binop' and src['op'] in ('Eq', 'Ne'):
                d3 = Deps(IB)
                toks = d3.of_operand(src['a']) | d3.of_operand(src['b'])
                consts = [c.get('val') for c in (op_const(src['a']), op_const(src['b'])) if c]
                if ('field', 'index') in toks and consts == [1]:
                    not_one = zero_targets(t) if src['op'] == 'Eq' else nonzero_targets(t)
                    # on the `index != 1` arm the only way to keep the buffer is the empty-builder test
                    ok = any(c in IB.reach_from(list(not_one)) for c in clears)
            elif src and src['kind'] == 'place' and \
                    [e.get('n') for e in src['place']['p'] if 'f' in e and not (e.get('n') == '0' and src['place']['p'].index(e) > 0 and
                                                                                   ('dc' in src['place']['p'][src['place']['p'].index(e) - 1] or
                                                                                    'vi' in src['place']['p'][src['place']['p'].index(e) - 1]))][-1:] == ['index'] and \
                    any(v == 1 for v, _ in t['targets']):
                # (`match self.index { Some(1) => .., Some(_) => clear, None => {} }` tests the payload the same way)
                # `match self.index { 1 => .., 0 => .., _ => clear }`: every value but 1 (and 0 = nothing seen) clears
                others = [tb for v, tb in t['targets'] if v not in (0, 1)] + [t['otherwise']]
                ok = all(any(c in IB.reach_from([o_]) for c in clears) for o_ in others)
        if not ok and clears:
            # the test is written in a form whose constant is not visible (`self.index == Some(1)` compares with a promoted
            # constant through PartialEq): the weaker, form-independent condition - some test of the index has an arm from which
            # every way out either discards the run or goes through a further test of the index (`if let Some(..)`, `is_empty`)
            d3 = Deps(IB)
            idx_sw = []
            for bi in IB.reachable():
                t = IB.blocks[bi]['term']
                if t['k'] == 'switch' and ('field', 'index') in d3.of_operand(t['discr']):
                    idx_sw.append(bi)
            rets = set(IB.return_blocks())
            for bi in idx_sw:
                for arm in IB.succ(bi):
                    reach = IB.reach_from([arm], cut_blocks=set(clears) | (set(idx_sw) - {bi}))
                    if not (reach & rets):
                        ok = True
            weak = ok
        rep.oblige('T3.unfinished', IB.name, ok=ok and bool(clears), nontrivial=True)
        if not (ok and clears):
            rep.violation('T3', vkey('T3', IB.name, 'unfinished-run', ''), IB.loc(IB.span),
                          'a long-name run whose last slot seen is not number 1 is not discarded')
    try:
        fn, rows, consts = dtables.lfn_index_table(facts)
        rej = [(a, b) for a, b, o in rows if o == frozenset(['reject'])]
        acc = [(a, b) for a, b, o in rows if 'accept' in o]
        panics_possible = [(a, b) for a, b, o in rows if 'PANIC' in o]
        ok = (0, 0) in rej and not panics_possible and acc and acc[0][0] == 1
        rep.oblige('T3.index', fn.name, ok=ok, nontrivial=True,
                   sample={'fn': fn.name, 'table': fmt_rows(rows), 'rejected': rej})
        if not ok:
            rep.violation('T3', vkey('T3', fn.name, 'index-table', ''), fn.loc(fn.span),
                          'sequence number handling of long-name slots: %s (number 0 must be rejected, no value may '
                          'reach a panic)' % fmt_rows(rows))
    except AnchorMissing as e:
        rep.machinery('ANCHOR-MISSING %s' % e)

    # ---------------- T3.cont a continuation slot is accepted only if it carries the run's checksum
    PR = facts.fns.get(BUILDER + '::process')
    if PR is None:
        rep.machinery('ANCHOR-MISSING LongNameBuilder::process')
    else:
        dp = Deps(PR)
        copies = [b for b, t in PR.calls() if (t.get('callee') or '').endswith('::copy_name_to_slice')]
        # blocks that (re)start a run: they store the slot's checksum into the builder
        edges = set()
        for bi in PR.reachable():
            for st_ in PR.blocks[bi]['stmts']:
                if st_['k'] == 'assign' and any('f' in e and e.get('n') == 'chksum' for e in st_['lhs']['p']):
                    edges |= {(bi, x) for x in PR.succ(bi)}
            t = PR.blocks[bi]['term']
            if t['k'] != 'switch':
                continue
            src = switch_source(PR, bi)
            if src and src['kind'] == 'binop' and src['op'] in ('Ne', 'Eq'):
                toks = dp.of_operand(src['a']) | dp.of_operand(src['b'])
                if ('field', 'chksum') in toks and any(tk[0] == 'call' and tk[1].endswith('::checksum') for tk in toks):
                    same = zero_targets(t) if src['op'] == 'Ne' else nonzero_targets(t)
                    edges |= {(bi, x) for x in same}
        ok = bool(copies) and all(edge_dominates(PR, edges, c) for c in copies)
        rep.oblige('T3.cont', PR.name, ok=ok, nontrivial=True,
                   sample={'fn': PR.name, 'rule': 'the name part of a slot is copied into the accumulator only after the slot '
                           'started a new run (its checksum is stored) or its checksum compared equal to the run\'s'})
        if not copies:
            rep.machinery('ANCHOR-MISSING copy_name_to_slice call in LongNameBuilder::process')
        elif not ok:
            rep.violation('T3', vkey('T3', PR.name, 'continuation-checksum', ''), PR.loc(PR.span),
                          'a continuation slot of a long-name run is accepted without its checksum having been compared with '
                          'the checksum of the run\'s first slot: slots of two different entries can be spliced into one name '
                          '(only the first slot is later validated against the short entry)')

    # ---------------- T3.start a new run sizes the accumulator before anything is copied into it
    if PR is not None:
        starts = [bi for bi in PR.reachable() for st_ in PR.blocks[bi]['stmts']
                  if st_['k'] == 'assign' and any('f' in e and e.get('n') == 'chksum' for e in st_['lhs']['p'])]
        setlen = {b for b, t in PR.calls() if (t.get('callee') or '').endswith('LfnBuffer::set_len')}
        copies2 = {b for b, t in PR.calls() if (t.get('callee') or '').endswith('::copy_name_to_slice')}
        ok = bool(starts) and bool(setlen)
        for sb in starts:
            if sb in setlen:
                continue
            if set(PR.reach_from(list(PR.succ(sb)), cut_blocks=setlen)) & copies2:
                ok = False
        rep.oblige('T3.start', PR.name, ok=ok, nontrivial=True,
                   sample={'fn': PR.name, 'run_starts': len(starts), 'set_len_sites': len(setlen),
                           'rule': 'every path from the start of a run to the copy of a name part passes set_len'})
        if not ok:
            rep.violation('T3', vkey('T3', PR.name, 'run-start-resizes', ''), PR.loc(PR.span),
                          'a slot that starts a new long-name run can be copied into the accumulator without the accumulator having '
                          'been resized for that run: units of an abandoned longer run stay behind the new name and are returned '
                          'with it')

    # ---------------- T3b paired reset on the skip arm
    clears = [b for b, t in R.calls() if (t.get('callee') or '').endswith('LongNameBuilder::clear')]
    # the local that becomes offset_range.0 of the returned entry
    begin_locals = set()
    for bi in R.reachable():
        for s in R.blocks[bi]['stmts']:
            if s['k'] == 'assign' and s['rv']['k'] == 'agg' and s['rv'].get('ak') == 'tuple' and len(s['rv']['ops']) == 2:
                # tuple (begin, end) that flows into the DirEntry aggregate's offset_range
                lhs = s['lhs']['l']
                used = False
                for b2 in R.reachable():
                    for s2 in R.blocks[b2]['stmts']:
                        if s2['k'] == 'assign' and s2['rv']['k'] == 'agg' and 'offset_range' in s2['rv'].get('fields', []):
                            o = s2['rv']['ops'][s2['rv']['fields'].index('offset_range')]
                            p = op_place(o)
                            if p is not None and lhs in copy_sources(R, p['l']):
                                used = True
                if used:
                    p = op_place(s['rv']['ops'][0])
                    if p is not None:
                        begin_locals.add(p['l'])
    if not begin_locals:
        # the slot range kept in another shape (a struct built from (start, end), a (start, count) pair ..): the range start is
        # the named variable that is re-based on another named variable inside the read loop (`begin = offset`) and flows into
        # the entry that is returned
        dR = Deps(R)
        entry_toks = set()
        for bi in R.reachable():
            for s in R.blocks[bi]['stmts']:
                if s['k'] == 'assign' and s['rv']['k'] == 'agg' and (s['rv'].get('adt') or '').endswith('dir_entry::DirEntry'):
                    for o in s['rv']['ops']:
                        entry_toks |= dR.of_operand(o)
        in_loop = set()
        for body_ in R.loops().values():
            in_loop |= set(body_)
        for bi in in_loop:
            for s in R.blocks[bi]['stmts']:
                if s['k'] != 'assign' or s['lhs']['p'] or s['rv']['k'] != 'use' or not R.locals[s['lhs']['l']].get('name'):
                    continue
                p = op_place(s['rv']['a'])
                if p is None or p['p']:
                    continue
                srcs = copy_sources(R, p['l'])
                n_assign = sum(1 for b3 in R.reachable() for s3 in R.blocks[b3]['stmts']
                               if s3['k'] == 'assign' and not s3['lhs']['p'] and s3['lhs']['l'] == s['lhs']['l'])
                if any(R.locals[x].get('name') and x != s['lhs']['l'] for x in srcs) and ('local', s['lhs']['l']) in entry_toks and \
                        n_assign >= 2:  # (a parameter of an inlined constructor is a named copy too, assigned once)
                    begin_locals.add(s['lhs']['l'])
    # follow plain copies back to the named local
    roots_b = set(begin_locals)
    changed = True
    while changed:
        changed = False
        for bi in R.reachable():
            for s in R.blocks[bi]['stmts']:
                if s['k'] == 'assign' and s['rv']['k'] == 'use' and not s['lhs']['p'] and s['lhs']['l'] in roots_b:
                    p = op_place(s['rv']['a'])
                    if p is not None and not p['p'] and p['l'] not in roots_b and R.locals[s['lhs']['l']].get('name') is None:
                        roots_b.add(p['l'])
                        changed = True
    loops = R.loops()
    ok = bool(clears) and bool(begin_locals)
    detail = []
    if loops and begin_locals:
        for h, body in loops.items():
            assigns = set()
            for bi in body:
                for s in R.blocks[bi]['stmts']:
                    if s['k'] == 'assign' and not s['lhs']['p'] and s['lhs']['l'] in roots_b and s['lhs']['l'] in [
                            x for x in roots_b if R.locals[x].get('name')]:
                        assigns.add(bi)
            loop_clears = [c for c in clears if c in body]
            # every path from a clear (inside the loop) back to the header must assign the range start, and
            # every path that assigns it must have crossed a clear
            tails = [t for t, hh in R.back_edges() if hh == h]
            for c in loop_clears:
                reach = R.reach_from(R.succ(c), cut_blocks=assigns)
                if any(t in reach for t in tails) and c not in assigns:
                    ok = False
                    detail.append('long-name state cleared at %s but the slot range start is not reset before the next '
                                  'slot' % R.loc(R.blocks[c]['term']['span']))
            for a in assigns:
                if a in loop_clears:
                    continue
                back = R.reach_from([h], cut_blocks=loop_clears)
                if a in back and a != h:
                    # reachable from the loop head without a clear
                    pre = R.reach_from(R.succ(a), cut_blocks=loop_clears)
                    if any(t in pre for t in tails):
                        ok = False
                        detail.append('slot range start reset in bb%d without discarding the accumulated long name' % a)
    rep.oblige('T3b', READER, ok=ok, nontrivial=True,
               sample={'fn': READER, 'range_start_locals': sorted(R.locals[x].get('name') or str(x) for x in begin_locals)})
    if not ok:
        rep.violation('T3b', vkey('T3b', READER, 'paired-reset', ''), R.loc(R.span),
                      'when slots are skipped the long-name accumulator and the entry\'s slot range must be reset '
                      'together', detail[:3])

    # ---------------- T3d discarding a run empties the accumulator (not only its bookkeeping)
    LC = facts.fns.get('fatfs::dir::LongNameBuilder::clear')
    if LC is not None:
        empt = [b for b, t in LC.calls() if (t.get('callee') or '').endswith(('LfnBuffer::clear', 'LfnBuffer::set_len', 'Vec::clear', 'Vec::truncate'))]
        direct = any(s['k'] == 'assign' and s['lhs']['p'] and s['lhs']['p'][-1].get('n') == 'len' and
                     (op_const(s['rv'].get('a', {})) or {}).get('val') == 0
                     for bi in LC.reachable() for s in LC.blocks[bi]['stmts'] if s['k'] == 'assign' and s['rv']['k'] == 'use')
        ok_d = direct
        if empt:
            reach_ = LC.reach_from([0], cut_blocks=set(empt))
            ok_d = ok_d or not any(r in reach_ for r in LC.return_blocks())
        if ctx.config == 'nostd' and not empt and not direct:
            ok_d = True  # the stub builder of the build without long names has no buffer
        rep.oblige('T3d', LC.name, ok=ok_d, nontrivial=True)
        if not ok_d:
            rep.violation('T3', vkey('T3', LC.name, 'clear-empties', ''), LC.loc(LC.span),
                          'LongNameBuilder::clear does not empty the accumulated name on every path: a run that is discarded (too long, '
                          'checksum mismatch, interrupted) is still returned as the long name of the next short entry')

    # ---------------- T3c every slot that does not end the call either extends the run or discards it
    procs = [b for b, t in R.calls() if (t.get('callee') or '').endswith('LongNameBuilder::process')]
    reads_ = [b for b, t in R.calls() if (t.get('callee') or '').endswith('DirEntryData::deserialize')]
    ok_c = bool(procs) and bool(clears)
    for tail, head in R.back_edges():
        body_ = R.natural_loop(tail, head)
        if not any(r_ in body_ for r_ in reads_):
            continue
        reach_ = R.reach_from([head], cut_blocks=set(procs) | set(clears))
        if tail in reach_:
            ok_c = False
    rep.oblige('T3c', READER, ok=ok_c, nontrivial=True, sample={'fn': READER, 'process_sites': len(procs), 'clear_sites': len(clears)})
    if not ok_c:
        rep.violation('T3', vkey('T3', READER, 'slot-neither-kept-nor-dropped', ''), R.loc(R.span),
                      'the directory reader can go on to the next slot without having handed the current one to the long-name '
                      'accumulator or having cleared the accumulator: a run is glued together across a slot that does not belong to it')

    # ---------------- T4 progress
    reads = [b for b, t in R.calls() if (t.get('callee') or '').endswith('DirEntryData::deserialize')]
    ok = bool(reads)
    for tail, head in R.back_edges():
        body = R.natural_loop(tail, head)
        # is there a cycle avoiding all slot reads?
        reach = R.reach_from([head], cut_blocks=reads)
        if tail in reach:
            ok = False
    rep.oblige('T4', READER, ok=ok, nontrivial=True)
    if not ok:
        rep.violation('T4', vkey('T4', READER, 'progress', ''), R.loc(R.span),
                      'the entry reader has a cycle that does not read a slot (no progress)')
