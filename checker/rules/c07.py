"""C07 - mounting is total (DESIGN.md section 4, M1-M4).

M1  every panic site reachable from FileSystem::new is discharged (context-sensitive interval analysis with
    validated-field invariants established by the validators themselves)
M2  every geometry condition of the statement has a rejecting branch on the only path to Ok:
    (a) field ranges established at the Ok exit of BootSector::validate, (b) rejecting comparisons,
    (c) the FAT-width consistency decision table, (d) the validators are must-called under both `strict` values
M3  the FS-info counters are range-fixed on every Ok path
M4  only the boot-signature test depends on `strict`
"""
import json
import os

from analyses import Must, error_blocks
from core import VERIF, vkey
from decision import decision_table, fmt_rows
from intervals import Analysis, FnCtx, relation_anchor_holds
from model import op_place, place_key
from rules import panics
from rules.dtables import agg_variant_in_block

BPB = 'fatfs::boot_sector::BiosParameterBlock'
NEW = 'fatfs::fs::FileSystem::new'
BS_VALIDATE = 'fatfs::boot_sector::BootSector::validate'
BPB_VALIDATE = 'fatfs::boot_sector::BiosParameterBlock::validate'
REQUIRED_RANGES = {
    'bytes_per_sector': (512, 4096),
    'sectors_per_cluster': (1, 255),
    'reserved_sectors': (1, 65535),
    'fats': (1, 255),
    'fs_version': (0, 0),
}


def mount_roots(facts):
    return [iid for n, iid in sorted(facts.roots.items()) if n.rsplit('::', 1)[-1].startswith('root_mount_')]


def run(ctx, rep):
    facts = ctx.facts
    roots = mount_roots(facts)
    if not roots:
        rep.machinery('ANCHOR-MISSING mount roots')
        return
    for need in (NEW, BS_VALIDATE, BPB_VALIDATE):
        if need not in facts.fns:
            rep.machinery('ANCHOR-MISSING ' + need)
            return
    # ---------------- M1
    col = panics.run_inventory(facts, roots)
    table = panics.load_discharge_table()
    classes = panics.report_sites(rep, 'M1', col, table, prop_note='reachable while mounting')
    rep.notes.append('mount-path panic sites by discharge class: %s (functions analysed: %d, contexts: %d)' % (
        classes, len(col.fn_contexts), sum(col.fn_contexts.values())))
    ctx.cache['mount_inventory'] = col

    # ---------------- M2a established ranges at the Ok exit of BootSector::validate
    facts.relations = panics.load_relations()
    V = facts.fns[BS_VALIDATE]
    an = Analysis(facts, V, FnCtx({2: (0, 1)}, {}, set()), {}, 0,
                  inst=(facts.insts_of.get(BS_VALIDATE) or [None])[0])
    est = an.established
    for field, (lo, hi) in sorted(REQUIRED_RANGES.items()):
        got = est.get((BPB, field))
        ok = got is not None and got[0] >= lo and got[1] <= hi
        rep.oblige('M2a', field, ok=ok, nontrivial=True,
                   sample={'field': field, 'range_at_ok_exit_of_validate': got, 'required': [lo, hi]})
        if not ok:
            rep.violation('M2', vkey('M2', BS_VALIDATE, 'range:' + field, ''), V.loc(V.span),
                          'a boot sector is accepted with %s in %s; the statement requires [%d, %d] (no rejecting '
                          'branch on the only path to Ok)' % (field, list(got) if got else 'its whole type range', lo, hi))
    flag = ('flag', 'bpb_regions_fit_total_sectors') in est
    rep.oblige('M2a', 'regions-fit', ok=flag, nontrivial=True)
    if not flag:
        rep.violation('M2', vkey('M2', BS_VALIDATE, 'regions-fit', ''), V.loc(V.span),
                      'the metadata regions are not validated against the declared sector count without 32-bit '
                      'wrap-around on the only path to Ok')
    # power of two
    for fname, field in (('validate_bytes_per_sector', 'bytes_per_sector'), ('validate_sectors_per_cluster', 'sectors_per_cluster')):
        fn = facts.fns.get('%s::%s' % (BPB, fname))
        ok = False
        if fn is not None:
            from analyses import Deps
            d = Deps(fn)
            eb = error_blocks(fn)
            for b, t in fn.calls():
                if (t.get('callee') or '').endswith('::is_power_of_two') and ('field', field) in d.of_operand(t['args'][0]):
                    # its result decides an error exit
                    for bi in fn.reachable():
                        tt = fn.blocks[bi]['term']
                        if tt['k'] == 'switch':
                            toks = d.of_operand(tt['discr'])
                            if ('callsite', b) in toks and any(x in eb for s in fn.succ(bi) for x in [s] + list(
                                    fn.reach_from([s]))):
                                ok = True
        rep.oblige('M2a', 'pow2:' + field, ok=ok, nontrivial=True)
        if not ok:
            rep.violation('M2', vkey('M2', BPB + '::' + fname, 'pow2', ''), 'src/boot_sector.rs',
                          '%s is not required to be a power of two' % field)

    # ---------------- M2b rejecting comparisons
    rj = json.load(open(os.path.join(VERIF, 'tables', 'mount_rejections.json')))
    for r in rj:
        ok = relation_anchor_holds(facts, {'establisher': r['fn'], 'anchor': r})
        rep.oblige('M2b', r['name'], ok=ok, nontrivial=True, sample={'condition': r['name'], 'in': r['fn']})
        if not ok:
            fn = facts.fns.get(r['fn'])
            rep.violation('M2', vkey('M2', r['fn'], r['name'], ''), fn.loc(fn.span) if fn else r['fn'],
                          'no rejecting branch for: %s' % r['name'])

    # ---------------- M2f a volume that is not laid out as FAT32 has a non-zero 16-bit FAT size
    IF = facts.fns.get(BPB + '::is_fat32')
    if IF is None:
        rep.machinery('ANCHOR-MISSING BiosParameterBlock::is_fat32')
    else:
        from decision import Walker
        from model import place_key as _pk
        key = None
        for bi in IF.reachable():
            for s_ in IF.blocks[bi]['stmts']:
                if s_['k'] == 'assign':
                    from model import places_read_by_rvalue
                    for pl in places_read_by_rvalue(s_['rv']):
                        if any('f' in e and e.get('n') == 'sectors_per_fat_16' for e in pl['p']):
                            key = _pk(pl)
        outs = None
        if key is not None:
            def _cls(w, blk, env, refs, phase):
                if phase == 'exit':
                    v = env.get((0, ()))
                    return 'unknown' if v is None else ('fat32' if v else 'not-fat32')
                return None
            outs = Walker(IF, _cls, facts=facts).walk(0, {key: 0})
        ok = outs == {'fat32'}
        rep.oblige('M2f', IF.name, ok=ok, nontrivial=True,
                   sample={'fn': IF.name, 'with sectors_per_fat_16 == 0 the outcomes are': sorted(outs or [])})
        if key is None:
            rep.machinery('ANCHOR is_fat32: no read of sectors_per_fat_16')
        elif not ok:
            rep.violation('M2', vkey('M2', IF.name, 'zero-fat-size', ''), IF.loc(IF.span),
                          'with a 16-bit FAT size of 0 the boot sector can still be treated as FAT12/16 (outcomes %s): the '
                          'only non-zero test of the FAT size is on the FAT32 field, so such a volume is mounted with '
                          'sectors_per_fat() == 0' % sorted(outs or []))

    # ---------------- M2c FAT width vs cluster count (decision table over is_fat32 x total_clusters)
    VT = facts.fns.get(BPB + '::validate_total_clusters')
    if VT is None:
        rep.machinery('ANCHOR-MISSING validate_total_clusters')
    else:
        tc = [(b, t) for b, t in VT.calls() if (t.get('callee') or '').endswith('::total_clusters')]
        f32 = [(b, t) for b, t in VT.calls() if (t.get('callee') or '').endswith('::is_fat32')]
        if (len(tc) > 1 or len(f32) > 1) and tc and f32:
            # the two getters are pure: a second call (e.g. inside a helper that was made transparent) returns what the first
            # returned - judged on a copy of the function in which later calls are copies of the first result
            import copy as _copy
            from model import Fn as _Fn
            VT2 = _Fn(VT.name, _copy.deepcopy(VT.d), VT.types, VT.adts, VT.source)
            VT2.blocks = _copy.deepcopy(VT.blocks)
            VT2.locals = VT.locals
            VT2.facts_ref = getattr(VT, 'facts_ref', None)
            for lst in (tc, f32):
                first_b, first_t = lst[0]
                for b_, t_ in lst[1:]:
                    VT2.blocks[b_]['stmts'].append({'k': 'assign', 'lhs': _copy.deepcopy(t_['dest']), 'span': t_['span'],
                                                     'rv': {'k': 'use', 'a': {'c': _copy.deepcopy(first_t['dest'])}}})
                    VT2.blocks[b_]['term'] = {'k': 'goto', 'ret': t_['ret'], 'span': t_['span']}
            VT = VT2
            tc, f32 = tc[:1], f32[:1]
        if len(tc) != 1 or len(f32) != 1:
            rep.machinery('ANCHOR validate_total_clusters: total_clusters()/is_fat32() calls')
        else:
            var = place_key(tc[0][1]['dest'])
            fkey = place_key(f32[0][1]['dest'])

            def classify(w, blk, env, refs, phase):
                if phase == 'block' and agg_variant_in_block(VT, blk, 'fatfs::error::Error'):
                    return 'reject'
                if phase == 'exit':
                    return 'accept'
                return None

            for isf, want in ((1, [(0, 65524, {'reject'}), (65525, 0x0FFFFFFF, {'accept', 'reject'}),
                                   (0x10000000, 0xFFFFFFFF, {'reject'})]),
                              (0, [(0, 65524, {'accept'}), (65525, 0xFFFFFFFF, {'reject'})])):
                rows, consts = decision_table(VT, var, VT.local_ty(var[0]), 0, classify, pin=True,
                                              init_env={fkey: isf}, facts=facts,
                                              extra_consts=(4085, 65525, 0x0FFFFFFF))
                bad = []
                from rules.panics import panic_kind as _pk
                pcalls = [t_ for b_, t_ in VT.calls() if _pk(t_.get('callee'))]
                dbg_only = bool(pcalls) and all((t_['span'].get('expn') or '').startswith('debug_assert') for t_ in pcalls)
                for a, b, o in rows:
                    # (a path that ends in the failure of a `debug_assert!` is not an outcome of the release build)
                    o = set(x for x in o if x not in ('MAYPANIC', ) and not (dbg_only and x == 'DIVERGE'))
                    for wa, wb, wo in want:
                        lo, hi = max(a, wa), min(b, wb)
                        if lo <= hi:
                            if wo == {'accept', 'reject'}:
                                if 'accept' not in o:
                                    bad.append((lo, hi, sorted(o), 'accept possible'))
                            elif o != wo:
                                bad.append((lo, hi, sorted(o), sorted(wo)))
                rep.oblige('M2c', 'is_fat32=%d' % isf, ok=not bad, nontrivial=True,
                           sample={'fn': VT.name, 'bpb_layout_is_fat32': bool(isf), 'table': fmt_rows(rows)})
                if bad:
                    rep.violation('M2', vkey('M2', VT.name, 'width-consistency:%d' % isf, ''), VT.loc(VT.span),
                                  'FAT width implied by the BPB layout (is_fat32=%s) is not checked against the cluster '
                                  'count as the specification requires' % bool(isf),
                                  ['cluster counts %d..%d: %s, expected %s' % x for x in bad[:4]])

    # ---------------- M2d / M4 must-calls under both strict values
    chain = [(NEW, BS_VALIDATE), (BS_VALIDATE, BPB_VALIDATE)]
    for sub in ('validate_bytes_per_sector', 'validate_sectors_per_cluster', 'validate_reserved_sectors', 'validate_fats',
                'validate_root_entries', 'validate_total_sectors', 'validate_sectors_per_fat', 'validate_total_clusters'):
        chain.append((BPB_VALIDATE, '%s::%s' % (BPB, sub)))
    chain.append((NEW, 'fatfs::fs::FsInfoSector::validate_and_fix'))
    for caller, callee in chain:
        fn = facts.fns.get(caller)
        if fn is None or callee not in facts.fns:
            rep.machinery('ANCHOR-MISSING %s / %s' % (caller, callee))
            continue
        m = Must(facts, lambda f, b, t, names, callee=callee: callee in names)
        ok = m.passes(fn, set())[0]
        rep.oblige('M2d', '%s -> %s' % (caller.rsplit('::', 1)[-1], callee.rsplit('::', 1)[-1]), ok=ok, nontrivial=True)
        if not ok:
            rep.violation('M2', vkey('M2', caller, 'must-call:' + callee, ''), fn.loc(fn.span),
                          '%s can succeed without %s having succeeded (whatever the `strict` option)' % (caller, callee))

    # ---------------- M3 the FS-info counters are range-fixed
    VF = facts.fns.get('fatfs::fs::FsInfoSector::validate_and_fix')
    if VF is not None:
        from analyses import Deps, switch_source
        d = Deps(VF)
        found = {'free_cluster_count': False, 'next_free_cluster': False}
        for bi in VF.reachable():
            for s in VF.blocks[bi]['stmts']:
                if s['k'] == 'assign' and s['lhs']['p']:
                    names = [e.get('n') for e in s['lhs']['p'] if 'f' in e]
                    if names and names[-1] in found:
                        from rules.c05 import is_none_value
                        if is_none_value(VF, bi, s['rv']):
                            found[names[-1]] = True
                        elif s['rv']['k'] == 'use' and op_place(s['rv']['a']) is not None and not op_place(s['rv']['a'])['p']:
                            # `field = opt.filter(..)` written out: the temporary is `None` on the rejecting arm
                            l_ = op_place(s['rv']['a'])['l']
                            if any(s2['k'] == 'assign' and not s2['lhs']['p'] and s2['lhs']['l'] == l_ and s2['rv']['k'] == 'agg' and
                                   s2['rv'].get('variant') == 'None' for b2 in VF.reachable() for s2 in VF.blocks[b2]['stmts']):
                                found[names[-1]] = True
        for f, ok in found.items():
            rep.oblige('M3', f, ok=ok, nontrivial=True)
            if not ok:
                rep.violation('M3', vkey('M3', VF.name, f, ''), VF.loc(VF.span),
                              'an out-of-range %s from the FS-information sector is not discarded on mount' % f)
