"""C14 - flushed file data survives a power cut (DESIGN.md section 4, rules P1-P5).

Durability is a sync-before-acknowledge property: File::flush must write the entry back, then flush the device;
every Write::flush impl must forward; the write-back latch may only be cleared after a successful write; nothing
on the data / table write path may stage bytes."""
from analyses import Deps, Must, edge_dominates, field_owner, switch_source, const_operand_value
from core import vkey
from model import op_place, place_key

FILE_FLUSH = 'fatfs::file::File::flush'
EDITOR_FLUSH = 'fatfs::dir_entry::DirEntryEditor::flush'
LATCH_OWNERS = ('fatfs::dir_entry::DirEntryEditor', 'fatfs::fs::FsInfoSector', 'vf_witness::controls::CtlEditor')
NO_STAGING_ADTS = ['fatfs::file::File', 'fatfs::fs::FileSystem', 'fatfs::fs::DiskSlice', 'fatfs::fs::FsIoAdapter',
                   'fatfs::table::ClusterIterator', 'fatfs::dir_entry::DirEntryEditor']


def last_field(p):
    names = [e.get('n') for e in p['p'] if 'f' in e]
    return names[-1] if names else None


def none_edges_of_field(fn, field, owner):
    """edges taken when `<owner>.field` (an Option) is None"""
    out = set()
    for bi in fn.reachable():
        t = fn.blocks[bi]['term']
        if t['k'] != 'switch':
            continue
        src = switch_source(fn, bi)
        if not src or src['kind'] != 'discr':
            continue
        p = src['place']
        if last_field(p) != field or field_owner(fn, p, field) != owner:
            continue
        explicit = {v for v, _ in t['targets']}
        for v, tgt in t['targets']:
            if v == 0:
                out.add((bi, tgt))
        if 0 not in explicit:
            out.add((bi, t['otherwise']))
    return out


def scope(facts):
    return [f for f in facts.fns.values() if f.crate == 'fatfs' or '::controls::' in f.name]


def ok_exit_avoiding(fn, must, members, extra_cut=()):
    cut = must.crossing_edges(fn, members) | set(extra_cut)
    from analyses import error_blocks
    reach = fn.reach_from([0], cut_blocks=error_blocks(fn), cut_edges=cut)
    return [r for r in fn.return_blocks() if r in reach], cut


def run(ctx, rep):
    facts, eff = ctx.facts, ctx.effects
    fns = scope(facts)
    fat = [f for f in fns if f.crate == 'fatfs']

    # ---------------- P1: File::flush = entry write-back, then device flush
    F = facts.fns.get(FILE_FLUSH)
    if F is None or EDITOR_FLUSH not in facts.fns:
        rep.machinery('ANCHOR-MISSING %s / %s' % (FILE_FLUSH, EDITOR_FLUSH))
        return
    m_entry = Must(facts, lambda f, b, t, names: EDITOR_FLUSH in names)
    # a handle without an entry (the root directory) has nothing to write back: the None edge counts as crossed
    entry_none = {}
    for f in fat:
        e = none_edges_of_field(f, 'entry', 'fatfs::file::File')
        if e:
            entry_none[f.name] = e

    class MustEntry(Must):
        def crossing_edges(self, fn, member_set):
            return Must.crossing_edges(self, fn, member_set) | entry_none.get(fn.name, set())

    m_entry = MustEntry(facts, lambda f, b, t, names: EDITOR_FLUSH in names)
    mem_entry = m_entry.compute(fat)
    m_dev = Must(facts, lambda f, b, t, names: bool(eff.fn_reaches_dev(f.name, b, 'F')) and
                 (t.get('callee') or '').rsplit('::', 1)[-1] == 'flush')
    mem_dev = m_dev.compute(fat)
    bad1, cut1 = ok_exit_avoiding(F, m_entry, mem_entry)
    rep.oblige('P1.entry', FILE_FLUSH, ok=not bad1, nontrivial=True,
               sample={'fn': FILE_FLUSH, 'rule': 'every Ok-exit crosses the Ok edge of the entry write-back',
                       'crossing_edges': sorted(cut1)})
    if bad1:
        rep.violation('P1', vkey('P1', FILE_FLUSH, 'entry-write-back', ''), F.loc(F.span),
                      'File::flush can return Ok without the directory entry write-back having succeeded')
    bad2, cut2 = ok_exit_avoiding(F, m_dev, mem_dev)
    rep.oblige('P1.device', FILE_FLUSH, ok=not bad2, nontrivial=True,
               sample={'fn': FILE_FLUSH, 'rule': 'every Ok-exit crosses the Ok edge of the device flush',
                       'crossing_edges': sorted(cut2)})
    if bad2:
        from analyses import path_to, error_blocks
        p = path_to(F, 0, bad2, cut_blocks=error_blocks(F), cut_edges=cut2)
        rep.violation('P1', vkey('P1', FILE_FLUSH, 'device-flush', ''), F.loc(F.span),
                      'File::flush can return Ok without the storage having been flushed',
                      ['path: ' + '->'.join('bb%d' % x for x in (p or []))])
    # order: the device flush call lies after the entry write-back's Ok edge
    dev_calls = [b for b, t in F.calls() if eff.fn_reaches_dev(F.name, b, 'F') and
                 (t.get('callee') or '').rsplit('::', 1)[-1] == 'flush']
    for b in dev_calls:
        ok = b not in F.reach_from([0], cut_edges=cut1)
        rep.oblige('P1.order', '%s|bb%d' % (FILE_FLUSH, b), ok=ok, nontrivial=True)
        if not ok:
            rep.violation('P1', vkey('P1', FILE_FLUSH, 'order', F.blocks[b]['term']['span']['snip']),
                          F.loc(F.blocks[b]['term']['span']),
                          'the device flush in File::flush is reachable before the entry write-back succeeded')
    if not dev_calls and not bad2:
        rep.machinery('P1: no device flush call located in File::flush although MUST holds')

    # ---------------- P2: forwarding into File::flush
    def all_paths_call(fn, pred):
        blocks = [b for b, t in fn.calls() if pred(b, t)]
        reach = fn.reach_from([0], cut_blocks=blocks)
        return not [r for r in fn.return_blocks() if r in reach], blocks

    for name, what in (('<fatfs::file::File as fatfs::io::Write>::flush', 'Write::flush for File'),
                       ('<fatfs::file::File as core::ops::drop::Drop>::drop', 'Drop for File'),
                       ('<fatfs::file::File as std::io::Write>::flush', 'std::io::Write::flush for File')):
        fn = facts.fns.get(name)
        if fn is None:
            if 'std::io' in name and ctx.config == 'nostd':
                continue
            rep.machinery('ANCHOR-MISSING ' + name)
            continue
        # transitive: calls File::flush or something that must call it
        m = Must(facts, lambda f, b, t, names: FILE_FLUSH in names)
        mem = m.compute(fat)

        def pred(b, t, fn=fn, mem=mem):
            names = m.callee_names(fn, b)
            return FILE_FLUSH in names or (names and all(n in mem for n in names))

        ok, blocks = all_paths_call(fn, pred)
        rep.oblige('P2', name, ok=ok, nontrivial=True, sample={'fn': name, 'forwards_at': ['bb%d' % b for b in blocks]})
        if not ok:
            rep.violation('P2', vkey('P2', name, 'forward', ''), fn.loc(fn.span),
                          '%s has a path that returns without calling File::flush' % what)

    # ---------------- P3: a write-back latch is cleared only after a successful device write
    n_clear = 0
    for fn in fns:
        is_control = fn.crate != 'fatfs'
        clears = []
        for bi in fn.reachable():
            blk = fn.blocks[bi]
            for s in blk['stmts']:
                if s['k'] != 'assign':
                    continue
                lhs = s['lhs']
                if lhs['p'] and 'f' in lhs['p'][-1] and last_field(lhs) == 'dirty' and \
                        field_owner(fn, lhs, 'dirty') in LATCH_OWNERS and not (
                            s['rv']['k'] == 'use' and const_operand_value(s['rv']['a']) == 1):
                    # any store that is not the constant `true` can lower the latch (`false`, or a computed value such as
                    # `dirty = new != old`, which forgets a change recorded earlier)
                    clears.append((bi, s['span']))
                # &mut self.dirty handed to a call (mem::take / mem::replace / swap)
                if s['rv']['k'] == 'ref' and s['rv'].get('mut') and last_field(s['rv']['p']) == 'dirty' and \
                        field_owner(fn, s['rv']['p'], 'dirty') in LATCH_OWNERS:
                    clears.append((bi, s['span']))
        if not clears:
            continue
        m = Must(facts, lambda f, b, t, names: bool(eff.fn_reaches_dev(f.name, b, 'W')))
        cut = m.crossing_edges(fn, set())
        before = fn.reach_from([0], cut_edges=cut)
        for bi, span in clears:
            n_clear += 1
            ok = bi not in before
            rep.oblige('P3', '%s|bb%d' % (fn.name, bi), ok=ok, nontrivial=True,
                       sample={'fn': fn.name, 'at': fn.loc(span),
                               'rule': 'latch cleared only on paths that crossed the Ok edge of a device write'})
            if not ok:
                rep.violation('P3', vkey('P3', fn.name, 'latch-clear', span['snip']), fn.loc(span),
                              'the write-back latch is cleared in %s on a path where the write has not (yet) '
                              'succeeded: a failed write would never be retried' % fn.name, control=is_control)
    rep.counts['P3'] = n_clear

    # ---------------- P4: every Write::flush impl forwards to the underlying flush
    n4 = 0
    for fn in fns:
        if not (fn.impl_trait == 'fatfs::io::Write' and fn.name.endswith('::flush')) and \
                not ('::controls::' in fn.name and fn.name.endswith('flush_impl')):
            continue
        is_control = fn.crate != 'fatfs'
        n4 += 1
        m = Must(facts, lambda f, b, t, names: (t.get('callee') or '').rsplit('::', 1)[-1] == 'flush')
        bad, cut = ok_exit_avoiding(fn, m, set())
        rep.oblige('P4', fn.name, ok=not bad, nontrivial=True, sample={'impl': fn.name, 'at': fn.loc(fn.span)})
        if bad:
            rep.violation('P4', vkey('P4', fn.name, 'forward', ''), fn.loc(fn.span),
                          '%s can return Ok without forwarding to the underlying stream\'s flush' % fn.name,
                          control=is_control)

    # ---------------- P5: write-through
    W = facts.fns.get('<fatfs::file::File as fatfs::io::Write>::write')
    if W is None:
        rep.machinery('ANCHOR-MISSING <File as Write>::write')
    else:
        deps = Deps(W)
        found = False
        for b, t in W.calls():
            if (t.get('callee') or '').endswith('io::Write::write') and eff.fn_reaches_dev(W.name, b, 'W'):
                found = True
                toks = deps.of_operand(t['args'][1])
                ok = ('param', 2) in toks
                rep.oblige('P5.buf', '%s|bb%d' % (W.name, b), ok=ok, nontrivial=True)
                if not ok:
                    rep.violation('P5', vkey('P5', W.name, 'buffer', t['span']['snip']), W.loc(t['span']),
                                  'the bytes handed to the device in File::write do not come from the caller\'s buffer')
        if not found:
            rep.machinery('P5: no device write located in <File as Write>::write')
    for path in NO_STAGING_ADTS:
        adt = facts.api['adts'].get(path)
        if adt is None:
            rep.machinery('ANCHOR-MISSING adt ' + path)
            continue
        types = facts.api['types']
        for v in adt['variants']:
            for f in v['fields']:
                t = types[f['ty']]
                staged = t['k'] in ('array', 'slice') or (t['k'] == 'adt' and t['path'] in (
                    'alloc::vec::Vec', 'alloc::collections::vec_deque::VecDeque', 'alloc::string::String'))
                rep.oblige('P5.nostage', '%s.%s' % (path, f['name']), ok=not staged)
                if staged:
                    rep.violation('P5', vkey('P5', path, f['name'], ''), path,
                                  'field %s of %s can stage bytes (%s): data/table writes are no longer provably '
                                  'write-through' % (f['name'], path, t['s']))
    m = Must(facts, lambda f, b, t, names: bool(eff.fn_reaches_dev(f.name, b, 'W')))
    mem = m.compute(fat)
    for name in ('fatfs::table::write_fat', 'fatfs::dir::Dir::write_entry', 'fatfs::dir_entry::DirEntryEditor::write'):
        fn = facts.fns.get(name)
        if fn is None and name.endswith('DirEntryEditor::write'):
            continue  # merged into flush(): the latch-guarded write-back is judged by P3 there
        if fn is None:
            rep.machinery('ANCHOR-MISSING ' + name)
            continue
        ok = name in mem
        rep.oblige('P5.through', name, ok=ok, nontrivial=True)
        if not ok:
            rep.violation('P5', vkey('P5', name, 'write-through', ''), fn.loc(fn.span),
                          '%s can return Ok without having issued a device write' % name)
    rep.counts['P4'] = n4
