"""C04 - what a session saw is what is on the disk (DESIGN.md section 4, K1-K4).

K1  encoder, decoder and the FAT specification agree on every on-disk field's offset and width, for the boot sector
    (FAT12/16 and FAT32 layouts), the FS-information sector, the short directory entry and the long-name entry
K2  write-back must-calls on drop / unmount (rules/c14.py P2, rules/c12.py Q2)
K3  the entry editor's position is the absolute position of the short entry (stream position after it minus 32)
K4  every extent starts at offset_from_cluster(cluster) and is clipped by the bytes left
"""
import json
import os

from analyses import Deps
from core import VERIF, vkey
from rules import codec

CODECS = [
    ('boot_sector_fat12_16', 'fatfs::boot_sector::BootSector::serialize', 'fatfs::boot_sector::BootSector::deserialize', False, None),
    ('boot_sector_fat32', 'fatfs::boot_sector::BootSector::serialize', 'fatfs::boot_sector::BootSector::deserialize', True, None),
    ('fs_info', 'fatfs::fs::FsInfoSector::serialize', 'fatfs::fs::FsInfoSector::deserialize', None, None),
    ('dir_entry', 'fatfs::dir_entry::DirFileEntryData::serialize', 'fatfs::dir_entry::DirEntryData::deserialize', None, 'File'),
    ('lfn_entry', 'fatfs::dir_entry::DirLfnEntryData::serialize', 'fatfs::dir_entry::DirEntryData::deserialize', None, 'Lfn'),
]
TOTALS = {'boot_sector_fat12_16': 512, 'boot_sector_fat32': 512, 'fs_info': 512, 'dir_entry': 32, 'lfn_entry': 32}


def norm_field(f, side):
    if f is None:
        return '?'
    if f.startswith('const:0x'):
        v = int(f[8:], 16)
        return 'reserved' if v == 0 else 'sig:0x%X' % v
    if f.startswith('const:'):
        return 'sig:' + f[6:]
    if f.startswith('local:reserved'):
        return 'reserved'
    return f


def compare(seq, spec, side, layout):
    """list of differences between an extracted [(off, width, field)] and the specification rows"""
    diffs = []
    rows, total = codec.with_offsets(seq)
    i = j = 0
    got = [(o, w, norm_field(f, side)) for o, w, f in rows]
    want = [(r['offset'], r['width'], r['field'], r['spec']) for r in spec]
    # the long-name decoder takes the first 11 bytes (order + name_0) in one read
    if layout == 'lfn_entry' and side == 'decoder' and got and got[0][1] == 11:
        got = [(0, 1, 'order'), (1, 10, 'name_0')] + got[1:]
    gi = {o: (w, f) for o, w, f in got if o is not None}
    for o, w, f, sp in want:
        g = gi.get(o)
        if g is None:
            diffs.append('%s (%s) expected at offset %d width %d: the %s has no field starting there' % (f, sp, o, w, side))
            continue
        gw, gf = g
        if gw != w:
            diffs.append('%s (%s) at offset %d: %s width %s, specification %d' % (f, sp, o, side, gw, w))
        if f.startswith('sig:'):
            if side == 'encoder' and gf != f and not gf.startswith('sig:'):
                diffs.append('offset %d: %s writes %s, specification %s %s' % (o, side, gf, sp, f))
            elif side == 'encoder' and gf.startswith('sig:0x') and gf != f:
                diffs.append('offset %d: %s writes %s, specification %s %s' % (o, side, gf, sp, f))
        elif f == 'reserved':
            pass
        elif gf != f and gf != '?':
            diffs.append('offset %d width %d: %s handles `%s`, specification puts %s (`%s`) there' % (o, w, side, gf, sp, f))
        elif gf == '?':
            diffs.append('offset %d: %s field could not be attributed (expected `%s`)' % (o, side, f))
    if total != sum(r['width'] for r in spec):
        diffs.append('%s total length %s, specification %d' % (side, total, sum(r['width'] for r in spec)))
    return diffs, got


def run(ctx, rep):
    facts = ctx.facts
    spec = json.load(open(os.path.join(VERIF, 'tables', 'spec_layouts.json')))
    offs = {}
    for layout, enc, dec, fat32, variant in CODECS:
        E, D = facts.fns.get(enc), facts.fns.get(dec)
        if E is None or D is None:
            rep.machinery('ANCHOR-MISSING %s / %s' % (enc, dec))
            continue
        eseq = codec.encoder_sequence(facts, E, fat32)
        vp = None
        if variant is not None:
            vp = (lambda f, v=variant: codec.arm_cut_for_variant(f, 'fatfs::dir_entry::DirEntryData', v))
        dseq = codec.decoder_sequence(facts, D, fat32, variant_pred=vp)
        for side, seq, fn in (('encoder', eseq, E), ('decoder', dseq, D)):
            diffs, got = compare(seq, spec[layout], side, layout)
            rep.oblige('K1', '%s|%s' % (layout, side), ok=not diffs, nontrivial=True,
                       sample={'layout': layout, 'side': side, 'fn': fn.name, 'fields': len(got),
                               'first': ['%s@%s/%s' % (f, o, w) for o, w, f in got[:6]]})
            for df in diffs[:6]:
                rep.violation('K1', vkey('K1', fn.name, '%s:%s' % (layout, df.split(':')[0][:40]), ''), fn.loc(fn.span),
                              'on-disk layout `%s`, %s: %s' % (layout, side, df))
            if side == 'encoder' and layout.startswith('boot_sector'):
                for o, w, f in got:
                    if f == 'reserved_1':
                        offs['fat32' if fat32 else 'fat12_16'] = o
    if len(offs) == 2:
        ctx.cache['bpb_reserved_1_offsets'] = offs
    rep.counts['K1.fields'] = sum(len(v) for v in spec.values())

    # ---------------- K3 entry position provenance
    for name in ('fatfs::dir::DirIter::read_dir_entry', 'fatfs::dir::Dir::write_entry'):
        fn = facts.fns.get(name)
        if fn is None:
            rep.machinery('ANCHOR-MISSING ' + name)
            continue
        d = Deps(fn)
        # every entry value built here (not just one of them) gets its position that way
        built = 0
        good = 0
        for bi in fn.reachable():
            for s in fn.blocks[bi]['stmts']:
                if s['k'] == 'assign' and s['rv']['k'] == 'agg' and 'entry_pos' in s['rv'].get('fields', []):
                    built += 1
                    o = s['rv']['ops'][s['rv']['fields'].index('entry_pos')]
                    toks = d.of_operand(o)
                    if any(tk[0] == 'call' and tk[1].endswith('::abs_pos') for tk in toks) and ('op', 'Sub') in toks and (
                            ('const', 32) in toks or any(tk[0] == 'constpath' and tk[1].endswith('DIR_ENTRY_SIZE') for tk in toks)):
                        good += 1
        ok = built > 0 and good == built
        rep.oblige('K3', name, ok=ok, nontrivial=True)
        if not ok:
            rep.violation('K3', vkey('K3', name, 'entry_pos', ''), fn.loc(fn.span),
                          '%s does not derive the entry position from the stream position after the short entry minus '
                          'the entry size' % name)

    # ---------------- K4 extents
    # wherever an `Extent` is built (the closure of `File::extents` on the pinned tree; an iterator adaptor's `next` elsewhere)
    builders = []
    for nm, fn in facts.fns.items():
        if fn.crate not in ('fatfs', 'fatfs-inlined') or nm.startswith('<fatfs::file::Extent as '):  # (derived Clone copies)
            continue
        for bi in fn.reachable():
            for s in fn.blocks[bi]['stmts']:
                if s['k'] == 'assign' and s['rv']['k'] == 'agg' and s['rv'].get('adt') == 'fatfs::file::Extent':
                    builders.append((fn, s))
    if not builders:
        rep.machinery('ANCHOR-MISSING no function builds a fatfs::file::Extent')
    for EX in sorted({fn.name for fn, _s in builders}):
        EX = facts.fns[EX]
        d = Deps(EX)
        ok = True
        for fn, s in builders:
            if fn is not EX:
                continue
            f = s['rv']['fields']
            to = d.of_operand(s['rv']['ops'][f.index('offset')])
            ts = d.of_operand(s['rv']['ops'][f.index('size')])
            if not (any(tk[0] == 'call' and tk[1].endswith('::offset_from_cluster') for tk in to) and any(
                    tk[0] == 'call' and tk[1].endswith('::min') for tk in ts)):
                ok = False
        rep.oblige('K4', EX.name, ok=ok, nontrivial=True)
        if not ok:
            rep.violation('K4', vkey('K4', EX.name, 'extent', ''), EX.loc(EX.span),
                          'an extent is not offset_from_cluster(cluster) clipped to the bytes left in the file')


# ---------------------------------------------------------------------------------------------
# K5  a setter of the cached directory entry stores every field its getter reads, on every path

ENTRY = 'fatfs::dir_entry::DirFileEntryData::'
ACCESSOR_PAIRS = [('first_cluster', 'set_first_cluster'), ('size', 'set_size'), ('created', 'set_created'),
                  ('accessed', 'set_accessed'), ('modified', 'set_modified')]


def _self_fields(place):
    """field names reached through `*self` in a place (param 1)"""
    if place['l'] != 1:
        return []
    return [e.get('n') for e in place['p'] if 'f' in e and e.get('n') is not None][:1]


def _fat_test(fn, bi, deps):
    """(kind, {truth value: [targets]}) when the switch at bi tests the FAT-type parameter, else None"""
    from analyses import switch_source, nonzero_targets, zero_targets
    from model import op_place
    t = fn.blocks[bi]['term']
    src = switch_source(fn, bi)
    if not src:
        return None
    fat_params = {i for i in range(1, fn.argc + 1)
                  if (fn.local_ty(i) or {}).get('k') == 'adt' and fn.local_ty(i).get('path', '').endswith('::FatType')}
    if not fat_params:
        return None
    if src['kind'] == 'call' and (src.get('callee') or '') in ('core::cmp::PartialEq::eq', 'core::cmp::PartialEq::ne'):
        toks = set()
        for a in src['term']['args']:
            toks |= deps.of_operand(a)
        if any(('param', i) in toks for i in fat_params):
            eq = src['callee'].endswith('::eq')
            return 'eq', {eq: nonzero_targets(t), (not eq): zero_targets(t)}
    if src['kind'] == 'discr' and src['place']['l'] in fat_params and not src['place']['p']:
        arms = {('v', v): [tg] for v, tg in t['targets']}
        arms[('v', 'other')] = [t['otherwise']]
        return 'discr', arms
    return None


def _paths(fn, collect, limit=400):
    """acyclic entry->return paths: [(outcomes, set of collected field names)]"""
    deps = Deps(fn)
    tests = {bi: _fat_test(fn, bi, deps) for bi in fn.reachable() if fn.blocks[bi]['term']['k'] == 'switch'}
    out = []
    stack = [(0, (), frozenset(), frozenset())]
    n = 0
    while stack:
        b, outc, got, seen = stack.pop()
        n += 1
        if n > 20000 or len(out) > limit:
            return None
        if b in seen:
            continue
        seen = seen | {b}
        got = got | collect(fn, b)
        t = fn.blocks[b]['term']
        if t['k'] == 'return':
            out.append((dict(outc), got))
            continue
        ft = tests.get(b)
        if ft:
            kind, arms = ft
            for truth, tgts in arms.items():
                for tg in tgts:
                    stack.append((tg, outc + ((kind, truth), ), got, seen))
            continue
        for s in fn.succ(b):
            if not fn.blocks[s].get('cleanup'):
                stack.append((s, outc, got, seen))
    return out


def _reads(fn, b):
    from model import places_read_by_rvalue, op_place
    out = set()
    blk = fn.blocks[b]
    for s in blk['stmts']:
        if s['k'] == 'assign':
            for pl in places_read_by_rvalue(s['rv']):
                out |= set(_self_fields(pl))
    t = blk['term']
    for o in (t.get('args') or []):
        pl = op_place(o)
        if pl is not None:
            out |= set(_self_fields(pl))
    return frozenset(out)


def _writes(fn, b):
    out = set()
    for s in fn.blocks[b]['stmts']:
        if s['k'] == 'assign' and s['lhs']['p']:
            out |= set(_self_fields(s['lhs']))
    return frozenset(out)


def _compatible(o1, o2):
    """can a getter path and a setter path be taken for the same FAT type?  None when the two use tests that cannot be
    related (one compares, the other matches on the variant)"""
    if not o1 or not o2:
        return True
    if set(o1) != set(o2):
        return None
    return all(o1[k] == o2[k] for k in o1)


def run_accessors(ctx, rep):
    facts = ctx.facts
    for g, s_ in ACCESSOR_PAIRS:
        G, S = facts.fns.get(ENTRY + g), facts.fns.get(ENTRY + s_)
        if G is None or S is None:
            rep.machinery('ANCHOR-MISSING %s%s / %s' % (ENTRY, g, s_))
            continue
        gp, sp = _paths(G, _reads), _paths(S, _writes)
        if gp is None or sp is None:
            rep.notes.append('K5: too many paths in %s / %s, pair not decided' % (g, s_))
            continue
        bad = None
        undecided = False
        for so, sw in sp:
            for go, gr in gp:
                c = _compatible(go, so)
                if c is None:
                    undecided = True
                    continue
                if c and not gr <= sw:
                    bad = (so, sorted(gr - sw), sorted(sw))
        if undecided and not bad:
            rep.notes.append('K5: getter and setter %s / %s test the FAT type in unrelated ways, pair not decided' % (g, s_))
        rep.oblige('K5', ENTRY + s_, ok=bad is None, nontrivial=True,
                   sample={'getter': ENTRY + g, 'setter': ENTRY + s_, 'getter_paths': len(gp), 'setter_paths': len(sp),
                           'rule': 'on every path the setter stores every field the getter reads for the same FAT type'})
        if bad:
            rep.violation('K5', vkey('K5', ENTRY + s_, 'covers-getter', ''), S.loc(S.span),
                          '`%s` has a path (%s) that stores only %s although `%s` reads %s for the same FAT type: the part that '
                          'is not stored keeps its old value (a stale half of a cluster number, a stale time byte)' %
                          (s_, bad[0] or 'unconditional', bad[2], g, bad[1] + bad[2]))


_run_k1 = run


def run(ctx, rep):
    _run_k1(ctx, rep)
    run_accessors(ctx, rep)


# ---------------------------------------------------------------------------------------------
# K1b  what the boot-sector decoder overwrites after reading is confined to the fields the specification makes optional

# FAT specification: BS_VolID, BS_VolLab and BS_FilSysType are meaningful only when BS_BootSig is 0x29. Every other field
# of the BPB - in particular BS_Reserved1, the status byte - is valid whatever the signature says.
EXT_SIG_DEPENDENT_SPEC_FIELDS = ('BS_VolID', 'BS_VolLab', 'BS_FilSysType')
BPB_DESERIALIZE = 'fatfs::boot_sector::BiosParameterBlock::deserialize'


def run_decoder_overwrites(ctx, rep):
    facts = ctx.facts
    fn = facts.fns.get(BPB_DESERIALIZE)
    if fn is None:
        rep.machinery('ANCHOR-MISSING ' + BPB_DESERIALIZE)
        return
    spec = json.load(open(os.path.join(VERIF, 'tables', 'spec_layouts.json')))
    allowed = {r['field'] for lay in ('boot_sector_fat12_16', 'boot_sector_fat32') for r in spec[lay]
               if r['spec'] in EXT_SIG_DEPENDENT_SPEC_FIELDS}
    d = Deps(fn)
    over = {}
    for bi in fn.reachable():
        for s in fn.blocks[bi]['stmts']:
            if s['k'] != 'assign' or not s['lhs']['p']:
                continue
            names = [e.get('n') for e in s['lhs']['p'] if 'f' in e and e.get('n')]
            if len(names) != 1:
                continue
            rv = s['rv']
            toks = set()
            from model import operands_of_rvalue
            for o in operands_of_rvalue(rv):
                toks |= d.of_operand(o)
            from_device = any(tk[0] == 'call' and tk[1].rsplit('::', 1)[-1].startswith(('read_', 'read')) for tk in toks) or \
                any(tk[0] == 'param' for tk in toks)
            if rv['k'] in ('use', 'repeat', 'cast', 'agg') and not from_device and not any(tk[0] == 'field' for tk in toks):
                over.setdefault(names[0], fn.loc(s['span']))
    bad = sorted(f for f in over if f not in allowed)
    rep.oblige('K1b', fn.name, ok=not bad, nontrivial=True,
               sample={'fn': fn.name, 'fields_overwritten_with_constants_after_decoding': sorted(over), 'allowed_by_the_specification': sorted(allowed)})
    if bad:
        rep.violation('K1b', vkey('K1b', fn.name, 'overwrites:' + ','.join(bad), ''), over[bad[0]],
                      'the boot-sector decoder replaces %s by a constant after reading it; the specification makes only %s '
                      'depend on the boot signature, every other field (the status byte BS_Reserved1 in particular) is what the '
                      'volume says' % (bad, sorted(allowed)))


_run_k5 = run


def run(ctx, rep):
    _run_k5(ctx, rep)
    run_decoder_overwrites(ctx, rep)
