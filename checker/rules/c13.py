"""C13 - read-only use never writes (DESIGN.md section 4, obligations O1-O3; proof over the mono call graph).

O1  every device write reachable from a read-only root is behind one of the three write-back latches
O2  no latch can be set from a read-only root (except the two cases the statement names)
O3  the status-byte latch: value written == value compared, starts equal to the mount-time byte,
    and is only ever asked for `false` from read-only roots
"""
from analyses import (Deps, dev_leaf_kind, edge_dominates, field_owner, nonzero_targets, switch_source, zero_targets,
                      const_operand_value)
from core import vkey
from model import op_const, op_place, place_key

LATCH_ADTS = {
    'fatfs::dir_entry::DirEntryEditor': 'entry',
    'fatfs::fs::FsInfoSector': 'fsinfo',
    'vf_witness::controls::CtlEditor': 'entry',  # positive control only
}
STATUS_ADT = 'fatfs::fs::FsStatusFlags'
STATUS_CELL = 'current_status_flags'
RO_PREFIXES = ('root_ro_', 'root_mount_', 'root_drop_')


def ro_roots(facts):
    out = {}
    for name, iid in facts.roots.items():
        short = name.rsplit('::', 1)[-1]
        if short.startswith(RO_PREFIXES) or short.startswith(('control_o1_', 'control_o2_')):
            out[name] = iid
    return out


def last_field(p):
    names = [e.get('n') for e in p['p'] if 'f' in e]
    return names[-1] if names else None


def _decides_debug_assert(fn, bi):
    """is one arm of the switch at bi the failure of a `debug_assert!` (the test is the assertion's, not a latch)?"""
    for x in fn.succ(bi):
        cur = x
        for _ in range(6):
            tx = fn.blocks[cur]['term']
            if tx['k'] == 'call' and (tx.get('callee') or '').startswith('core::panicking::') and \
                    (tx['span'].get('expn') or '').startswith('debug_assert'):
                return True
            if tx['k'] in ('goto', 'drop') or (tx['k'] == 'call' and tx.get('ret') is not None and
                                               (tx['span'].get('expn') or '').startswith('debug_assert')):
                nxt = fn.succ(cur)
                if len(nxt) != 1:
                    break
                cur = nxt[0]
                continue
            break
    return False


def latch_guards(fn):
    """[(kind, frozenset(edges), switch_blk)]"""
    out = []
    for bi in fn.reachable():
        t = fn.blocks[bi]['term']
        if t['k'] != 'switch':
            continue
        src = switch_source(fn, bi)
        if src is None:
            continue
        if _decides_debug_assert(fn, bi):
            continue
        if src['kind'] == 'place' and last_field(src['place']) == 'dirty':
            owner = field_owner(fn, src['place'], 'dirty')
            if owner in LATCH_ADTS:
                out.append((LATCH_ADTS[owner], frozenset((bi, x) for x in nonzero_targets(t)), bi))
        elif src['kind'] == 'call' and (src['callee'] or '').endswith(('PartialEq::eq', 'PartialEq::ne')):
            ga = src['term'].get('gargs') or []
            if ga and fn.ty(ga[0]).get('path') == STATUS_ADT:
                # the arm on which the two status values differ
                differ = zero_targets(t) if src['callee'].endswith('::eq') else nonzero_targets(t)
                # (the comparison of a `debug_assert_eq!` is no latch: one of its arms is the assertion's own failure)
                dbg = False
                for x in fn.succ(bi):
                    cur = x
                    for _ in range(6):
                        tx = fn.blocks[cur]['term']
                        if tx['k'] == 'call' and (tx.get('callee') or '').startswith('core::panicking::') and \
                                (tx['span'].get('expn') or '').startswith('debug_assert'):
                            dbg = True
                            break
                        if tx['k'] in ('goto', ) or (tx['k'] == 'call' and tx.get('ret') is not None and
                                                    (tx['span'].get('expn') or '').startswith('debug_assert')):
                            nxt = fn.succ(cur)
                            if len(nxt) != 1:
                                break
                            cur = nxt[0]
                            continue
                        break
                if dbg:
                    continue
                out.append(('status', frozenset((bi, x) for x in differ), bi))
    return out


def guarded_blocks(fn, cache):
    if fn.name in cache:
        return cache[fn.name]
    res = {}
    guards = latch_guards(fn)
    if guards:
        for bi in fn.reachable():
            for kind, edges, sw in guards:
                if edge_dominates(fn, edges, bi):
                    res[bi] = kind
                    break
    cache[fn.name] = res
    return res


def option_guarded_blocks(fn, field, owner_suffix):
    """blocks dominated by the true edge of a switch on a bool field named `field`"""
    res = set()
    for bi in fn.reachable():
        t = fn.blocks[bi]['term']
        if t['k'] != 'switch':
            continue
        src = switch_source(fn, bi)
        if src and src['kind'] == 'place' and last_field(src['place']) == field:
            owner = field_owner(fn, src['place'], field) or ''
            if owner.endswith(owner_suffix):
                edges = frozenset((bi, x) for x in nonzero_targets(t))
                for b2 in fn.reachable():
                    if edge_dominates(fn, edges, b2):
                        res.add(b2)
    return res


def stats_none_arm_blocks(fn):
    """blocks of the statistics query that are dominated by the `cached count is None` edge"""
    res = set()
    deps = Deps(fn)
    for bi in fn.reachable():
        t = fn.blocks[bi]['term']
        if t['k'] != 'switch':
            continue
        src = switch_source(fn, bi)
        if not src or src['kind'] != 'discr':
            continue
        toks = deps.of_place(src['place'])
        if ('field', 'free_cluster_count') not in toks:
            continue
        # Option: None = 0
        explicit = {v for v, _ in t['targets']}
        none_t = [x for v, x in t['targets'] if v == 0]
        if 0 not in explicit:
            none_t.append(t['otherwise'])
        edges = frozenset((bi, x) for x in none_t)
        for b2 in fn.reachable():
            if edge_dominates(fn, edges, b2):
                res.add(b2)
    return res


def find_path(facts, start, goal_pred, edge_ok):
    """BFS over instances; returns [(inst, bb)] path or None"""
    from collections import deque
    prev = {start: None}
    dq = deque([start])
    while dq:
        x = dq.popleft()
        if goal_pred(x):
            out = []
            while x is not None:
                out.append(x)
                x = prev[x][0] if prev[x] else None
            return out[::-1]
        for bb, c, kind in facts.out_edges[x]:
            if c in prev or not edge_ok(x, bb, c, kind):
                continue
            prev[c] = (x, bb)
            dq.append(c)
    return None


def setters(facts):
    """[(fn, latch, blk, span, how)]: places where a latch is set to true (or to a non-constant value)"""
    out = []
    for fn in facts.fns.values():
        if fn.crate != 'fatfs' and '::controls::' not in fn.name:
            continue
        derived = bool(fn.span.get('expn')) and (fn.impl_trait or '').startswith(('core::clone::Clone',
                                                                                   'core::default::Default'))
        for bi in fn.reachable():
            for s in fn.blocks[bi]['stmts']:
                if s['k'] != 'assign':
                    continue
                lhs = s['lhs']
                rv = s['rv']
                if last_field(lhs) == 'dirty' and lhs['p'] and 'f' in lhs['p'][-1]:
                    owner = field_owner(fn, lhs, 'dirty')
                    if owner in LATCH_ADTS and rv['k'] == 'use':
                        v = const_operand_value(rv['a'])
                        if v == 0 or derived:
                            continue
                        out.append((fn, LATCH_ADTS[owner], bi, s['span'], 'assign'))
                if rv['k'] == 'agg' and rv.get('ak') == 'adt' and rv['adt'] in LATCH_ADTS and 'dirty' in rv['fields']:
                    o = rv['ops'][rv['fields'].index('dirty')]
                    v = const_operand_value(o)
                    if v == 0 or derived:
                        continue
                    out.append((fn, LATCH_ADTS[rv['adt']], bi, s['span'], 'construct'))
    return out


CACHE_READS = ('core::cell::Cell::get', 'core::cell::Cell::replace', 'core::cell::Cell::take')
CACHE_WRITES = ('core::cell::Cell::set', 'core::cell::Cell::replace', 'core::cell::Cell::take', 'core::cell::Cell::swap')


def status_latch_problems(facts, eff, W):
    """shape conditions G1, G2, G4 of the status-byte latch in its writer W (see module docstring)"""
    deps = Deps(W)
    probs = []
    guards = [g for g in latch_guards(W) if g[0] == 'status']
    kind, edges, sw = guards[0]
    src = switch_source(W, sw)
    eq_args = [op_place(a) for a in src['term']['args']]
    # locals compared
    cmp_locals = []
    for a in eq_args:
        if a is None:
            continue
        s = None
        # &x
        for bi in W.reachable():
            for st in W.blocks[bi]['stmts']:
                if st['k'] == 'assign' and st['lhs']['l'] == a['l'] and st['rv']['k'] == 'ref':
                    s = st['rv']['p']['l']
        cmp_locals.append(s)
    # which is the cached one (from Cell::get on the status cell), which the computed one
    cached = computed = None
    for l in cmp_locals:
        if l is None:
            continue
        toks = deps.of_local(l)
        if ('field', STATUS_CELL) in toks and any(('call', c) in toks for c in CACHE_READS):
            cached = l
        else:
            computed = l
    if cached is None or computed is None:
        probs.append('the equality guard does not compare a computed value with Cell::get(%s)' % STATUS_CELL)
    else:
        ctoks = deps.of_local(computed)
        # G2: computed = status_flags(bpb) with `dirty |= arg`
        if not any(t[0] == 'call' and t[1].endswith('::status_flags') for t in ctoks):
            probs.append('computed flags do not derive from bpb.status_flags()')
        if ('field', 'bpb') not in ctoks:
            probs.append('computed flags do not derive from the mount-time BPB')
        # all assignments into the computed local
        param_locals = set(range(1, W.argc + 1))
        for bi in W.reachable():
            for st in W.blocks[bi]['stmts']:
                if st['k'] != 'assign' or st['lhs']['l'] != computed:
                    continue
                rv = st['rv']
                if not st['lhs']['p']:
                    probs.append('computed flags are overwritten at %s' % W.loc(st['span']))
                    continue
                if rv['k'] == 'binop' and rv['op'] == 'BitOr':
                    a = op_place(rv['a'])
                    if a is None or place_key(a) != place_key(st['lhs']):
                        probs.append('flag update at %s is not of the form `f |= arg`' % W.loc(st['span']))
                else:
                    probs.append('mount-time flag bits can be cleared or replaced at %s (not `|=`)' %
                                 W.loc(st['span']))
        # G1: the device write depends on the computed flags and is dominated by the `not equal` edge
        wrote = False
        for b2, tt in W.calls():
            if eff.fn_reaches_dev(W.name, b2, 'W'):
                wrote = True
                if not edge_dominates(W, edges, b2):
                    probs.append('status write at %s is not dominated by the `flags != cached` edge' %
                                 W.loc(tt['span']))
                atoks = set()
                for a in tt['args']:
                    atoks |= deps.of_operand(a)
                if ('local', computed) not in atoks:
                    probs.append('the byte written at %s does not depend on the compared flags' % W.loc(tt['span']))
        if not wrote:
            probs.append('no device write found in the status writer')
        # G4: Cell::set on the status cell only here, after the write's Ok edge, with the computed value
        for fn in facts.fns.values():
            if fn.crate != 'fatfs':
                continue
            for b2, tt in fn.calls():
                if tt.get('callee') in CACHE_WRITES:
                    d2 = Deps(fn) if fn is not W else deps
                    at = d2.of_operand(tt['args'][0])
                    if ('field', STATUS_CELL) not in at:
                        continue
                    if fn is not W:
                        probs.append('cached status flags are also set in %s' % fn.name)
                        continue
                    vt = d2.of_operand(tt['args'][1]) if len(tt['args']) > 1 else set()
                    if ('local', computed) not in vt:
                        probs.append('cached status flags are set to a value other than the one written')
                    from analyses import Must
                    m = Must(facts, lambda f, b, t, names: bool(eff.fn_reaches_dev(f.name, b, 'W')))
                    cut = m.crossing_edges(W, set())
                    if b2 in W.reach_from([0], cut_edges=cut):
                        probs.append('cached status flags are updated at %s without a successful status write' %
                                     W.loc(tt['span']))
    return probs


def run(ctx, rep):
    facts, eff = ctx.facts, ctx.effects
    roots = ro_roots(facts)
    if len([r for r in roots if '::controls::' not in r]) < {'default': 90, 'nounicode': 90, 'noalloc': 80, 'nostd': 40}.get(ctx.config, 40):
        rep.machinery('FLOOR only %d read-only roots in the witness crate' % len(roots))
    gcache = {}
    dev_w = eff.dev['W']
    inst_fn = lambda iid: facts.fns.get(facts.instances[iid]['fn'])

    # ---- O1
    frontiers = {}
    for rname, rid in sorted(roots.items()):
        is_control = '::controls::' in rname
        seen = {rid}
        stack = [(rid, [(rid, None)])]
        unguarded = None
        n_front = 0
        while stack:
            x, path = stack.pop()
            fn = inst_fn(x)
            g = guarded_blocks(fn, gcache) if fn is not None else {}
            for bb, c, kind in facts.out_edges[x]:
                if c not in dev_w:
                    continue
                if bb in g:
                    frontiers.setdefault((fn.name, g[bb]), set()).add(rname)
                    n_front += 1
                    continue
                if dev_leaf_kind(facts.instances[c]['fn']) == 'W':
                    if unguarded is None:
                        unguarded = path + [(c, bb)]
                    continue
                if c not in seen:
                    seen.add(c)
                    stack.append((c, path + [(c, bb)]))
        ok = unguarded is None
        rep.oblige('O1', rname, ok=ok, nontrivial=(rid in dev_w),
                   sample={'root': rname, 'instances_visited': len(seen), 'latch_frontiers_crossed': n_front,
                           'verdict': 'no device write reachable outside a latch guard'} if rid in dev_w else None)
        if not ok:
            chain = []
            for iid, bb in unguarded:
                f = inst_fn(iid)
                loc = ''
                chain.append(facts.instances[iid]['fn'])
            # report at the last fatfs function on the path
            last_fat = None
            for (iid, bb), (nid, nbb) in zip(unguarded, unguarded[1:]):
                f = inst_fn(iid)
                if f is not None and f.crate == 'fatfs' and f.file() != 'src/io.rs':
                    last_fat = (f, nbb)
            where = '?'
            snip = ''
            fname = chain[-2] if len(chain) > 1 else chain[-1]
            if last_fat:
                f, bb = last_fat
                t = f.blocks[bb]['term']
                where = f.loc(t['span'])
                snip = t['span']['snip']
                fname = f.name
            rep.violation('O1', vkey('O1', fname, 'device-write', snip), where,
                          'a device write is reachable from the read-only root %s without crossing a write-back '
                          'latch (entry.dirty / fs_info.dirty / status-flags equality)' % rname.rsplit('::', 1)[-1],
                          ['call path: ' + ' -> '.join(chain)], control=is_control)
    kinds = {k for (_, k) in frontiers}
    for need in ('entry', 'fsinfo', 'status'):
        if need not in kinds and not any(v.rule == 'O1' for v in rep.violations):
            rep.machinery('ANCHOR-MISSING latch guard `%s` not found on any read-only path' % need)
    for (fname, kind), rs in sorted(frontiers.items()):
        rep.notes.append('latch frontier %s in %s crossed from %d read-only roots' % (kind, fname, len(rs)))

    # ---- O1b  the FS-info write-back is additionally gated on the FAT type
    for (fname, kind) in frontiers:
        if kind != 'fsinfo':
            continue
        fn = facts.fns[fname]
        ok = False
        for bi in fn.reachable():
            t = fn.blocks[bi]['term']
            if t['k'] != 'switch':
                continue
            src = switch_source(fn, bi)
            if src and src['kind'] == 'call' and (src['callee'] or '').endswith(('PartialEq::eq', 'PartialEq::ne')):
                ga = src['term'].get('gargs') or []
                if ga and fn.ty(ga[0]).get('path') == 'fatfs::fs::FatType':
                    equal = nonzero_targets(t) if src['callee'].endswith('::eq') else zero_targets(t)
                    edges = frozenset((bi, x) for x in equal)
                    for b2, tt in fn.calls():
                        if eff.fn_reaches_dev(fn.name, b2, 'W') and edge_dominates(fn, edges, b2):
                            ok = True
        rep.oblige('O1b', fname, ok=ok, nontrivial=True)
        if not ok:
            rep.violation('O1b', vkey('O1b', fname, 'fat-type-gate', ''), fn.loc(fn.span),
                          'the FS-information write-back in %s is not gated on the FAT type (the statement allows it '
                          'on FAT32 only)' % fname)

    # ---- O2
    allowed_blocks = {}  # fn name -> set of blocks whose call edges are cut
    for fn in facts.fns.values():
        if fn.crate not in ('fatfs', 'fatfs-inlined'):  # (an inlined closure keeps its instances in the call graph)
            continue
        s = option_guarded_blocks(fn, 'update_accessed_date', 'FsOptions')
        if fn.name == 'fatfs::fs::FileSystem::stats':
            s |= stats_none_arm_blocks(fn)
        if s:
            allowed_blocks[fn.name] = s
    if 'fatfs::fs::FileSystem::stats' not in facts.fns:
        rep.machinery('ANCHOR-MISSING fatfs::fs::FileSystem::stats')

    def edge_ok(x, bb, c, kind):
        nm = facts.instances[x]['fn']
        return not (nm in allowed_blocks and bb in allowed_blocks[nm])

    reach = facts.reach_from_insts(list(roots.values()), edge_filter=edge_ok)
    reach_all = facts.reach_from_insts(list(roots.values()))
    sts = setters(facts)
    n_set = {}
    for fn, latch, bi, span, how in sts:
        is_control = fn.crate != 'fatfs'
        n_set[latch] = n_set.get(latch, 0) + 1
        ids = facts.insts_of.get(fn.name, [])
        hit = [i for i in ids if i in reach]
        via_exception = [i for i in ids if i in reach_all and i not in reach]
        rep.oblige('O2', '%s|%s' % (fn.name, latch), ok=not hit, nontrivial=True,
                   sample={'setter': fn.name, 'latch': latch, 'at': fn.loc(span),
                           'reachable_from_read_only_api': bool(hit),
                           'reachable_only_through_documented_exception': bool(via_exception)})
        if hit:
            # witness path
            for rname, rid in sorted(roots.items()):
                p = find_path(facts, rid, lambda x: x == hit[0], edge_ok)
                if p:
                    chain = [facts.instances[i]['fn'] for i in p]
                    rep.violation('O2', vkey('O2', fn.name, latch, span['snip']), fn.loc(span),
                                  'the %s write-back latch is set in %s, which is reachable from the read-only root %s'
                                  % (latch, fn.name, rname.rsplit('::', 1)[-1]),
                                  ['call path: ' + ' -> '.join(chain)], control=is_control)
                    break
    for latch in ('entry', 'fsinfo'):
        if n_set.get(latch, 0) < 3:
            rep.machinery('FLOOR only %d setters of the %s latch found (confirmed: 5 / 3)' % (n_set.get(latch, 0), latch))

    # ---- O3 the status latch
    status_writers = [facts.fns[f] for (f, k) in frontiers if k == 'status']
    for W in status_writers:
        probs = status_latch_problems(facts, eff, W)
        rep.oblige('O3.writer', W.name, ok=not probs, nontrivial=True,
                   sample={'fn': W.name, 'checks': 'G1 write dominated by flags!=cached edge and depends on flags; G2 '
                           'flags = bpb.status_flags() with only `|= arg`; G4 cache updated only after a successful '
                           'write', 'problems': probs})
        for pr in probs:
            rep.violation('O3', vkey('O3', W.name, pr.split(' at ')[0], ''), W.loc(W.span),
                          'status-byte latch in %s: %s (a read-only session on a volume mounted dirty could rewrite '
                          'the boot sector)' % (W.name, pr))
        # G3: constructor initialises the cell from bpb.status_flags()
        n_ctor = 0
        for fn in facts.fns.values():
            if fn.crate != 'fatfs':
                continue
            for bi in fn.reachable():
                for st in fn.blocks[bi]['stmts']:
                    rv = st.get('rv')
                    if st['k'] == 'assign' and rv['k'] == 'agg' and rv.get('ak') == 'adt' and STATUS_CELL in rv.get(
                            'fields', []):
                        n_ctor += 1
                        d2 = Deps(fn)
                        o = rv['ops'][rv['fields'].index(STATUS_CELL)]
                        toks = d2.of_operand(o)
                        ok = any(t[0] == 'call' and t[1].endswith('::status_flags') for t in toks) and \
                            ('call', 'core::cell::Cell::new') in toks
                        # and the same bpb goes into the struct
                        if 'bpb' in rv['fields']:
                            btoks = d2.of_operand(rv['ops'][rv['fields'].index('bpb')])
                            shared = [t for t in toks & btoks if t[0] == 'local' and
                                      fn.local_ty(t[1]).get('path') == 'fatfs::boot_sector::BiosParameterBlock']
                            if not shared:
                                ok = False
                        extra = [t for t in toks if t[0] == 'const' and t[1] not in (0, )]
                        rep.oblige('O3.ctor', fn.name, ok=ok, nontrivial=True)
                        if not ok:
                            rep.violation('O3', vkey('O3', fn.name, 'ctor', st['span']['snip']), fn.loc(st['span']),
                                          'the cached status flags are not initialised from the mounted BPB\'s '
                                          'status_flags() in %s' % fn.name)
        if n_ctor != 1:
            rep.machinery('ANCHOR constructor of the struct holding `%s`: found %d (expected 1)' % (STATUS_CELL, n_ctor))
        # G5: every call of the writer reachable from read-only roots passes constant false
        for fn in facts.fns.values():
            if fn.crate != 'fatfs':
                continue
            ids = [i for i in facts.insts_of.get(fn.name, []) if i in reach_all]
            if not ids:
                continue
            for b2, tt in fn.calls():
                if tt.get('callee') != W.name:
                    continue
                v = const_operand_value(tt['args'][-1])
                ok = (v == 0)
                rep.oblige('O3.arg', '%s|bb%d' % (fn.name, b2), ok=ok, nontrivial=True)
                if not ok:
                    rep.violation('O3', vkey('O3', fn.name, 'arg', tt['span']['snip']), fn.loc(tt['span']),
                                  '%s asks for the dirty flag with a non-`false` argument and is reachable from the '
                                  'read-only API' % fn.name)
    if not status_writers and not any(v.rule == 'O1' for v in rep.violations):
        rep.machinery('ANCHOR-MISSING status writer (no status latch frontier)')


def wstar(facts, gcache):
    """instances from which a device write is reachable WITHOUT crossing a latch-guarded call site (DEV_W*):
    a structural mutation, as opposed to a write-back that only happens when a latch is already set"""
    from collections import deque
    leaves = [i['id'] for i in facts.instances if dev_leaf_kind(i['fn']) == 'W']
    seen = set(leaves)
    dq = deque(leaves)
    while dq:
        x = dq.popleft()
        for a, bb, kind in facts.in_edges[x]:
            if a in seen:
                continue
            fn = facts.fns.get(facts.instances[a]['fn'])
            if fn is not None and bb in guarded_blocks(fn, gcache):
                continue
            seen.add(a)
            dq.append(a)
    return seen


def mutation_sites(facts, fn, ws, gcache):
    """call/drop blocks of fn that may perform an unguarded device write in some instance"""
    out = []
    g = guarded_blocks(fn, gcache)
    for bi in sorted(fn.reachable()):
        t = fn.blocks[bi]['term']
        if t['k'] not in ('call', 'drop') or bi in g:
            continue
        if t['k'] == 'call' and t.get('callee') == fn.name:
            continue  # recursion into the same operation on a sub-path: judged in its own right
        for iid in facts.insts_of.get(fn.name, []):
            if any(c in ws for c, k in facts.edge_at.get((iid, bi), ())):
                out.append(bi)
                break
    return out
