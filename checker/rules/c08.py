"""C08 - foreign volumes are read faithfully (DESIGN.md section 4, rules X1-X6).

X1  FAT-entry classification tables of Fat12/16/32::get equal the specification for every raw value (A9, exact)
X2  every FAT32 entry test masks the reserved nibble (shared with C05)
X3  slot-format constants and the deleted / end-of-directory / 0x05 predicates
X4  read-modify-write preservation of FAT32 reserved bits and of the FAT12 neighbour nibble
X5  entry skipping: deleted, or volume label when asked to
X6  active table / mirroring selection (shared with C10)
"""
from analyses import Deps, switch_source
from core import vkey
from decision import decision_table, diff_tables, fmt_rows
from model import op_const, op_place, place_key
from rules import dtables
from rules.dtables import AnchorMissing

U32MAX = 0xFFFFFFFF


def spec_fat_table(width):
    if width == 12:
        return [(0, 0, 'Free'), (1, 0xFF6, 'Data'), (0xFF7, 0xFF7, 'Bad'), (0xFF8, 0xFFF, 'EndOfChain')], 0xFFF
    if width == 16:
        return [(0, 0, 'Free'), (1, 0xFFF6, 'Data'), (0xFFF7, 0xFFF7, 'Bad'), (0xFFF8, 0xFFFF, 'EndOfChain')], 0xFFFF
    return [(0, 0, 'Free'), (1, 0x0FFFFFF6, 'Data'), (0x0FFFFFF7, 0x0FFFFFF7, 'Bad'),
            (0x0FFFFFF8, 0x0FFFFFFF, 'EndOfChain')], 0x0FFFFFFF


def normalise_fat_outcomes(o):
    """FAT32's special-cluster guard may only turn an outcome into Bad"""
    o = set(o)
    if len(o) == 2 and 'Bad' in o:
        o.discard('Bad')
    return frozenset(o)


SPEC_CONSTS = {
    'fatfs::dir_entry::DIR_ENTRY_DELETED_FLAG': 0xE5,
    'fatfs::dir_entry::DIR_ENTRY_REALLY_E5_FLAG': 0x05,
    'fatfs::dir_entry::DIR_ENTRY_SIZE': 32,
    'fatfs::dir_entry::SFN_SIZE': 11,
    'fatfs::dir_entry::SFN_PADDING': 0x20,
    'fatfs::dir_entry::LFN_PART_LEN': 13,
    'fatfs::table::RESERVED_FAT_ENTRIES': 2,
    'fatfs::dir::MAX_LONG_NAME_LEN': 255,
}
SPEC_CONSTS_LFN = {
    'fatfs::dir_entry::LFN_ENTRY_LAST_FLAG': 0x40,
    'fatfs::dir::LFN_PADDING': 0xFFFF,
}


def bool_predicate_table(fn, field, index=None):
    """decision table of a small `fn(&self) -> bool` over the byte it reads from self.<field>[index]"""
    var = None
    blk = None
    for bi in sorted(fn.reachable()):
        for s in fn.blocks[bi]['stmts']:
            if s['k'] == 'assign' and s['rv']['k'] == 'use' and not s['lhs']['p']:
                p = op_place(s['rv']['a'])
                if p is None:
                    continue
                names = [e.get('n') for e in p['p'] if 'f' in e]
                idx = [e.get('ci') for e in p['p'] if 'ci' in e]
                for e in p['p']:
                    if 'idx' in e:
                        from analyses import last_def_in_block
                        for b2 in sorted(fn.reachable()):
                            d = last_def_in_block(fn, b2, e['idx'])
                            if d is not None and d['rv']['k'] == 'use' and op_const(d['rv']['a']):
                                idx.append(op_const(d['rv']['a']).get('val'))
                if names and names[-1] == field and (index is None or idx == [index]):
                    var, blk = place_key(s['lhs']), bi
                    break
        if var:
            break
    if var is None:
        return None

    def classify(w, blk2, env, refs, phase):
        if phase == 'exit':
            v = env.get((0, ()))
            return 'unknown' if v is None else ('true' if v else 'false')
        return None

    rows, consts = decision_table(fn, var, fn.local_ty(var[0]), blk, classify, pin=True)
    return rows


def run_x2(ctx, rep):
    from rules.c05 import run as _  # noqa: F401  (X2 lives in c05.run; re-run only that part here)


def run(ctx, rep):
    facts = ctx.facts
    # ---------------- X1
    for width in (12, 16, 32):
        try:
            fn, rows, consts, masked, sw = dtables.fat_get_table(facts, width)
        except AnchorMissing as e:
            rep.machinery('ANCHOR-MISSING %s' % e)
            continue
        spec, maxv = spec_fat_table(width)
        got = [(a, min(b, maxv), normalise_fat_outcomes(o)) for a, b, o in rows if a <= maxv]
        want = [(a, b, frozenset([o])) for a, b, o in spec]
        df = diff_tables(got, want)
        ok = not df
        if width == 32:
            if masked != 0x0FFFFFFF:
                ok = False
                df = df + [('mask', masked, None, 0x0FFFFFFF)]
            # the guard may only add Bad
            for a, b, o in rows:
                extra = set(o) - {'Free', 'Data', 'Bad', 'EndOfChain'}
                if extra:
                    ok = False
                    df.append((a, b, frozenset(o), 'only FatValue outcomes'))
        rep.oblige('X1', 'Fat%d::get' % width, ok=ok, nontrivial=True,
                   sample={'fn': fn.name, 'domain': '0..=0x%X (all raw values%s)' % (
                       maxv, ' after & 0x0FFF_FFFF' if width == 32 else ''), 'cut_constants': [hex(c) for c in consts],
                       'table': fmt_rows(rows)})
        if not ok:
            detail = []
            for d in df[:6]:
                if d[0] == 'mask':
                    detail.append('entry value is masked with %s, specification: 0x0FFFFFFF' % (
                        hex(d[1]) if d[1] is not None else 'nothing'))
                else:
                    detail.append('raw 0x%X..0x%X classified %s, specification says %s' % (
                        d[0], d[1], sorted(d[2]) if d[2] else None, sorted(d[3]) if hasattr(d[3], '__iter__') and not
                        isinstance(d[3], str) else d[3]))
            rep.violation('X1', vkey('X1', fn.name, 'class-table', ''), fn.loc(fn.span),
                          'FAT%d entry classification differs from the FAT specification' % width, detail)

    # ---------------- X2 (FAT32 mask agreement; rule body shared with C05)
    from rules import c05
    sub = type(rep)(rep.prop, rep.config)
    c05.run(ctx, sub)
    for k in ('X2', ):
        rep.counts[k] = sub.counts.get(k, 0)
    rep.obligations += sub.counts.get('X2', 0)
    x2v = [v for v in sub.violations if v.rule == 'X2']
    rep.discharged += sub.counts.get('X2', 0) - len(x2v)
    for v in x2v:
        rep.violations.append(v)
    rep.nontrivial |= {x for x in sub.nontrivial if x[0] == 'X2'}

    # ---------------- X3 constants and byte predicates
    consts = facts.consts
    want = dict(SPEC_CONSTS)
    if ctx.config != 'nostd':
        want.update(SPEC_CONSTS_LFN)
    for name, val in sorted(want.items()):
        c = consts.get(name)
        if c is None:
            rep.machinery('ANCHOR-MISSING constant ' + name)
            continue
        ok = c['val'] == val
        rep.oblige('X3', name, ok=ok)
        if not ok:
            rep.violation('X3', vkey('X3', name, 'value', ''), name,
                          'format constant %s is %d (0x%X), the FAT specification says %d (0x%X)' % (
                              name, c['val'], c['val'], val, val))
    preds = [('fatfs::dir_entry::DirFileEntryData::is_deleted', 'name', 0, [(0xE5, 0xE5)]),
             ('fatfs::dir_entry::DirFileEntryData::is_end', 'name', 0, [(0, 0)]),
             ('fatfs::dir_entry::DirLfnEntryData::is_deleted', 'order', None, [(0xE5, 0xE5)]),
             ('fatfs::dir_entry::DirLfnEntryData::is_end', 'order', None, [(0, 0)])]
    for name, field, idx, true_ranges in preds:
        fn = facts.fns.get(name)
        if fn is None:
            rep.machinery('ANCHOR-MISSING ' + name)
            continue
        rows = bool_predicate_table(fn, field, idx)
        if rows is None:
            rep.machinery('ANCHOR-MISSING %s: read of self.%s' % (name, field))
            continue
        want_rows = []
        prev = 0
        for a, b in true_ranges:
            if a > prev:
                want_rows.append((prev, a - 1, frozenset(['false'])))
            want_rows.append((a, b, frozenset(['true'])))
            prev = b + 1
        if prev <= 255:
            want_rows.append((prev, 255, frozenset(['false'])))
        df = diff_tables(rows, want_rows)
        rep.oblige('X3.pred', name, ok=not df, nontrivial=True, sample={'fn': name, 'table': fmt_rows(rows)})
        if df:
            rep.violation('X3', vkey('X3', name, 'predicate', ''), fn.loc(fn.span),
                          '%s is true for %s; the format says %s' % (
                              name, fmt_rows([r for r in rows if 'true' in r[2]]),
                              ['0x%X' % a for a, b in true_ranges]))
    # 0x05 lead byte stands for 0xE5
    SN = facts.fns.get('fatfs::dir_entry::ShortName::new')
    if SN is None:
        rep.machinery('ANCHOR-MISSING ShortName::new')
    else:
        found = False
        for bi in SN.reachable():
            t = SN.blocks[bi]['term']
            if t['k'] != 'switch':
                continue
            src = switch_source(SN, bi)
            if src and src['kind'] == 'binop' and src['op'] == 'Eq':
                cs = [op_const(src['a']), op_const(src['b'])]
                vals = [c.get('val') for c in cs if c]
                if 0x05 in vals:
                    # the true arm stores 0xE5
                    from analyses import edge_dominates, nonzero_targets
                    edges = {(bi, x) for x in nonzero_targets(t)}
                    for b2 in SN.reachable():
                        if not edge_dominates(SN, edges, b2):
                            continue
                        for s in SN.blocks[b2]['stmts']:
                            if s['k'] == 'assign' and s['rv']['k'] == 'use' and (op_const(s['rv']['a']) or {}).get(
                                    'val') == 0xE5:
                                found = True
        rep.oblige('X3.e5', SN.name, ok=found, nontrivial=True)
        if not found:
            rep.violation('X3', vkey('X3', SN.name, '0x05->0xE5', ''), SN.loc(SN.span),
                          'a short name whose first byte is 0x05 is not decoded as 0xE5')

    # ---------------- X4 read-modify-write preservation
    F32 = facts.fns.get('<fatfs::table::Fat<u32> as fatfs::table::FatTrait>::set')
    if F32 is None:
        rep.machinery('ANCHOR-MISSING Fat32::set')
    else:
        d = Deps(F32)
        reads = [b for b, t in F32.calls() if (t.get('callee') or '').endswith('::get_raw')]
        # every store of Fat32::set (not just one of them) carries the old reserved bits
        stores = [(b, t) for b, t in F32.calls() if (t.get('callee') or '').endswith('::set_raw')]
        ok = bool(stores)
        for b, t in stores:
            toks = d.of_operand(t['args'][-1])
            if not (any(('callsite', r) in toks for r in reads) and ('const', 0xF0000000) in toks and
                    ('op', 'BitAnd') in toks and ('op', 'BitOr') in toks):
                ok = False
        rep.oblige('X4', F32.name, ok=ok, nontrivial=True)
        if not ok:
            rep.violation('X4', vkey('X4', F32.name, 'reserved-bits', ''), F32.loc(F32.span),
                          'Fat32::set does not merge the old entry\'s reserved top four bits (& 0xF000_0000) into the '
                          'value it stores')
    # X4b: the old entry that Fat32::set reads back still has its reserved bits (the reader it uses does not mask them away)
    if F32 is not None:
        from intervals import Analysis, FnCtx
        readers = {t.get('callee') for b, t in F32.calls() if (t.get('callee') or '').endswith('::get_raw')}
        for rname in sorted(r for r in readers if r):
            RD = facts.fns.get(rname)
            if RD is None or not RD.blocks:
                # a call through the trait (`Self::get_raw`): the implementation next to this `set`
                rname = F32.name.rsplit('::', 1)[0] + '::' + rname.rsplit('::', 1)[-1]
                RD = facts.fns.get(rname)
            if RD is None:
                rep.machinery('ANCHOR-MISSING raw reader used by Fat32::set (%s)' % rname)
                continue
            an = Analysis(facts, RD, FnCtx({}, {}, set()), {}, 0)
            hi = None
            for bi in RD.reachable():
                for s_ in RD.blocks[bi]['stmts']:
                    if s_['k'] == 'assign' and s_['rv']['k'] == 'agg' and s_['rv'].get('variant') == 'Ok' and \
                            s_['rv'].get('adt', '').endswith('result::Result') and s_['rv']['ops']:
                        st_, _ = an.state_before_term(bi)
                        iv = an.read_operand(st_, s_['rv']['ops'][0]) if st_ is not None else None
                        if iv is None:
                            hi = 0xFFFFFFFF
                        else:
                            hi = iv[1] if hi is None else max(hi, iv[1])
            ok = hi is None or hi >= 0xF0000000
            rep.oblige('X4', rname + '|unmasked', ok=ok, nontrivial=True,
                       sample={'fn': rname, 'largest value the raw reader can return': hex(hi) if hi is not None else 'not an integer payload'})
            if not ok:
                rep.violation('X4', vkey('X4', rname, 'raw-reader-masks', ''), RD.loc(RD.span),
                              'the raw entry reader that Fat32::set uses to read the old entry can only return values up to %s: the '
                              'reserved top four bits are already masked away, so `old & 0xF000_0000` is always 0 and every update '
                              'clears them on disk' % hex(hi))
    # X2b: the cluster number Fat32::get hands out as the next link is the masked 28-bit value
    G32 = facts.fns.get('<fatfs::table::Fat<u32> as fatfs::table::FatTrait>::get')
    if G32 is not None:
        from intervals import Analysis, FnCtx
        an = Analysis(facts, G32, FnCtx({}, {}, set()), {}, 0)
        worst = None
        nd = 0
        for bi in G32.reachable():
            for s_ in G32.blocks[bi]['stmts']:
                if s_['k'] == 'assign' and s_['rv']['k'] == 'agg' and s_['rv'].get('variant') == 'Data' and \
                        s_['rv'].get('adt', '').endswith('FatValue') and s_['rv']['ops']:
                    nd += 1
                    st_, _ = an.state_before_term(bi)
                    iv = an.read_operand(st_, s_['rv']['ops'][0]) if st_ is not None else None
                    hi = iv[1] if iv is not None else 0xFFFFFFFF
                    worst = hi if worst is None else max(worst, hi)
        ok = nd > 0 and worst is not None and worst <= 0x0FFFFFFF
        rep.oblige('X2', G32.name + '|link-masked', ok=ok, nontrivial=True,
                   sample={'fn': G32.name, 'largest link value that can be returned': hex(worst) if worst is not None else None})
        if nd and not ok:
            rep.violation('X2', vkey('X2', G32.name, 'link-unmasked', ''), G32.loc(G32.span),
                          'Fat32::get can return FatValue::Data(n) with n up to %s: the reserved top four bits of the entry leak '
                          'into the next-cluster number (an entry with those bits set, which set() itself preserves, sends the '
                          'chain walk to a cluster far outside the volume)' % hex(worst))
    F12 = facts.fns.get('<fatfs::table::Fat<u8> as fatfs::table::FatTrait>::set_raw')
    if F12 is None:
        rep.machinery('ANCHOR-MISSING Fat12::set_raw')
    else:
        d = Deps(F12)
        reads = [b for b, t in F12.calls() if (t.get('callee') or '').endswith('read_u16_le')]
        stores = [(b, t) for b, t in F12.calls() if (t.get('callee') or '').endswith('write_u16_le')]
        ok = bool(stores)
        for b, t in stores:
            toks = d.of_operand(t['args'][-1])
            if not (any(('callsite', r) in toks for r in reads) and ('const', 0xF000) in toks and ('const', 0x000F) in toks):
                ok = False
        rep.oblige('X4', F12.name, ok=ok, nontrivial=True)
        if not ok:
            rep.violation('X4', vkey('X4', F12.name, 'neighbour-nibble', ''), F12.loc(F12.span),
                          'Fat12::set_raw does not preserve the neighbouring entry\'s nibble of the 16-bit word it '
                          'rewrites')

    # ---------------- X5 skipping
    SK = facts.fns.get('fatfs::dir::DirIter::should_skip_entry')
    if SK is None:
        rep.machinery('ANCHOR-MISSING DirIter::should_skip_entry')
    else:
        callees = {t.get('callee') for b, t in SK.calls()}
        d = Deps(SK)
        fields = set()
        for bi in SK.reachable():
            t = SK.blocks[bi]['term']
            if t['k'] == 'switch':
                src = switch_source(SK, bi)
                if src and src['kind'] == 'place':
                    fields |= {tk[1] for tk in d.of_place(src['place']) if tk[0] == 'field'}
        ok = any(c and c.endswith('::is_deleted') for c in callees) and any(
            c and c.endswith('::is_volume') for c in callees) and 'skip_volume' in fields
        rep.oblige('X5', SK.name, ok=ok, nontrivial=True)
        if not ok:
            rep.violation('X5', vkey('X5', SK.name, 'skip-rule', ''), SK.loc(SK.span),
                          'entry skipping no longer is `deleted || (skip_volume && volume label)`')


# ---------------------------------------------------------------------------------------------
# X7  every table access of a FAT width seeks to  cluster * bits / 8  (entry offset formula of the specification)

WIDTH_FNS = {12: 'u8', 16: 'u16', 32: 'u32'}
TABLE_FNS = ('get_raw', 'set_raw', 'find_free', 'count_free')


def _expr_tree(fn, defs, o, depth=0):
    """('var',) | ('const', n) | (op, left, right) for the integer expression an operand was computed from; None when it
    contains anything but + * / of one variable and constants (copies, widening casts and checked-op pairs are looked
    through)"""
    from model import op_const, op_place
    if depth > 24:
        return None
    c = op_const(o)
    if c is not None:
        return ('const', c['val']) if c.get('val') is not None else None
    p = op_place(o)
    if p is None:
        return None
    idx = [e for e in p['p'] if 'f' in e]
    if p['p'] and not (len(p['p']) == 1 and idx and idx[0].get('f') == 0):
        return None
    loc = fn.locals[p['l']]
    if (loc.get('name') or '') == 'cluster' or (1 <= p['l'] <= fn.argc and (loc.get('name') or '').endswith('cluster')):
        return ('var', )
    d = defs.get(p['l'])
    if d is None:
        return None
    if d[0] == 'call':
        t = d[1]
        if (t.get('callee') or '') in ('core::convert::From::from', 'core::convert::Into::into') and len(t['args']) == 1:
            return _expr_tree(fn, defs, t['args'][0], depth + 1)
        return None
    rv = d[1]
    if rv['k'] in ('use', 'cast'):
        return _expr_tree(fn, defs, rv['a'], depth + 1)
    if rv['k'] == 'binop':
        op = rv['op'].replace('WithOverflow', '').replace('Unchecked', '')
        if op in ('Add', 'Mul', 'Div', 'Shl', 'Shr'):
            a, b = _expr_tree(fn, defs, rv['a'], depth + 1), _expr_tree(fn, defs, rv['b'], depth + 1)
            if a is None or b is None:
                return None
            return (op, a, b)
    return None


def _eval_tree(t, c):
    if t[0] == 'var':
        return c
    if t[0] == 'const':
        return t[1]
    a, b = _eval_tree(t[1], c), _eval_tree(t[2], c)
    return {'Add': a + b, 'Mul': a * b, 'Div': a // b if b else 0, 'Shl': a << b, 'Shr': a >> b}[t[0]]


def _divisors(t):
    if t[0] in ('var', 'const'):
        return []
    out = _divisors(t[1]) + _divisors(t[2])
    if t[0] == 'Div' and t[2][0] == 'const':
        out.append(t[2][1])
    if t[0] == 'Shr' and t[2][0] == 'const':
        out.append(1 << t[2][1])
    if t[0] in ('Div', 'Shr') and t[2][0] != 'const':
        out.append(None)
    return out


def run_entry_offsets(ctx, rep):
    """The closed-form expression of every seek offset in the per-width table code is extracted from the MIR (only + * / and
    shifts by constants of the cluster number are admitted) and compared with the specification's  cluster * bits / 8 :
    equal on one full period of its divisors and with the same increment per period, hence equal for every cluster."""
    from rules.c02 import single_def
    from model import op_place
    facts = ctx.facts
    n = 0
    for bits, w in WIDTH_FNS.items():
        for short in TABLE_FNS:
            name = '<fatfs::table::Fat<%s> as fatfs::table::FatTrait>::%s' % (w, short)
            fn = facts.fns.get(name)
            if fn is None:
                rep.machinery('ANCHOR-MISSING ' + name)
                continue
            defs = single_def(fn)
            seeks = [(b, t) for b, t in fn.calls() if (t.get('callee') or '').endswith('io::Seek::seek')]
            for b, t in seeks:
                # the operand of SeekFrom::Start(..)
                p = op_place(t['args'][1])
                d = defs.get(p['l']) if p is not None and not p['p'] else None
                tree = None
                if d is not None and d[0] == 'stmt' and d[1]['k'] == 'agg' and d[1].get('variant') == 'Start':
                    tree = _expr_tree(fn, defs, d[1]['ops'][0])
                n += 1
                if tree is None:
                    rep.oblige('X7', '%s|bb%d' % (name, b), ok=False, nontrivial=True)
                    rep.violation('X7', vkey('X7', name, 'offset-form', t['span']['snip']), fn.loc(t['span']),
                                  'the table offset in %s is not a closed form (+ * / by constants) of the cluster number: not '
                                  'comparable with the specification\'s cluster * %d / 8' % (name, bits))
                    continue
                def has_var(t_):
                    return t_[0] == 'var' or (t_[0] not in ('const', ) and any(has_var(x) for x in t_[1:] if isinstance(x, tuple)))
                if not has_var(tree):
                    # a scan that starts at a fixed cluster (the first data cluster): the constant offset of that cluster
                    first = facts.consts.get('fatfs::table::RESERVED_FAT_ENTRIES', {}).get('val', 2)
                    ok = _eval_tree(tree, 0) == first * bits // 8
                    rep.oblige('X7', '%s|bb%d' % (name, b), ok=ok, nontrivial=True,
                               sample={'fn': name, 'at': fn.loc(t['span']), 'expression': str(tree),
                                       'specification': 'offset of cluster %d = %d' % (first, first * bits // 8)})
                    if not ok:
                        rep.violation('X7', vkey('X7', name, 'entry-offset', ''), fn.loc(t['span']),
                                      '%s seeks to the constant %d; the FAT%d entry of the first data cluster (%d) is at byte %d' % (
                                          name, _eval_tree(tree, 0), bits, first, first * bits // 8))
                    continue
                divs = _divisors(tree)
                ok = None not in divs
                period = 1
                for dv in divs:
                    if dv:
                        from math import gcd
                        period = period * dv // gcd(period, dv)
                period = max(period, 8)
                spec = lambda c: c * bits // 8
                if ok:
                    ok = all(_eval_tree(tree, c) == spec(c) for c in range(0, 2 * period + 1))
                rep.oblige('X7', '%s|bb%d' % (name, b), ok=ok, nontrivial=True,
                           sample={'fn': name, 'at': fn.loc(t['span']), 'expression': str(tree), 'specification': 'cluster * %d / 8' % bits})
                if not ok:
                    rep.violation('X7', vkey('X7', name, 'entry-offset', ''), fn.loc(t['span']),
                                  '%s seeks to %s for cluster c; the FAT%d entry of cluster c is at byte c * %d / 8 of the table' %
                                  (name, tree, bits, bits))
    rep.counts['X7.seeks'] = n


_run_8 = run


def run(ctx, rep):
    _run_8(ctx, rep)
    run_entry_offsets(ctx, rep)
