"""Sibling agreement between the format-side and the mount-side geometry computations (cross-check of two
implementations of one quantity; Engler et al.'s "siblings must agree").

SB1  root directory size in sectors: BiosParameterBlock::root_dir_sectors (what a mount derives from the BPB) and
     determine_root_dir_sectors (what formatting reserves) perform the same arithmetic (operator / constant multiset:
     entries * 32 rounded *up* to whole sectors)
SB2  cluster count: BiosParameterBlock::total_clusters and try_fs_layout both obtain it as a *division* of the data
     sectors by sectors_per_cluster (partial clusters do not count), from a difference of total and non-data sectors
"""
from collections import Counter

from analyses import Deps
from core import vkey
from model import op_const, op_place

ARITH = ('Add', 'Sub', 'Mul', 'Div', 'Rem', 'Shl', 'Shr', 'BitAnd', 'BitOr')
ROOT_M = 'fatfs::boot_sector::BiosParameterBlock::root_dir_sectors'
ROOT_F = 'fatfs::boot_sector::determine_root_dir_sectors'
TC_M = 'fatfs::boot_sector::BiosParameterBlock::total_clusters'
TC_F = 'fatfs::boot_sector::try_fs_layout'


def arith_fingerprint(fn):
    c = Counter()
    calls = Counter()
    for bi in fn.reachable():
        for s in fn.blocks[bi]['stmts']:
            if s['k'] == 'assign' and s['rv']['k'] == 'binop':
                op = s['rv']['op'].replace('WithOverflow', '').replace('Unchecked', '')
                if op in ARITH:
                    cs = tuple(sorted(str(op_const(x).get('val')) for x in (s['rv']['a'], s['rv']['b']) if op_const(x)))
                    c[(op, cs)] += 1
        t = fn.blocks[bi]['term']
        if t['k'] == 'call':
            short = (t.get('callee') or '').rsplit('::', 1)[-1]
            if short.startswith(('div_ceil', 'next_multiple_of', 'checked_', 'wrapping_', 'saturating_', 'pow', 'isqrt')):
                calls[short] += 1
    # canonical form of a rounding-up division: `(a + b - 1) / b` and `a.div_ceil(b)` are the same operation
    for k in [k[1] for k in list(c) if k[0] == 'Div']:
        while c[('Add', k)] > 0 and c[('Sub', ('1', ))] > 0 and c[('Div', k)] > 0:
            c[('Add', k)] -= 1
            c[('Sub', ('1', ))] -= 1
            c[('Div', k)] -= 1
            calls['div_ceil'] += 1
    c = +c
    return c, calls


def def_of(fn, local):
    """the single defining rvalue of a local, following plain moves"""
    for _ in range(12):
        defs = []
        for bi in fn.reachable():
            for s in fn.blocks[bi]['stmts']:
                if s['k'] == 'assign' and s['lhs']['l'] == local and not s['lhs']['p']:
                    defs.append(('stmt', s['rv']))
            t = fn.blocks[bi]['term']
            if t['k'] == 'call' and t['dest']['l'] == local and not t['dest']['p']:
                defs.append(('call', t))
        if len(defs) != 1:
            return None
        k, d = defs[0]
        if k == 'stmt' and d['k'] == 'use':
            p = op_place(d['a'])
            if p is None:
                return None
            if p['p']:
                # `(tmp.0)` of a checked operation
                local = p['l']
                continue
            local = p['l']
            continue
        return defs[0]
    return None


def run(ctx, rep):
    facts = ctx.facts
    fns = {n: facts.fns.get(n) for n in (ROOT_M, ROOT_F, TC_M, TC_F)}
    if None in fns.values():
        rep.machinery('ANCHOR-MISSING ' + ', '.join(n for n, f in fns.items() if f is None))
        return
    # ---------------- SB1
    fm, cm = arith_fingerprint(fns[ROOT_M])
    ff, cf = arith_fingerprint(fns[ROOT_F])
    ok = fm == ff and cm == cf and bool(fm or cm)
    rep.oblige('SB1', ROOT_M, ok=ok, nontrivial=True,
               sample={'mount-side': sorted(map(str, fm.items())), 'format-side': sorted(map(str, ff.items()))})
    if not ok:
        rep.violation('SB1', vkey('SB1', ROOT_M, 'root-dir-sectors', ''), fns[ROOT_M].loc(fns[ROOT_M].span),
                      'the root directory size is computed differently when mounting (%s) and when formatting (%s): the '
                      'data area of a volume would start at a different sector than the one it was laid out with' % (
                          sorted(fm.elements()) + sorted(cm.elements()), sorted(ff.elements()) + sorted(cf.elements())))
    # ---------------- SB2
    shapes = {}
    # mount side: the returned value
    M = fns[TC_M]
    dm = def_of(M, 0)
    shapes['mount'] = describe(M, dm, 'sectors_per_cluster')
    # format side: the argument of FatType::from_clusters
    F = fns[TC_F]
    fshape = None
    for b, t in F.calls():
        if (t.get('callee') or '').endswith('FatType::from_clusters'):
            p = op_place(t['args'][0])
            if p is not None:
                fshape = describe(F, def_of(F, p['l']), 'sectors_per_cluster')
                break
    shapes['format'] = fshape
    ok = shapes['mount'] is not None and shapes['mount'] == shapes['format'] and shapes['mount'][0] == 'Div'
    rep.oblige('SB2', TC_M, ok=ok, nontrivial=True, sample={k: str(v) for k, v in shapes.items()})
    if not ok:
        rep.violation('SB2', vkey('SB2', TC_M, 'total-clusters', ''), M.loc(M.span),
                      'the cluster count must be (total sectors - non-data sectors) DIVIDED by sectors_per_cluster, rounding '
                      'down, on the mount side and on the format side alike; found mount: %s, format: %s (a partial cluster '
                      'at the end of the volume would be counted and addressed)' % (shapes['mount'], shapes['format']))


def describe(fn, d, divisor_name):
    """('Div', divisor depends on sectors_per_cluster, dividend is a difference) for a value defined by a division"""
    if d is None:
        return None
    if d[0] == 'call':
        return ('call', (d[1].get('callee') or '?').rsplit('::', 1)[-1])
    rv = d[1]
    if rv['k'] != 'binop':
        return (rv['k'], )
    deps = Deps(fn)
    tb = deps.of_operand(rv['b'])
    ta = deps.of_operand(rv['a'])
    by_spc = ('field', divisor_name) in tb or any(
        tk[0] == 'local' and (fn.locals[tk[1]].get('name') or '') == divisor_name for tk in tb) or any(
        tk[0] == 'param' and (fn.locals[tk[1]].get('name') or '') == divisor_name for tk in tb)
    return (rv['op'].replace('WithOverflow', ''), 'by sectors_per_cluster' if by_spc else 'by something else',
            'of a difference' if ('op', 'Sub') in ta else 'of something else')
