"""C02 - a file is a growable byte array with a cursor (DESIGN.md section 4, B1-B6).

Only the clauses whose truth is in the shape of the code are decided:

B0  no panic site (overflow, division, index, unwrap) reachable in File's read / write / seek / truncate paths is left
    undischarged (interval analysis, rules/allpanics.py scope C02)
B1  read: the slice handed to the device is clipped by min() against the rest of the cluster *and* the rest of the file
B2  write: the slice handed to the device is clipped by min() against the rest of the cluster and the 4 GiB limit
B3  the cursor only ever moves by the count the device returned (read, write) or to the value seek computed
B4  a write that moved bytes updates the recorded size, and only grows it (guarded by offset > size)
    (the must-call itself is R18.3 of rules/c18.py, taken over by the property spec)
B5  seek: (a) an unrepresentable target reaches InvalidInput, (b) a target beyond the size is clamped to the size,
    (c) 64-bit quantities are only narrowed through try_from (closed table of `as` casts), no wrapping arithmetic,
    (d) the keep-the-current-cluster shortcut and the chain walk use the same cluster index of the target
B6  truncate: size := cursor (chain operations: A5.8 of rules/c05.py and R3.6 of rules/c03.py, taken over by the spec)

Which bytes are read back is a value property and is not decided here.
"""
from analyses import Deps, edge_dominates, error_blocks, nonzero_targets, switch_source, zero_targets
from core import vkey
from model import op_const, op_place
from rules import allpanics

READ = '<fatfs::file::File as fatfs::io::Read>::read'
WRITE = '<fatfs::file::File as fatfs::io::Write>::write'
SEEK = '<fatfs::file::File as fatfs::io::Seek>::seek'
TRUNC = 'fatfs::file::File::truncate'
UPD = 'fatfs::file::File::update_dir_entry_after_write'
BLIF = 'fatfs::file::File::bytes_left_in_file'

# `as` casts from a wider to a narrower integer that are allowed in File's I/O paths: (function, origin of the operand)
NARROWING_OK = {
    (READ, 'device-count'): 'the device returns at most the requested length, which is at most the cluster size (a u32)',
    (WRITE, 'device-count'): 'the device returns at most the requested length, which is at most the cluster size (a u32)',
    (SEEK, 'call:fatfs::fs::FileSystem::bytes_from_clusters'):
        'i + 1 <= clusters_from_bytes(new_offset) - 1, so the byte count is below new_offset, a u32',
}


def calls_of(toks):
    return {tk[1].rsplit('::', 1)[-1] for tk in toks if tk[0] == 'call'}


def dev_calls(fn, eff, kind):
    suffix = ('io::Read::read', ) if kind == 'R' else ('io::Write::write', )
    return [(b, t) for b, t in fn.calls() if (t.get('callee') or '').endswith(suffix) and eff.fn_reaches_dev(fn.name, b, kind)]


def single_def(fn):
    """local -> its only definition ('stmt', rv) / ('call', blk, term); locals assigned more than once are absent"""
    defs = {}
    multi = set()
    for bi in fn.reachable():
        for s in fn.blocks[bi]['stmts']:
            if s['k'] == 'assign' and not s['lhs']['p']:
                l = s['lhs']['l']
                if l in defs:
                    multi.add(l)
                defs[l] = ('stmt', s['rv'], bi)
        t = fn.blocks[bi]['term']
        if t['k'] == 'call' and not t['dest']['p']:
            l = t['dest']['l']
            if l in defs:
                multi.add(l)
            defs[l] = ('call', t, bi)
    for l in multi:
        defs.pop(l, None)
    return defs


def origin(fn, defs, o, dev_blocks, depth=0, through_casts=False):
    """where a value comes from, following moves, `?` and payload projections: 'device-count', 'call:<callee>', or None"""
    p = op_place(o)
    if p is None or depth > 12:
        return None
    d = defs.get(p['l'])
    if d is None:
        return None
    if d[0] == 'call':
        callee = d[1].get('callee') or ''
        if d[2] in dev_blocks:
            return 'device-count'
        if callee.endswith('Try::branch'):
            return origin(fn, defs, d[1]['args'][0], dev_blocks, depth + 1, through_casts)
        return 'call:' + callee
    rv = d[1]
    if rv['k'] == 'use' or (through_casts and rv['k'] == 'cast'):
        return origin(fn, defs, rv['a'], dev_blocks, depth + 1, through_casts)
    return None


def int_bits(fn, ty_ix):
    t = fn.ty(ty_ix)
    if t and t.get('k') == 'int':
        return t.get('bits'), t.get('signed', False)
    return None, None


CURSOR_ADTS = ('file::File', 'file::FilePos')


def cursor_owner(facts, fn, owner_ty):
    """is the struct the file handle itself or a private struct that is (the type of) a field of the file handle?"""
    if not owner_ty or owner_ty.get('k') != 'adt':
        return False
    path = owner_ty.get('path') or ''
    if path.endswith('file::File'):
        return True
    fa = facts.adts.get('fatfs::file::File')
    if fa is None:
        return False
    for f in fa['variants'][0]['fields']:
        fty = fn.types[f['ty']]
        if fty.get('k') == 'adt' and fty.get('path') == path and path.startswith('fatfs::'):
            return True
    return False


def cursor_stores(facts, fn, names):
    """stores into a cursor field of the file handle: `self.<f> = v`, `self.pos.<f> = v`, or a struct holding the cursor built
    anew (`self.pos = FilePos { <f>: v, .. }`).  Yields (block, span, value operand or None, statement)"""
    from analyses import place_prefix_type
    for bi in sorted(fn.reachable()):
        for s in fn.blocks[bi]['stmts']:
            if s['k'] != 'assign':
                continue
            rv = s['rv']
            if s['lhs']['p'] and 'f' in s['lhs']['p'][-1] and s['lhs']['p'][-1].get('n') in names:
                owner = place_prefix_type(fn, s['lhs'], len(s['lhs']['p']) - 1)
                if cursor_owner(facts, fn, owner):
                    yield bi, s['span'], (rv['a'] if rv['k'] in ('use', 'cast') else None), s
            if rv['k'] == 'agg' and rv.get('ak') == 'adt' and (rv.get('adt') or '').startswith('fatfs::file::') and \
                    not (rv.get('adt') or '').endswith('file::File'):
                if cursor_owner(facts, fn, {'k': 'adt', 'path': rv['adt']}):
                    for fname, o in zip(rv.get('fields') or [], rv.get('ops') or []):
                        if fname in names:
                            yield bi, s['span'], o, s


def run(ctx, rep):
    facts, eff = ctx.facts, ctx.effects
    R, W, S, T, U = (facts.fns.get(n) for n in (READ, WRITE, SEEK, TRUNC, UPD))
    if U is None and W is not None and any((t.get('callee') or '').endswith('DirEntryEditor::set_size') for b, t in W.calls()):
        U = W  # the post-write update was merged into write(): its statements are judged there
    if None in (R, W, S, T, U):
        rep.machinery('ANCHOR-MISSING one of File read/write/seek/truncate/update_dir_entry_after_write')
        return
    # ---------------- B0
    allpanics.run_scope(ctx, rep, 'C02', 'B0', 'in the file I/O paths')

    # ---------------- B1 / B2 clipping
    for fn, kind, rule, need_calls, extra in ((R, 'R', 'B1', {'cluster_size', 'min', 'bytes_left_in_file'}, None),
                                              (W, 'W', 'B2', {'cluster_size', 'min'}, 'MAX_FILE_SIZE')):
        d = Deps(fn, expand_fields=True)  # a cluster size cached in the handle still comes from FileSystem::cluster_size
        sites = dev_calls(fn, eff, kind)
        if not sites:
            rep.machinery('ANCHOR-MISSING device %s call in %s' % (kind, fn.name))
            continue
        for b, t in sites:
            toks = d.of_operand(t['args'][1])
            missing = sorted(need_calls - calls_of(toks))
            if ('op', 'Rem') not in toks or ('op', 'Sub') not in toks:
                missing.append('cluster remainder (cluster_size - offset % cluster_size)')
            if ('field', 'offset') not in toks:
                missing.append('the cursor')
            if extra and not any(tk[0] == 'constpath' and tk[1].endswith(extra) for tk in toks) and ('const', 0xFFFFFFFF) not in toks:
                missing.append(extra)
            # two min() applications: buffer vs cluster rest, then vs file rest / size limit
            n_min = len([1 for bb, tt in fn.calls() if (tt.get('callee') or '').endswith('::min') and
                         ('callsite', bb) in toks])
            if n_min < 2:
                missing.append('two min() clips (found %d)' % n_min)
            rep.oblige(rule, '%s|bb%d' % (fn.name, b), ok=not missing, nontrivial=True,
                       sample={'fn': fn.name, 'at': fn.loc(t['span']), 'clipped-by': sorted(calls_of(toks) & (need_calls | {'len'}))})
            if missing:
                rep.violation(rule, vkey(rule, fn.name, 'clip', ''), fn.loc(t['span']),
                              'the length handed to the device in %s is not clipped by: %s' % (fn.name, ', '.join(missing)))
    # bytes_left_in_file is size - offset
    BL = facts.fns.get(BLIF)
    BLC = facts.fns.get(BLIF + '::{closure#0}')
    ok = False
    if BL is not None and BLC is not None:
        dl, dc = Deps(BL), Deps(BLC)
        uses_size = any((t.get('callee') or '').endswith('File::size') for b, t in BL.calls())
        sub = False
        for bi in BLC.reachable():
            for s in BLC.blocks[bi]['stmts']:
                if s['k'] == 'assign' and s['rv']['k'] == 'binop' and s['rv']['op'].startswith('Sub'):
                    ta, tb = dc.of_operand(s['rv']['a']), dc.of_operand(s['rv']['b'])
                    if ('param', 2) in ta and ('field', 'offset') in tb:
                        sub = True
            tt_ = BLC.blocks[bi]['term']
            if tt_['k'] == 'call' and (tt_.get('callee') or '').rsplit('::', 1)[-1] in ('saturating_sub', 'checked_sub', 'wrapping_sub') \
                    and len(tt_['args']) == 2 and (tt_.get('callee') or '').rsplit('::', 1)[-1] == 'saturating_sub':
                ta, tb = dc.of_operand(tt_['args'][0]), dc.of_operand(tt_['args'][1])
                if ('param', 2) in ta and ('field', 'offset') in tb:
                    sub = True  # size.saturating_sub(offset): the same number whenever offset <= size, 0 otherwise
        ok = uses_size and sub
    rep.oblige('B1.left', BLIF, ok=ok, nontrivial=True)
    if not ok:
        rep.violation('B1', vkey('B1', BLIF, 'size-minus-offset', ''), BL.loc(BL.span) if BL else BLIF,
                      'bytes_left_in_file is not `size - offset`: reads would not stop at the end of the file')

    # ---------------- B3 cursor movement
    n_b3 = 0
    for fn, kind in ((R, 'R'), (W, 'W')):
        d = Deps(fn)
        devb = {b for b, t in dev_calls(fn, eff, kind)}
        defs = single_def(fn)
        for bi, span_, vop, s in cursor_stores(facts, fn, ('offset', )):
            if True:
                n_b3 += 1
                # the assigned value is `offset + <count>`: find the addition it comes from
                toks = set()
                if vop is not None:
                    toks = d.of_operand(vop)
                addend_ok = False
                for bj in fn.reachable():
                    for s2 in fn.blocks[bj]['stmts']:
                        if s2['k'] == 'assign' and s2['rv']['k'] == 'binop' and s2['rv']['op'].startswith('Add') and \
                                ('local', s2['lhs']['l']) in toks | ({('local', s['lhs']['l'])} if s['lhs']['p'] else set()):
                            for x in (s2['rv']['a'], s2['rv']['b']):
                                tx = d.of_operand(x)
                                if ('field', 'offset') in tx and not any(('callsite', c) in tx for c in devb):
                                    continue
                                # the addend: a (cast of a) value that originates in the device's returned count
                                if origin(fn, defs, x, devb, through_casts=True) == 'device-count':
                                    addend_ok = True
                rep.oblige('B3', '%s|bb%d' % (fn.name, bi), ok=addend_ok, nontrivial=True,
                           sample={'fn': fn.name, 'at': fn.loc(span_), 'expr': span_['snip'][:60]})
                if not addend_ok:
                    rep.violation('B3', vkey('B3', fn.name, 'cursor-advance', ''), fn.loc(span_),
                                  'the cursor in %s is not advanced by the count the device returned (a short transfer '
                                  'would leave a gap / skip bytes)' % fn.name)
    # no other function moves the cursor (seek, clone/new construct it)
    movers = set()
    for fn in facts.fns.values():
        if fn.crate != 'fatfs':
            continue
        for bi_, span_, vop_, s_ in cursor_stores(facts, fn, ('offset', )):
            movers.add(fn.name)
    extra = sorted(movers - {READ, WRITE, SEEK})
    rep.oblige('B3.movers', 'File.offset', ok=not extra, nontrivial=True, sample={'movers': sorted(movers)})
    rep.counts['B3.sites'] = n_b3
    if extra:
        f0 = facts.fns[extra[0]]
        rep.violation('B3', vkey('B3', extra[0], 'cursor-mover', ''), f0.loc(f0.span),
                      'the file cursor is assigned outside read / write / seek: ' + ', '.join(extra))

    # ---------------- B7 the cluster remembered after a transfer is the one the transfer was made in
    # (offset, current_cluster) is one cursor: offset moves by the device's count inside the cluster that was addressed,
    # so the cluster stored afterwards is the addressed one - or is computed from the device's count
    n_b7 = 0
    for fn, kind in ((R, 'R'), (W, 'W')):
        d = Deps(fn)
        devb = {b for b, t in dev_calls(fn, eff, kind)}
        defs = single_def(fn)

        def root(o, depth=0):
            p = op_place(o)
            if p is None or p['p'] or depth > 12:
                return None
            dd = defs.get(p['l'])
            if dd is not None and dd[0] == 'stmt':
                rv = dd[1]
                if rv['k'] == 'use' and op_place(rv['a']) is not None and not op_place(rv['a'])['p']:
                    return root(rv['a'], depth + 1)
                if rv['k'] == 'agg' and len(rv.get('ops', [])) == 1:
                    return root(rv['ops'][0], depth + 1)
            return p['l']

        addressed = set()
        for b, t in fn.calls():
            if (t.get('callee') or '').endswith('FileSystem::offset_from_cluster') and len(t['args']) > 1:
                r0 = root(t['args'][1])
                if r0 is not None:
                    addressed.add(r0)
        after_dev = fn.reach_from(devb)
        for bi, span_, o, s in cursor_stores(facts, fn, ('current_cluster', 'cluster')):
            if True:
                if bi not in after_dev:
                    continue
                if o is None and s['rv']['k'] == 'agg' and s['lhs']['p']:
                    o = (s['rv'].get('ops') or [None])[0]
                if o is None:
                    continue
                n_b7 += 1
                r1 = root(o)
                # data dependence on the device's count, not followed through `self` (everything hangs off it)
                seen_l, st, from_count = set(), [op_place(o)['l']], False
                while st and not from_count:
                    x = st.pop()
                    if x in seen_l or x <= fn.argc:
                        continue
                    seen_l.add(x)
                    for tk in d.direct.get(x, ()):
                        if tk[0] == 'callsite' and tk[1] in devb:
                            from_count = True
                        elif tk[0] == 'local':
                            st.append(tk[1])
                ok = (r1 is not None and r1 in addressed) or from_count
                rep.oblige('B7', '%s|bb%d' % (fn.name, bi), ok=ok, nontrivial=True,
                           sample={'fn': fn.name, 'at': fn.loc(span_), 'expr': span_['snip'][:60]})
                if not ok:
                    rep.violation('B7', vkey('B7', fn.name, 'cursor-cluster', ''), fn.loc(span_),
                                  'the cluster %s remembers after the transfer is neither the cluster whose offset was handed to the '
                                  'device nor computed from the count the device returned: after a short transfer the cursor '
                                  '(offset, cluster) is incoherent' % fn.name)
    rep.counts['B7.sites'] = n_b7

    # ---------------- B4 size only grows, to the cursor
    d = Deps(U)
    sets = [(b, t) for b, t in U.calls() if (t.get('callee') or '').endswith('DirEntryEditor::set_size')]
    ok = bool(sets)
    why = 'no set_size call' if not sets else ''
    for b, t in sets:
        if ('field', 'offset') not in d.of_operand(t['args'][1]):
            ok, why = False, 'the new size is not the cursor'
        guarded = False
        for bi in U.reachable():
            tt = U.blocks[bi]['term']
            if tt['k'] != 'switch':
                continue
            src = switch_source(U, bi)
            if not src:
                continue
            toks = set()
            if src['kind'] == 'call':
                for x in src['term']['args']:
                    toks |= d.of_operand(x)
            elif src['kind'] == 'binop':
                toks = d.of_operand(src['a']) | d.of_operand(src['b'])
            else:
                continue
            if 'size' in calls_of(toks) and edge_dominates(U, {(bi, x) for x in nonzero_targets(tt)}, b):
                # the comparison itself: in the closure (map_or) or inline
                cmp_ok = src['kind'] == 'binop' and src['op'] in ('Gt', 'Lt', 'Ge', 'Le')
                for tk in toks:
                    if tk[0] == 'closure' and tk[1] in facts.fns:
                        cf = facts.fns[tk[1]]
                        for bj in cf.reachable():
                            for s2 in cf.blocks[bj]['stmts']:
                                if s2['k'] == 'assign' and s2['rv']['k'] == 'binop' and s2['rv']['op'] in ('Gt', 'Lt'):
                                    cmp_ok = True
                guarded = guarded or cmp_ok
        if not guarded:
            ok, why = False, 'set_size is not guarded by a strict comparison of the cursor with the recorded size'
    rep.oblige('B4', U.name, ok=ok, nontrivial=True)
    if not ok:
        rep.violation('B4', vkey('B4', U.name, 'size-grows', ''), U.loc(U.span),
                      'after a write the recorded size must become the cursor only when the cursor passed it: ' + why)

    # ---------------- B5 seek
    # dependences of the computation part of seek: the blocks that store into *self (the final cursor / cluster
    # assignments) are left out, otherwise everything read through `self` would depend on the new cursor
    store_blocks = {bi for bi in S.reachable() for s in S.blocks[bi]['stmts']
                    if s['k'] == 'assign' and s['lhs']['l'] == 1 and s['lhs']['p']}
    d = Deps(S, blocks=S.reachable() - store_blocks)
    eb = error_blocks(S)
    # (a) None -> InvalidInput
    ok_a = False
    for bi in S.reachable():
        tt = S.blocks[bi]['term']
        if tt['k'] != 'switch':
            continue
        src = switch_source(S, bi)
        if not src or src['kind'] != 'discr':
            continue
        toks = d.of_local(src['place']['l'])
        if ('param', 2) not in toks or 'try_from' not in calls_of(toks):
            continue
        none_arm = [x for x in S.succ(bi) if x not in [y for v, y in tt['targets'] if v == 1]]
        for x in none_arm:
            reach = S.reach_from([x])
            rets = [r for r in S.return_blocks() if r in reach]
            errs = [b2 for b2 in reach if b2 in eb]
            inval = any(s['k'] == 'assign' and s['rv']['k'] == 'agg' and s['rv'].get('variant') == 'InvalidInput'
                        for b2 in reach for s in S.blocks[b2]['stmts'])
            # every path from the None arm passes an error block before returning
            clean = S.reach_from([x], cut_blocks=set(errs))
            if rets and errs and inval and not any(r in clean for r in S.return_blocks()):
                ok_a = True
    rep.oblige('B5.reject', S.name, ok=ok_a, nontrivial=True)
    if not ok_a:
        rep.violation('B5', vkey('B5', S.name, 'reject', ''), S.loc(S.span),
                      'a seek target that is negative or not representable does not reach Err(InvalidInput) on every path')
    # (b) clamp
    ok_b = False
    size_sites = {b for b, t in S.calls() if (t.get('callee') or '').endswith('File::size')}
    for bi in S.reachable():
        tt = S.blocks[bi]['term']
        if tt['k'] != 'switch':
            continue
        src = switch_source(S, bi)
        if not src or src['kind'] != 'binop' or src['op'] not in ('Gt', 'Lt', 'Ge', 'Le'):
            continue
        ta, tb = d.of_operand(src['a']), d.of_operand(src['b'])
        a_is_size = any(('callsite', c) in ta for c in size_sites) and ('param', 2) not in ta
        b_is_size = any(('callsite', c) in tb for c in size_sites) and ('param', 2) not in tb
        if a_is_size == b_is_size:
            continue
        other = tb if a_is_size else ta
        if ('param', 2) not in other:
            continue
        # arm on which target > size
        if (src['op'] in ('Gt', ) and b_is_size) or (src['op'] in ('Lt', ) and a_is_size):
            beyond = nonzero_targets(tt)
        elif (src['op'] in ('Le', ) and b_is_size) or (src['op'] in ('Ge', ) and a_is_size):
            beyond = zero_targets(tt)
        else:
            continue
        target_local = op_place(src['a'] if b_is_size else src['b'])
        # an assignment `target := size` dominated by that arm
        for b2 in S.reachable():
            if not edge_dominates(S, {(bi, x) for x in beyond}, b2):
                continue
            for s in S.blocks[b2]['stmts']:
                if s['k'] == 'assign' and not s['lhs']['p'] and s['rv']['k'] == 'use':
                    tv = d.of_operand(s['rv']['a'])
                    if any(('callsite', c) in tv for c in size_sites) and ('param', 2) not in tv and \
                            ('local', s['lhs']['l']) in ta | tb | {('local', target_local['l']) if target_local else None}:
                        ok_b = True
    # ... or `target = target.min(size)`
    for b, t in S.calls():
        if (t.get('callee') or '').endswith('::min') and len(t['args']) == 2:
            t0, t1 = d.of_operand(t['args'][0]), d.of_operand(t['args'][1])
            for tsz, ttg in ((t0, t1), (t1, t0)):
                if any(('callsite', c) in tsz for c in size_sites) and ('param', 2) not in tsz and ('param', 2) in ttg:
                    ok_b = True
    rep.oblige('B5.clamp', S.name, ok=ok_b, nontrivial=True)
    if not ok_b:
        rep.violation('B5', vkey('B5', S.name, 'clamp', ''), S.loc(S.span),
                      'a seek target beyond the recorded size is not clamped to the size')
    # (c) narrowing casts and wrapping arithmetic in the I/O paths
    n_cast = 0
    for fn in [f for f in facts.fns.values() if f.crate == 'fatfs' and allpanics.SCOPES['C02'].match(f.name)]:
        kind = 'R' if fn.name == READ else 'W'
        devb = {b for b, t in dev_calls(fn, eff, kind)} if fn.name in (READ, WRITE) else set()
        defs = single_def(fn)
        base = fn.name.split('::{closure')[0]
        for bi in sorted(fn.reachable()):
            for s in fn.blocks[bi]['stmts']:
                if s['k'] != 'assign' or s['rv']['k'] != 'cast':
                    continue
                tb_, ts_ = int_bits(fn, s['rv']['to'])
                p = op_place(s['rv']['a'])
                if tb_ is None or p is None:
                    continue
                from analyses import place_prefix_type
                oty = place_prefix_type(fn, p, len(p['p']))
                if not oty or oty.get('k') != 'int':
                    continue
                ob, os_ = oty.get('bits'), oty.get('signed', False)
                if not (ob > tb_ or (ob == tb_ and os_ != ts_)):
                    continue
                n_cast += 1
                og = origin(fn, defs, s['rv']['a'], devb)
                ok = (base, og) in NARROWING_OK
                rep.oblige('B5.cast', '%s|bb%d' % (fn.name, bi), ok=ok, nontrivial=True,
                           sample={'fn': fn.name, 'at': fn.loc(s['span']), 'expr': s['span']['snip'][:60], 'origin': og,
                                   'reason': NARROWING_OK.get((base, og))})
                if not ok:
                    rep.violation('B5', vkey('B5', fn.name, 'narrowing-cast', s['span']['snip']), fn.loc(s['span']),
                                  'a %d-bit value is narrowed to %d bits with `as` in %s (origin: %s): offsets must be '
                                  'converted with try_from so that unrepresentable targets are rejected, not wrapped'
                                  % (ob, tb_, fn.name, og))
        for b, t in fn.calls():
            short = (t.get('callee') or '').rsplit('::', 1)[-1]
            if short.startswith(('wrapping_', 'overflowing_', 'unchecked_')) and not (t['span'].get('expn') or ''):
                rep.oblige('B5.wrap', '%s|bb%d' % (fn.name, b), ok=False, nontrivial=True)
                rep.violation('B5', vkey('B5', fn.name, 'wrapping', short), fn.loc(t['span']),
                              'wrapping arithmetic (%s) in the file I/O path %s' % (short, fn.name))
    # a signed seek target must stay signed until the fallible conversion: clamping / saturating / abs on it turns a
    # negative target into a valid one
    n_neg = 0
    for fn in [f for f in facts.fns.values() if f.crate == 'fatfs' and f.name.split('::{closure')[0] == SEEK]:
        for b, t in fn.calls():
            callee = t.get('callee') or ''
            short = callee.rsplit('::', 1)[-1]
            if short not in ('clamp', 'max', 'abs', 'unsigned_abs', 'rem_euclid', 'saturating_sub', 'saturating_add',
                             'wrapping_abs', 'saturating_abs') or not t['args']:
                continue
            aty = None
            p0 = op_place(t['args'][0])
            if p0 is not None:
                from analyses import place_prefix_type
                aty = place_prefix_type(fn, p0, len(p0['p']))
            if not aty or aty.get('k') != 'int' or not aty.get('signed'):
                continue
            n_neg += 1
            rep.oblige('B5.neg', '%s|bb%d' % (fn.name, b), ok=False, nontrivial=True)
            rep.violation('B5', vkey('B5', fn.name, 'signed-target-clamped', short), fn.loc(t['span']),
                          'the signed seek target goes through %s() before the conversion to an unsigned offset: a target '
                          'before the start of the file is no longer rejected with InvalidInput' % short)
    rep.oblige('B5.neg.scan', SEEK, ok=True)
    rep.counts['B5.casts'] = n_cast
    # (d) shortcut and walk use the same cluster index
    ok_d, why_d = False, 'no chain walk found'
    walk_iter = [(b, t) for b, t in S.calls() if (t.get('callee') or '').endswith('FileSystem::cluster_iter')]
    skip_toks = None
    # the walk's trip count: the Range aggregate iterated in the arm that calls cluster_iter
    for bi in S.reachable():
        for s in S.blocks[bi]['stmts']:
            if s['k'] == 'assign' and s['rv']['k'] == 'agg' and (s['rv'].get('adt') or '').endswith('ops::range::Range'):
                skip_toks = d.of_operand(s['rv']['ops'][1])
    for b_, t_ in S.calls():
        c_ = t_.get('callee') or ''
        # the same count written as `a..=n`, `.take(n)`, `.nth(n)`
        if c_.endswith('RangeInclusive::new') and len(t_['args']) == 2 and skip_toks is None:
            skip_toks = d.of_operand(t_['args'][1])
        elif c_.endswith(('Iterator::take', 'Iterator::nth', 'Iterator::skip')) and len(t_['args']) == 2 and skip_toks is None:
            skip_toks = d.of_operand(t_['args'][1])
    if walk_iter and skip_toks is not None:
        why_d = 'no same-cluster shortcut found'
        for bi in S.reachable():
            tt = S.blocks[bi]['term']
            if tt['k'] != 'switch':
                continue
            src = switch_source(S, bi)
            if not src or src['kind'] != 'binop' or src['op'] not in ('Eq', 'Ne'):
                continue
            ta, tb = d.of_operand(src['a']), d.of_operand(src['b'])
            # the comparison old-index == new-index: one side derives from the seek target, the other only from the cursor
            for tn, to in ((ta, tb), (tb, ta)):
                if ('param', 2) in tn and ('param', 2) not in to and ('field', 'offset') in to and \
                        (calls_of(to) - {'from', 'into'} or ('op', 'Div') in to):
                    shape = lambda tk: {x for x in tk if x[0] in ('call', 'op') and not x[1].endswith(('From::from', 'Into::into'))}
                    sn, so, sk = shape(tn), shape(to), shape(skip_toks)
                    # restrict the target side to what is specific to the index computation
                    idx_n = {x for x in sn if x[0] == 'call' and x[1].endswith(('clusters_from_bytes', 'cluster_size'))} | \
                            {x for x in sn if x == ('op', 'Div') or x == ('op', 'Shr')}
                    idx_k = {x for x in sk if x[0] == 'call' and x[1].endswith(('clusters_from_bytes', 'cluster_size'))} | \
                            {x for x in sk if x == ('op', 'Div') or x == ('op', 'Shr')}
                    idx_o = {x for x in so if x[0] == 'call' and x[1].endswith(('clusters_from_bytes', 'cluster_size'))} | \
                            {x for x in so if x == ('op', 'Div') or x == ('op', 'Shr')}
                    if idx_n and idx_n == idx_o and idx_n <= idx_k:
                        ok_d = True
                    else:
                        why_d = 'shortcut index %s / %s vs walk index %s' % (sorted(idx_n), sorted(idx_o), sorted(idx_k))
    rep.oblige('B5.index', S.name, ok=ok_d, nontrivial=True, sample={'fn': S.name, 'why': why_d})
    if not ok_d:
        rep.violation('B5', vkey('B5', S.name, 'cluster-index', ''), S.loc(S.span),
                      'seek decides "same cluster, keep current_cluster" with a different cluster index than the one its '
                      'chain walk uses (%s): at a cluster boundary the cursor and current_cluster disagree' % why_d)

    # ---------------- B6 truncate: size := cursor
    d = Deps(T)
    sets = [(b, t) for b, t in T.calls() if (t.get('callee') or '').endswith('DirEntryEditor::set_size')]
    ok = bool(sets) and all(('field', 'offset') in d.of_operand(t['args'][1]) for b, t in sets)
    # ... on every Ok path
    if ok:
        cut = {(b, x) for b, t in sets for x in T.succ(b)}
        # a handle without a directory entry (the root directory stream) has no recorded size
        from rules.c14 import none_edges_of_field
        cut |= none_edges_of_field(T, 'entry', 'fatfs::file::File')
        reach = T.reach_from([0], cut_blocks=error_blocks(T), cut_edges=cut)
        panics_only = [r for r in T.return_blocks() if r in reach]
        ok = not panics_only
    rep.oblige('B6', T.name, ok=ok, nontrivial=True)
    if not ok:
        rep.violation('B6', vkey('B6', T.name, 'size-is-cursor', ''), T.loc(T.span),
                      'File::truncate does not set the recorded size to the cursor on every returning path')


def field_is_file_offset(facts, fn, place):
    """is the assigned `.offset` field a field of fatfs::file::File?"""
    from analyses import place_prefix_type
    n = len(place['p'])
    ty = place_prefix_type(fn, place, n - 1)
    while ty and ty.get('k') == 'ref':
        ty = fn.ty(ty['to']) if isinstance(ty.get('to'), int) else None
    return bool(ty and ty.get('k') == 'adt' and (ty.get('path') or ty.get('adt') or '').endswith('file::File'))
