"""C05 - free-space accounting (DESIGN.md section 4, rules A5.1-A5.8 and the mask agreement X2).

A5.1 every FAT mutation made on behalf of a FileSystem is paired with an update of the cached free count that uses
     the mutator's returned delta
A5.2 FsInfoSector setters latch `dirty`
A5.3 the FS-info encoder writes both counters
A5.4 the lazy recount stores and returns count_free_clusters(total_clusters)
A5.5 a volume mounted dirty does not trust the stored count
A5.8 remove / truncate give the chain back before / while the entry changes
X2   every FAT32 reader that tests an entry masks the reserved high nibble
"""
from analyses import (Deps, Must, edge_dominates, error_blocks, field_owner, nonzero_targets, switch_source,
                      const_operand_value, zero_targets)
from core import vkey
from model import op_const, op_place, place_key

FSINFO = 'fatfs::fs::FsInfoSector'
MUTATORS = ('fatfs::table::alloc_cluster', 'fatfs::table::ClusterIterator::free',
            'fatfs::table::ClusterIterator::truncate')
COUNTER_UPDATES = ('fatfs::fs::FsInfoSector::map_free_clusters', 'fatfs::fs::FsInfoSector::forget_free_cluster_count',
                   'fatfs::fs::FsInfoSector::set_free_cluster_count')
FORMAT = 'fatfs::fs::format_volume'
MASK28 = 0x0FFFFFFF


def last_field(p):
    names = [e.get('n') for e in p['p'] if 'f' in e]
    return names[-1] if names else None


def is_none_value(fn, blk, rv):
    from analyses import last_def_in_block
    if rv['k'] == 'agg':
        return rv.get('variant') == 'None'
    if rv['k'] == 'use':
        p = op_place(rv['a'])
        if p is not None and not p['p']:
            d = last_def_in_block(fn, blk, p['l'])
            return d is not None and d['rv']['k'] == 'agg' and d['rv'].get('variant') == 'None'
    return False


def run(ctx, rep):
    facts, eff = ctx.facts, ctx.effects
    from rules import allpanics
    allpanics.run_scope(ctx, rep, 'C05', 'A5.6', 'in the accounting arithmetic')
    fat = [f for f in facts.fns.values() if f.crate == 'fatfs']
    scope = fat + [f for f in facts.fns.values() if '::controls::' in f.name and '_a5_' in f.name]

    # ---------------- A5.1
    def count_unknown_edges(fn_):
        """edges taken when the cached free count is `None` (a switch on the discriminant of an Option that derives from the
        `free_cluster_count` field): there is nothing to update on them - what `map_free_clusters` does inside"""
        out = set()
        d_ = None
        for bi_ in fn_.reachable():
            tt_ = fn_.blocks[bi_]['term']
            if tt_['k'] != 'switch':
                continue
            src_ = switch_source(fn_, bi_)
            if not src_ or src_.get('kind') != 'discr':
                continue
            if d_ is None:
                d_ = Deps(fn_)
            from analyses import place_prefix_type
            pty_ = place_prefix_type(fn_, src_['place'], len(src_['place']['p']))
            if not pty_ or pty_.get('path') != 'core::option::Option':
                continue
            if ('field', 'free_cluster_count') in d_.of_place(src_['place']):
                out |= {(bi_, x) for v, x in tt_['targets'] if v == 0}
        return out

    n1 = 0
    # helpers: fatfs functions all of whose returning paths cross a counter update (e.g. a private
    # `add_free_clusters(n)`); a call to one counts as the update, with the delta traced through its parameter
    m0 = Must(facts, lambda f, b, t, names: bool(names & set(COUNTER_UPDATES)))
    m0.extra_cut = count_unknown_edges
    helpers = m0.compute([f for f in fat if f.name not in COUNTER_UPDATES and f.file() != 'src/table.rs'])
    helper_params = {}
    for hn in helpers:
        hf = facts.fns[hn]
        hd = Deps(hf)
        ps = set()
        for b2, t2 in hf.calls():
            if t2.get('callee') in COUNTER_UPDATES and len(t2['args']) > 1:
                ps |= {tk[1] for tk in hd.of_operand(t2['args'][1]) if tk[0] == 'param'}
            if t2.get('callee') in helpers and t2.get('callee') != hn:
                for j, a in enumerate(t2['args']):
                    if (j + 1) in helper_params.get(t2['callee'], ()):
                        ps |= {tk[1] for tk in hd.of_operand(a) if tk[0] == 'param'}
        helper_params[hn] = ps
    for fn in scope:
        if fn.name == FORMAT or fn.file() == 'src/table.rs':
            continue
        is_control = fn.crate != 'fatfs'
        sites = [(b, t) for b, t in fn.calls() if t.get('callee') in MUTATORS or
                 (is_control and (t.get('callee') or '').endswith('ctl_fat_mutator'))]
        if not sites:
            continue
        deps = Deps(fn)
        m = Must(facts, lambda f, b, t, names: bool(names & set(COUNTER_UPDATES)) or
                 (t.get('callee') or '').endswith('ctl_counter_update'))
        m.extra_cut = count_unknown_edges
        cut = m.crossing_edges(fn, helpers - {fn.name})
        lab = m._labels(fn)
        for b, t in sites:
            n1 += 1
            # Ok edge(s) of the mutator call
            info = lab.get(b)
            starts = [tgt for (_, tgt) in info['ok']] if info and info['status'] == 'labelled' else [t['ret']]
            reach = fn.reach_from(starts, cut_blocks=error_blocks(fn), cut_edges=cut)
            bad = [r for r in fn.return_blocks() if r in reach]
            ok = not bad
            why = None
            if ok and t.get('callee') != MUTATORS[0] and not is_control:
                # the delta handed to the counter must be the mutator's returned count
                uses = False
                for b2, t2 in fn.calls():
                    if t2.get('callee') in COUNTER_UPDATES and len(t2['args']) > 1:
                        toks = deps.of_operand(t2['args'][1])
                        if ('callsite', b) in toks:
                            uses = True
                    if t2.get('callee') in helpers and t2.get('callee') != fn.name:
                        for j, a in enumerate(t2['args']):
                            if (j + 1) in helper_params.get(t2['callee'], ()) and ('callsite', b) in deps.of_operand(a):
                                uses = True
                if not uses:
                    ok = False
                    why = 'the counter update does not use the count returned by the mutator'
            rep.oblige('A5.1', '%s|bb%d|%s' % (fn.name, b, t.get('callee')), ok=ok, nontrivial=True,
                       sample={'wrapper': fn.name, 'mutator': t.get('callee'), 'at': fn.loc(t['span']),
                               'rule': 'every Ok-exit after the mutation crosses a counter update'})
            if not ok:
                rep.violation('A5.1', vkey('A5.1', fn.name, t.get('callee') or '?', t['span']['snip']),
                              fn.loc(t['span']),
                              '%s mutates the FAT (%s) but %s' % (fn.name, t.get('callee'),
                                                                  why or 'can return Ok without updating the cached '
                                                                  'free-cluster count'), control=is_control)
    rep.counts['A5.1'] = n1

    # ---------------- A5.2
    n2 = 0
    for fn in scope:
        is_control = fn.crate != 'fatfs'
        if not is_control:
            if fn.self_ty != FSINFO or fn.impl_trait is not None:
                continue
            if fn.name.endswith('::validate_and_fix'):
                continue  # mount-time fix-up: must NOT latch (C13/O2 checks that)
        for bi in sorted(fn.reachable()):
            stmts = fn.blocks[bi]['stmts']
            for si, s in enumerate(stmts):
                if s['k'] != 'assign' or not s['lhs']['p'] or 'f' not in s['lhs']['p'][-1]:
                    continue
                f = last_field(s['lhs'])
                owner = field_owner(fn, s['lhs'], f)
                if f not in ('free_cluster_count', 'next_free_cluster') or owner not in (
                        FSINFO, 'vf_witness::controls::CtlInfo'):
                    continue
                n2 += 1

                def sets_dirty(st):
                    return st['k'] == 'assign' and st['lhs']['p'] and last_field(st['lhs']) == 'dirty' and \
                        st['rv']['k'] == 'use' and const_operand_value(st['rv']['a']) == 1

                ok = any(sets_dirty(x) for x in stmts[si + 1:])
                if not ok:
                    latch_blocks = [b2 for b2 in fn.reachable() if any(sets_dirty(x) for x in fn.blocks[b2]['stmts'])]
                    reach = fn.reach_from(fn.succ(bi), cut_blocks=latch_blocks)
                    ok = not [r for r in fn.return_blocks() if r in reach] and bool(latch_blocks)
                rep.oblige('A5.2', '%s|%s' % (fn.name, f), ok=ok, nontrivial=True,
                           sample={'fn': fn.name, 'field': f, 'at': fn.loc(s['span'])})
                if not ok:
                    rep.violation('A5.2', vkey('A5.2', fn.name, f, s['span']['snip']), fn.loc(s['span']),
                                  '%s changes %s without latching FsInfoSector.dirty on every path: the change is not '
                                  'written back at unmount' % (fn.name, f), control=is_control)
    rep.counts['A5.2'] = n2

    # ---------------- A5.3
    S = facts.fns.get('fatfs::fs::FsInfoSector::serialize')
    if S is None:
        rep.machinery('ANCHOR-MISSING FsInfoSector::serialize')
    else:
        d = Deps(S)
        seen = set()
        for b, t in S.calls():
            for a in t['args'][1:]:
                for tk in d.of_operand(a):
                    if tk[0] == 'field':
                        seen.add(tk[1])
        for f in ('free_cluster_count', 'next_free_cluster'):
            ok = f in seen
            rep.oblige('A5.3', f, ok=ok, nontrivial=True)
            if not ok:
                rep.violation('A5.3', vkey('A5.3', S.name, f, ''), S.loc(S.span),
                              'the FS-information encoder does not write %s' % f)

    # ---------------- A5.4
    R = facts.fns.get('fatfs::fs::FileSystem::recalc_free_clusters')
    ST = facts.fns.get('fatfs::fs::FileSystem::stats')
    merged = False
    if R is None and ST is not None and any(t.get('callee') == 'fatfs::table::count_free_clusters' for b, t in ST.calls()):
        R = ST  # the recount was merged into stats(): its statements are judged there
        merged = True
    if R is None or ST is None:
        rep.machinery('ANCHOR-MISSING recalc_free_clusters / stats')
    else:
        d = Deps(R)
        cnt = [(b, t) for b, t in R.calls() if t.get('callee') == 'fatfs::table::count_free_clusters']
        ok_total = bool(cnt) and all(('field', 'total_clusters') in d.of_operand(t['args'][-1]) for b, t in cnt)
        m = Must(facts, lambda f, b, t, names: 'fatfs::fs::FsInfoSector::set_free_cluster_count' in names)
        if merged:
            # every Ok path through a recount crosses the store (paths that use the cached value do not recount)
            stores_b = [b for b, t in R.calls() if t.get('callee') == 'fatfs::fs::FsInfoSector::set_free_cluster_count']
            eb_ = error_blocks(R)
            rets_ = set(R.return_blocks())
            ok_store = bool(stores_b) and all(not (set(R.reach_from([t['ret']], cut_blocks=set(stores_b) | eb_)) & rets_)
                                              for b, t in cnt if t.get('ret') is not None)
        else:
            ok_store = m.passes(R, set())[0]
        stores = [(b, t) for b, t in R.calls() if t.get('callee') == 'fatfs::fs::FsInfoSector::set_free_cluster_count']
        ok_val = bool(stores) and all(any(('callsite', cb) in d.of_operand(t['args'][1]) for cb, _ in cnt)
                                      for b, t in stores)
        ok_ret = any(('callsite', cb) in d.of_local(0) for cb, _ in cnt)
        ok = ok_total and ok_store and ok_val and ok_ret
        rep.oblige('A5.4', R.name, ok=ok, nontrivial=True,
                   sample={'fn': R.name, 'scans_total_clusters': ok_total, 'stores_result': ok_store and ok_val,
                           'returns_result': ok_ret})
        if not ok:
            rep.violation('A5.4', vkey('A5.4', R.name, 'recount', ''), R.loc(R.span),
                          'the lazy recount does not store and return count_free_clusters(total_clusters)')
        # stats: the cached value is used only on the Some arm, the recount on the None arm
        d2 = Deps(ST)
        rc = [b for b, t in ST.calls() if t.get('callee') == R.name] if not merged else [b for b, _ in cnt]
        ok2 = False
        for bi in ST.reachable():
            t = ST.blocks[bi]['term']
            if t['k'] != 'switch':
                continue
            src = switch_source(ST, bi)
            if src and src['kind'] == 'discr' and ('field', 'free_cluster_count') in d2.of_place(src['place']):
                none_edges = {(bi, x) for v, x in t['targets'] if v == 0}
                if not any(v == 0 for v, _ in t['targets']):
                    none_edges.add((bi, t['otherwise']))
                if rc and all(edge_dominates(ST, none_edges, b) for b in rc):
                    ok2 = True
        rep.oblige('A5.4.stats', ST.name, ok=ok2, nontrivial=True)
        if not ok2:
            rep.violation('A5.4', vkey('A5.4', ST.name, 'none-arm', ''), ST.loc(ST.span),
                          'stats() does not recount exactly when the cached free count is absent')

    # ---------------- A5.5
    ctor = None
    for fn in fat:
        for bi in fn.reachable():
            for s in fn.blocks[bi]['stmts']:
                rv = s.get('rv')
                if s['k'] == 'assign' and rv['k'] == 'agg' and rv.get('adt') == 'fatfs::fs::FileSystem':
                    ctor = fn
    if ctor is None:
        rep.machinery('ANCHOR-MISSING constructor of FileSystem')
    else:
        d = Deps(ctor)
        ok = False
        for bi in ctor.reachable():
            for s in ctor.blocks[bi]['stmts']:
                if s['k'] == 'assign' and s['lhs']['p'] and last_field(s['lhs']) == 'free_cluster_count' and \
                        is_none_value(ctor, bi, s['rv']):
                    # dominated by the `mount-time dirty bit set` edge
                    for b2 in ctor.reachable():
                        t = ctor.blocks[b2]['term']
                        if t['k'] != 'switch':
                            continue
                        src = switch_source(ctor, b2)
                        if src and src['kind'] == 'place' and last_field(src['place']) == 'dirty':
                            toks = d.of_place(src['place'])
                            if any(tk[0] == 'call' and tk[1].endswith('::status_flags') for tk in toks):
                                if edge_dominates(ctor, {(b2, x) for x in nonzero_targets(t)}, bi):
                                    ok = True
        rep.oblige('A5.5', ctor.name, ok=ok, nontrivial=True)
        if not ok:
            rep.violation('A5.5', vkey('A5.5', ctor.name, 'dirty-mount', ''), ctor.loc(ctor.span),
                          'mounting a volume whose dirty bit is set keeps the free count stored in the FS-information '
                          'sector')

    # ---------------- A5.8
    RM = facts.fns.get('fatfs::dir::Dir::remove')
    if RM is None:
        rep.machinery('ANCHOR-MISSING Dir::remove')
    else:
        frees = [b for b, t in RM.calls() if t.get('callee') == 'fatfs::fs::FileSystem::free_cluster_chain']
        m = Must(facts, lambda f, b, t, names: 'fatfs::fs::FileSystem::free_cluster_chain' in names)
        cut = m.crossing_edges(RM, set())
        # None arm of first_cluster(): nothing to free
        d = Deps(RM)
        for bi in RM.reachable():
            t = RM.blocks[bi]['term']
            if t['k'] != 'switch':
                continue
            src = switch_source(RM, bi)
            if src and src['kind'] == 'discr':
                toks = d.of_place(src['place'])
                if any(tk[0] == 'call' and tk[1].endswith('::first_cluster') for tk in toks):
                    cut |= {(bi, x) for v, x in t['targets'] if v == 0}
                    if not any(v == 0 for v, _ in t['targets']):
                        cut.add((bi, t['otherwise']))
        # whatever writes to the device in remove() other than the chain release itself (the slot-deletion loop, inline
        # or in a helper); the recursion into a sub-directory is judged in its own right
        from rules.c13 import mutation_sites, wstar
        gcache = ctx.cache.setdefault('guard_cache', {})
        ws = ctx.cache.get('wstar')
        if ws is None:
            ws = ctx.cache['wstar'] = wstar(facts, gcache)
        writes = [b for b in mutation_sites(facts, RM, ws, gcache) if b not in frees and RM.blocks[b]['term']['k'] == 'call']
        before = RM.reach_from([0], cut_edges=cut)
        ok = bool(frees) and bool(writes) and not [b for b in writes if b in before]
        rep.oblige('A5.8.remove', RM.name, ok=ok, nontrivial=True)
        if not ok:
            rep.violation('A5.8', vkey('A5.8', RM.name, 'free-chain', ''), RM.loc(RM.span),
                          'remove() can mark the entry deleted without having freed its cluster chain first')
    TR = facts.fns.get('fatfs::file::File::truncate')
    if TR is None:
        rep.machinery('ANCHOR-MISSING File::truncate')
    else:
        m = Must(facts, lambda f, b, t, names: bool(names & {'fatfs::fs::FileSystem::free_cluster_chain',
                                                              'fatfs::fs::FileSystem::truncate_cluster_chain'}))
        cut = m.crossing_edges(TR, set())
        d = Deps(TR)
        for bi in TR.reachable():
            t = TR.blocks[bi]['term']
            if t['k'] != 'switch':
                continue
            src = switch_source(TR, bi)
            if src and src['kind'] == 'discr' and last_field(src['place']) == 'first_cluster':
                cut |= {(bi, x) for v, x in t['targets'] if v == 0}
                if not any(v == 0 for v, _ in t['targets']):
                    cut.add((bi, t['otherwise']))
        reach = TR.reach_from([0], cut_blocks=error_blocks(TR), cut_edges=cut)
        bad = [r for r in TR.return_blocks() if r in reach]
        rep.oblige('A5.8.truncate', TR.name, ok=not bad, nontrivial=True)
        if bad:
            rep.violation('A5.8', vkey('A5.8', TR.name, 'chain-op', ''), TR.loc(TR.span),
                          'File::truncate can return Ok without releasing the rest of the chain')

    # ---------------- A5.9 "no space" is what a scan of the table says
    n9 = 0
    for fn in fat:
        for bi in sorted(fn.reachable()):
            for s_ in fn.blocks[bi]['stmts']:
                rv_ = s_['rv'] if s_['k'] == 'assign' else None
                if rv_ is None or rv_['k'] != 'agg' or rv_.get('variant') != 'NotEnoughSpace' or \
                        not (rv_.get('adt') or '').endswith('error::Error'):
                    continue
                n9 += 1
                ok = fn.file() == 'src/table.rs'
                rep.oblige('A5.9', '%s|bb%d' % (fn.name, bi), ok=ok, nontrivial=True, sample={'fn': fn.name, 'at': fn.loc(s_['span'])})
                if not ok:
                    rep.violation('A5.9', vkey('A5.9', fn.name, 'no-space-source', ''), fn.loc(s_['span']),
                                  '%s reports NotEnoughSpace itself instead of passing on what a scan of the allocation table found: '
                                  'a decision taken from a cached count (or any other bookkeeping) is wrong whenever the cache is - e.g. '
                                  'after a chain release that was interrupted by a device error' % fn.name)
    rep.counts['A5.9'] = n9

    # ---------------- X2 FAT32 mask agreement
    n_x2 = 0
    # provided methods of the trait are judged in their FAT32 instance (Self = Fat<u32>): the shared body then runs on
    # 32-bit words whose top nibble is reserved
    shared32 = {i['fn'] for i in facts.instances if i['fn'].startswith('fatfs::table::FatTrait::') and
                i['args'].lstrip('[').startswith('fatfs::table::Fat<u32>')}
    for fn in fat:
        if not ((fn.impl_trait == 'fatfs::table::FatTrait' and fn.self_ty == 'fatfs::table::Fat<u32>') or fn.name in shared32):
            continue
        short = fn.name.rsplit('::', 1)[-1]
        if short not in ('get', 'find_free', 'count_free'):
            continue
        d = Deps(fn)
        reads = [b for b, t in fn.calls() if (t.get('callee') or '').rsplit('::', 1)[-1] in ('read_u32_le', 'get_raw')]
        for bi in sorted(fn.reachable()):
            t = fn.blocks[bi]['term']
            if t['k'] != 'switch':
                continue
            src = switch_source(fn, bi)
            if not src:
                continue
            toks = None
            if src['kind'] == 'binop' and src['op'] in ('Eq', 'Ne', 'Lt', 'Le', 'Gt', 'Ge'):
                toks = d.of_operand(src['a']) | d.of_operand(src['b'])
            elif src['kind'] == 'place':
                toks = d.of_place(src['place'])
            if toks is None or not any(('callsite', r) in toks for r in reads):
                continue
            # only tests whose operand is the entry value itself (not a flag derived through a call)
            n_x2 += 1
            ok = ('const', MASK28) in toks and ('op', 'BitAnd') in toks
            if not ok and fn.name in shared32 and ('op', 'BitAnd') in toks and any(tk[0] == 'constpath' for tk in toks):
                ok = True  # masked with a per-width associated constant (its value is judged by X1 through `get`)
            rep.oblige('X2', '%s|bb%d' % (fn.name, bi), ok=ok, nontrivial=True,
                       sample={'fn': fn.name, 'at': fn.loc(t['span']), 'masked': ok})
            if not ok:
                rep.violation('X2', vkey('X2', fn.name, 'mask', t['span']['snip']), fn.loc(t['span']),
                              '%s tests a FAT32 entry without masking the reserved top four bits (& 0x0FFF_FFFF): an '
                              'entry with reserved bits set is mis-classified' % fn.name)
    rep.counts['X2'] = n_x2
