"""C01 - directory-tree operations (DESIGN.md section 4, R1.1-R1.5): only the failure-atomicity clause is
structural - every user-error decision is taken before the first structural device write.

R1.1 = N1 (name errors; rules/c15.py)
R1.2 existence first: in create_file / create_dir / rename every mutation site lies on the `name is free` arm
R1.3 emptiness first: remove() cannot mutate a non-empty directory
R1.4 publish before delete: rename writes the destination entry before it deletes the source slots
R1.5 intermediate path components are looked up as directories
R1.7 no panic site of the directory / directory-entry / time code (reachable from any API root) is left undischarged:
     a panic is not one of the documented outcomes of a namespace operation
"""
from analyses import Deps, Must, edge_dominates, label_results, switch_source, nonzero_targets, zero_targets
from core import vkey
from model import op_const, op_place, place_key
from rules.c13 import mutation_sites, wstar

CREATE_FNS = ('fatfs::dir::Dir::create_file', 'fatfs::dir::Dir::create_dir', 'fatfs::dir::Dir::rename_internal')
CHECK = 'fatfs::dir::Dir::check_for_existence'
PATH_FNS = ('open_dir', 'open_file', 'create_file', 'create_dir', 'remove', 'rename')


def variant_edges(fn, call_blk, variant_name, adt_suffix):
    """edges of the discriminant switch on the Ok payload of call()? that select `variant_name`"""
    lab = label_results(fn).get(call_blk)
    if not lab or lab['status'] != 'labelled':
        return None
    deps = Deps(fn)
    out = set()
    for bi in fn.reachable():
        t = fn.blocks[bi]['term']
        if t['k'] != 'switch':
            continue
        src = switch_source(fn, bi)
        if not src or src['kind'] != 'discr':
            continue
        p = src['place']
        from analyses import place_prefix_type
        ty = place_prefix_type(fn, p, len(p['p']))
        if not ty or ty['k'] != 'adt' or not ty['path'].endswith(adt_suffix):
            continue
        if ('callsite', call_blk) not in deps.of_place(p):
            continue
        adt = fn.adts.get(ty['path'])
        vi = [i for i, v in enumerate(adt['variants']) if v['name'] == variant_name]
        if not vi:
            continue
        vi = vi[0]
        explicit = {v for v, _ in t['targets']}
        for v, tgt in t['targets']:
            if v == vi:
                out.add((bi, tgt))
        if vi not in explicit:
            out.add((bi, t['otherwise']))
    return out


def run(ctx, rep):
    from rules import allpanics
    allpanics.run_scope(ctx, rep, 'C01', 'R1.7', 'in the directory / entry / time code')
    facts = ctx.facts
    gcache = {}
    ws = wstar(facts, gcache)

    # ---------------- R1.2
    for name in CREATE_FNS:
        fn = facts.fns.get(name)
        if fn is None:
            rep.machinery('ANCHOR-MISSING ' + name)
            continue
        checks = [b for b, t in fn.calls() if t.get('callee') == CHECK]
        if len(checks) != 1:
            rep.machinery('ANCHOR %s: expected one call of check_for_existence, found %d' % (name, len(checks)))
            continue
        edges = variant_edges(fn, checks[0], 'ShortName', 'DirEntryOrShortName')
        if not edges:
            rep.machinery('ANCHOR %s: match on the existence check result not found' % name)
            continue
        sites = mutation_sites(facts, fn, ws, gcache)
        for b in sites:
            t = fn.blocks[b]['term']
            ok = edge_dominates(fn, edges, b)
            rep.oblige('R1.2', '%s|bb%d' % (name, b), ok=ok, nontrivial=True,
                       sample={'fn': name, 'mutation': t['span']['snip'][:70], 'at': fn.loc(t['span']),
                               'rule': 'dominated by the `name is free` arm of the existence check'})
            if not ok:
                rep.violation('R1.2', vkey('R1.2', name, t.get('callee') or 'drop', t['span']['snip']),
                              fn.loc(t['span']),
                              '%s can modify the volume before (or regardless of) the check that the destination name '
                              'is free' % name)
        if not sites:
            rep.machinery('FLOOR %s has no mutation site' % name)

    # ---------------- R1.3
    RM = facts.fns.get('fatfs::dir::Dir::remove')
    if RM is None:
        rep.machinery('ANCHOR-MISSING Dir::remove')
    else:
        deps = Deps(RM)
        isdir = [b for b, t in RM.calls() if (t.get('callee') or '').endswith('DirEntry::is_dir')]
        isempty = [b for b, t in RM.calls() if (t.get('callee') or '').endswith('Dir::is_empty')]
        cut = set()
        for bi in RM.reachable():
            t = RM.blocks[bi]['term']
            if t['k'] != 'switch':
                continue
            src = switch_source(RM, bi)
            if not src:
                continue
            if src['kind'] == 'call' and src['blk'] in isdir:
                cut |= {(bi, x) for x in zero_targets(t)}  # not a directory
            toks = None
            neg = False
            if src['kind'] == 'unop' and src['op'] == 'Not':
                toks = deps.of_operand(src['a'])
                neg = True
            elif src['kind'] == 'place':
                toks = deps.of_place(src['place'])
            if toks and any(('callsite', b) in toks for b in isempty) and not any(('callsite', b) in toks for b in isdir):
                # value tested = !is_empty (neg) or is_empty
                empty_targets = zero_targets(t) if neg else nonzero_targets(t)
                cut |= {(bi, x) for x in empty_targets}
        sites = [b for b in mutation_sites(facts, RM, ws, gcache)]
        reach = RM.reach_from([0], cut_edges=cut)
        bad = [b for b in sites if b in reach]
        ok = bool(isdir) and bool(isempty) and not bad
        rep.oblige('R1.3', RM.name, ok=ok, nontrivial=True,
                   sample={'fn': RM.name, 'mutation_sites': len(sites), 'allowed_edges': sorted(cut)})
        if not ok:
            t = RM.blocks[bad[0]]['term'] if bad else None
            rep.violation('R1.3', vkey('R1.3', RM.name, 'emptiness', ''), RM.loc(t['span']) if t else RM.loc(RM.span),
                          'remove() can free clusters / delete slots of a directory without having established that it '
                          'is empty')

    # ---------------- R1.4
    RN = facts.fns.get('fatfs::dir::Dir::rename_internal')
    if RN is not None:
        pub = [b for b, t in RN.calls() if (t.get('callee') or '').endswith('Dir::write_entry')]
        m = Must(facts, lambda f, b, t, names: 'fatfs::dir::Dir::write_entry' in names)
        cut = m.crossing_edges(RN, set())
        before = RN.reach_from([0], cut_edges=cut)
        for b in mutation_sites(facts, RN, ws, gcache):
            if b in pub:
                continue
            t = RN.blocks[b]['term']
            ok = b not in before
            rep.oblige('R1.4', '%s|bb%d' % (RN.name, b), ok=ok, nontrivial=True,
                       sample={'fn': RN.name, 'at': RN.loc(t['span']), 'site': t['span']['snip'][:60]})
            if not ok:
                rep.violation('R1.4', vkey('R1.4', RN.name, 'delete-before-publish', ''),
                              RN.loc(t['span']),
                              'rename deletes the source entry before the destination entry has been written: if the '
                              'destination directory cannot take the entry (e.g. a full fixed-size root) the call fails '
                              'with a non-I/O error and the file is lost')

    # ---------------- R1.8 rename does its work: no Ok exit of Dir::rename avoids both the worker and the recursion
    RNP = facts.fns.get('fatfs::dir::Dir::rename')
    if RNP is None:
        rep.machinery('ANCHOR-MISSING Dir::rename')
    else:
        from analyses import error_blocks
        m8 = Must(facts, lambda f, b, t, names: bool(names & {'fatfs::dir::Dir::rename_internal', 'fatfs::dir::Dir::rename'}))
        ok8, rets8 = m8.passes(RNP, set())
        rep.oblige('R1.8', RNP.name, ok=ok8, nontrivial=True)
        if not ok8:
            rep.violation('R1.8', vkey('R1.8', RNP.name, 'does-the-work', ''), RNP.loc(RNP.span),
                          'Dir::rename can return Ok without having run rename_internal (or recursed into a sub-directory): '
                          'a successful rename / move that changed nothing, or that skipped the existence checks')

    # ---------------- R1.5
    n5 = 0
    for short in PATH_FNS:
        fn = facts.fns.get('fatfs::dir::Dir::' + short)
        if fn is None:
            rep.machinery('ANCHOR-MISSING Dir::' + short)
            continue
        rec = [b for b, t in fn.calls() if t.get('callee') == fn.name]
        finds = [(b, t) for b, t in fn.calls() if (t.get('callee') or '').endswith('Dir::find_entry')]
        m = Must(facts, lambda f, b, t, names: False)
        lab = label_results(fn)
        d15 = None
        for b, t in finds:
            info = lab.get(b)
            if not info or info['status'] != 'labelled':
                continue
            # is it an intermediate component?  the directory it finds is what a recursive call is made on (or handed to one);
            # (dominance of the recursive call by the lookup's Ok edge says the same until the step is moved into a helper
            # with its own `?`, whose two exits meet again before the caller's `?`)
            if d15 is None:
                d15 = Deps(fn)
            feeds = any(('callsite', b) in d15.of_operand(a) for r in rec for a in fn.blocks[r]['term']['args'])
            if not feeds and not any(edge_dominates(fn, info['ok'], r) for r in rec):
                continue
            n5 += 1
            # the is_dir argument: Some(true)
            arg = t['args'][2]
            p = op_place(arg)
            ok = False
            if p is not None:
                from analyses import last_def_in_block
                d = last_def_in_block(fn, b, p['l'])
                if d is not None and d['rv']['k'] == 'agg' and d['rv'].get('variant') == 'Some':
                    c = op_const(d['rv']['ops'][0])
                    ok = c is not None and c.get('val') == 1
                elif d is not None and d['rv']['k'] == 'agg' and (d['rv'].get('adt') or '').startswith('fatfs::') and \
                        not d['rv'].get('ops') and 'dir' in (d['rv'].get('variant') or '').lower():
                    ok = True  # the filter as a private enum (`EntryKind::Dir`) instead of `Some(true)`
            rep.oblige('R1.5', '%s|bb%d' % (fn.name, b), ok=ok, nontrivial=True)
            if not ok:
                rep.violation('R1.5', vkey('R1.5', fn.name, 'find_entry', t['span']['snip']), fn.loc(t['span']),
                              '%s does not require an intermediate path component to be a directory' % fn.name)
    rep.counts['R1.5'] = n5


# ---------------------------------------------------------------------------------------------
# R1.9  "the destination is the source itself" is decided by the entries' absolute position

def run_entry_identity(ctx, rep):
    """rename onto an existing name is allowed only when source and destination are the SAME entry. Slot offsets are
    relative to a directory, so they do not identify an entry across directories; the absolute position of the short
    entry (`entry_pos`) does. The identity test must compare that field of both entries."""
    facts = ctx.facts
    fn = facts.fns.get('fatfs::dir_entry::DirEntry::is_same_entry') or facts.fns.get('fatfs::dir::Dir::rename_internal')
    if fn is None:
        rep.machinery('ANCHOR-MISSING DirEntry::is_same_entry / Dir::rename_internal')
        return
    d = Deps(fn)
    ok = False
    seen_cmp = 0
    for bi in fn.reachable():
        t = fn.blocks[bi]['term']
        pairs = []
        if t['k'] == 'call' and (t.get('callee') or '') in ('core::cmp::PartialEq::eq', 'core::cmp::PartialEq::ne') and len(t['args']) == 2:
            pairs.append((t['args'][0], t['args'][1]))
        for s in fn.blocks[bi]['stmts']:
            if s['k'] == 'assign' and s['rv']['k'] == 'binop' and s['rv']['op'] in ('Eq', 'Ne'):
                pairs.append((s['rv']['a'], s['rv']['b']))
        for a, b in pairs:
            ta, tb = d.of_operand(a), d.of_operand(b)
            fa = {tk[1] for tk in ta if tk[0] == 'field'}
            fb = {tk[1] for tk in tb if tk[0] == 'field'}
            if fn.name.endswith('is_same_entry') or ('entry_pos' in fa | fb) or ({'offset_range'} & (fa | fb)):
                seen_cmp += 1
                if 'entry_pos' in fa and 'entry_pos' in fb:
                    ok = True
    rep.oblige('R1.9', fn.name, ok=ok, nontrivial=True,
               sample={'fn': fn.name, 'rule': 'the identity test compares entry_pos of both entries', 'comparisons': seen_cmp})
    if not ok:
        rep.violation('R1.9', vkey('R1.9', fn.name, 'identity', ''), fn.loc(fn.span),
                      'two directory entries are taken to be the same entry without comparing their absolute positions '
                      '(entry_pos): entries of different directories that happen to occupy the same slot offsets are confused, '
                      'so a move onto an existing name in another directory reports success and does nothing')


_run_1 = run


def run(ctx, rep):
    _run_1(ctx, rep)
    run_entry_identity(ctx, rep)


# ---------------------------------------------------------------------------------------------
# R1.10  an entry whose slots have been marked deleted is not turned into a handle afterwards: `to_dir` / `to_file` / `editor`
#        of a DirEntry carry the entry's position, and a handle writes "its" entry back when it is dropped (access date, size) -
#        into slots that are free, or already reused for the new name

def run_no_handle_on_deleted(ctx, rep):
    facts = ctx.facts
    n = 0
    for fn in facts.fns.values():
        if fn.crate != 'fatfs':
            continue
        dels = [b for b, t in fn.calls() if (t.get('callee') or '').endswith('::set_deleted')]
        if not dels:
            continue
        d = Deps(fn)
        finds = {b for b, t in fn.calls() if (t.get('callee') or '').endswith('Dir::find_entry')}
        writes = {b for b, t in fn.calls() if (t.get('callee') or '').endswith('Dir::write_entry')}
        # the entry being deleted: the lookup whose result positions the stream in front of the deletion loop
        victims = set()
        for b, t in fn.calls():
            if (t.get('callee') or '').endswith('io::Seek::seek') and len(t['args']) > 1 and any(x in fn.reach_from([b]) for x in dels):
                toks = d.of_operand(t['args'][1])
                victims |= {f for f in finds if ('callsite', f) in toks}
        if not victims:
            continue
        after = fn.reach_from(dels)
        for b, t in fn.calls():
            c = t.get('callee') or ''
            if b not in after or not c.endswith(('DirEntry::to_dir', 'DirEntry::to_file', 'DirEntry::editor')) or not t['args']:
                continue
            toks = d.of_operand(t['args'][0])
            n += 1
            from_victim = any(('callsite', f) in toks for f in victims)
            from_new = any(('callsite', w) in toks for w in writes) or any(('callsite', f) in toks for f in finds - victims)
            ok = not from_victim or from_new
            rep.oblige('R1.10', '%s|bb%d' % (fn.name, b), ok=ok, nontrivial=True, sample={'fn': fn.name, 'at': fn.loc(t['span'])})
            if not ok:
                rep.violation('R1.10', vkey('R1.10', fn.name, 'handle-on-deleted', c.rsplit('::', 1)[-1]), fn.loc(t['span']),
                              '%s makes a handle (`%s`) from the entry whose slots it has just marked deleted: when the handle is '
                              'dropped it writes that entry back (e.g. a new access date) into slots that are free or already hold '
                              'the new name - the old name reappears / the new entry is overwritten' % (fn.name, t['span']['snip'][:60]))
    rep.counts['R1.10.sites'] = n


_run_1b = run


def run(ctx, rep):
    _run_1b(ctx, rep)
    run_no_handle_on_deleted(ctx, rep)


# ---------------------------------------------------------------------------------------------
# R1.3b  "empty" means what a listing shows: Dir::is_empty looks at the directory through the same iterator as `iter()` (which
#        drops deleted slots, orphaned long-name slots and volume labels), not at raw slots of its own

def run_is_empty_view(ctx, rep):
    facts = ctx.facts
    fn = facts.fns.get('fatfs::dir::Dir::is_empty')
    if fn is None:
        return
    raw = [(b, t) for b, t in fn.calls() if (t.get('callee') or '').endswith(('DirEntryData::deserialize', 'DirFileEntryData::deserialize'))]
    via_iter = any((t.get('callee') or '').endswith(('Dir::iter', 'DirIter::new')) or
                   ((t.get('callee') or '').endswith('Iterator::next') and t['args'] and
                    ((lambda ty: (ty or {}).get('path', ''))(_deref_ty(fn, t['args'][0]))).endswith('DirIter'))
                   for b, t in fn.calls())
    ok = not raw and via_iter
    rep.oblige('R1.3b', fn.name, ok=ok, nontrivial=True, sample={'fn': fn.name, 'raw_slot_reads': len(raw), 'uses_dir_iter': via_iter})
    if not ok:
        rep.violation('R1.3b', vkey('R1.3b', fn.name, 'own-slot-scan', ''), fn.loc(raw[0][1]['span']) if raw else fn.loc(fn.span),
                      'Dir::is_empty decides emptiness on raw directory slots of its own instead of through the directory iterator: '
                      'slots a listing does not show (orphaned long-name slots, a volume label) make an empty directory '
                      'non-removable - or the other way round')


def _deref_ty(fn, o):
    p = op_place(o)
    if p is None or p['p']:
        return None
    ty = fn.local_ty(p['l'])
    for _ in range(3):
        if ty is not None and ty.get('k') in ('ref', 'ptr'):
            ty = fn.types[ty['to']]
    return ty


_run_1c = run


def run(ctx, rep):
    _run_1c(ctx, rep)
    run_is_empty_view(ctx, rep)
