"""C20 - large volumes: 64-bit addressing, last clusters, allocation wrap-around (DESIGN.md section 4, W1-W3).

W1  widening discipline: every <=32-bit arithmetic site in the offset-computing functions is discharged (interval
    analysis, validated-BPB invariants, valid-cluster premise), and no <=32-bit left shift can drop bits before its
    result is used (shifts have no overflow check in Rust)
W2  wrap-around: when the hinted scan finds nothing and started above the first data cluster, a second scan over
    [2, start) runs before out-of-space is reported
W3  the hint is clamped strictly below total_clusters + 2 (rule R10.4 of rules/c10.py)
"""
from analyses import Deps, Must, edge_dominates, error_blocks, label_results, switch_source, nonzero_targets, zero_targets
from core import vkey
from intervals import Analysis, FnCtx, arith, fmt, type_range
from model import op_const, op_place, place_key
from rules import allpanics
from rules.c17 import validated_bpb_fields


def run(ctx, rep):
    run_cluster_bounds(ctx, rep)
    facts = ctx.facts
    # ---------------- W1a overflow / division sites of the offset arithmetic
    allpanics.run_scope(ctx, rep, 'C20', 'W1', 'in the offset arithmetic')
    # ---------------- W1b truncating shifts
    base = validated_bpb_fields(facts)
    rx = allpanics.SCOPES['C20']
    n = 0
    for fn in facts.fns.values():
        if fn.crate != 'fatfs' or not rx.match(fn.name):
            continue
        an = None
        # locals that are widened to 64 bits somewhere in this function (the shift result must be one of them, directly
        # or through further arithmetic, to matter for a device offset)
        d = Deps(fn)
        widened = set()
        for bi in fn.reachable():
            for s in fn.blocks[bi]['stmts']:
                if s['k'] == 'assign' and s['rv']['k'] == 'cast' and fn.ty(s['rv']['to']).get('bits') == 64:
                    widened |= {tk[1] for tk in d.of_operand(s['rv']['a']) if tk[0] == 'local'}
            t = fn.blocks[bi]['term']
            if t['k'] == 'call' and t.get('callee') in ('core::convert::From::from', 'core::convert::Into::into') and \
                    fn.ty(t['dest_ty']).get('bits') == 64:
                widened |= {tk[1] for tk in d.of_operand(t['args'][0]) if tk[0] == 'local'}
        # a function whose (<= 32-bit) result is the shifted value: its callers widen it
        ret_narrow = (fn.local_ty(0).get('bits') or 64) <= 32
        for bi in sorted(fn.reachable()):
            for si, s in enumerate(fn.blocks[bi]['stmts']):
                if s['k'] != 'assign' or s['rv']['k'] != 'binop' or s['rv']['op'] not in ('Shl', 'ShlUnchecked'):
                    continue
                flows_to_ret = ('local', s['lhs']['l']) in d.of_local(0) or s['lhs']['l'] == 0
                if s['lhs']['l'] not in widened and not (ret_narrow and flows_to_ret):
                    continue
                if an is None:
                    an = Analysis(facts, fn, FnCtx({}, dict(base), set()), {}, 0)
                ty = an.operand_ty(s['rv']['a'])
                if not ty or ty['k'] != 'int' or ty['bits'] > 32:
                    continue
                n += 1
                # state just before this statement
                st, rel = an.in_state.get(bi, (None, None))
                ok = False
                why = 'block unreachable'
                if st is not None:
                    st, rel = dict(st), dict(rel)
                    for s2 in fn.blocks[bi]['stmts'][:si]:
                        if s2['k'] == 'assign':
                            an.assign(st, rel, s2['lhs'], s2['rv'], bi)
                    a = an.read_operand(st, s['rv']['a'])
                    b = an.read_operand(st, s['rv']['b'])
                    r = arith('Shl', a, b)
                    rng = type_range(ty)
                    ok = r is not None and r[1] <= rng[1]
                    why = '%s << %s = %s, type range %s' % (fmt(a), fmt(b), fmt(r), fmt(rng))
                rep.oblige('W1.shl', '%s|bb%d' % (fn.name, bi), ok=ok, nontrivial=True,
                           sample={'fn': fn.name, 'at': fn.loc(s['span']), 'expr': s['span']['snip'][:60], 'why': why})
                if not ok:
                    rep.violation('W1', vkey('W1', fn.name, 'Shl', s['span']['snip']), fn.loc(s['span']),
                                  'a %d-bit left shift in %s can drop high bits (%s) and Rust does not check shifts for '
                                  'lost bits: offsets beyond 4 GiB would wrap' % (ty['bits'], fn.name, why))
    rep.counts['W1.shl'] = n
    # the sector -> byte conversion multiplies in 64 bits
    B = facts.fns.get('fatfs::boot_sector::BiosParameterBlock::bytes_from_sectors')
    if B is None:
        rep.machinery('ANCHOR-MISSING bytes_from_sectors')
    else:
        ok = False
        for bi in B.reachable():
            for s in B.blocks[bi]['stmts']:
                if s['k'] == 'assign' and s['rv']['k'] == 'binop' and s['rv']['op'].startswith('Mul'):
                    an = Analysis(facts, B)
                    ty = an.operand_ty(s['rv']['a'])
                    if ty and ty.get('bits') == 64:
                        ok = True
        rep.oblige('W1.bytes', B.name, ok=ok, nontrivial=True)
        if not ok:
            rep.violation('W1', vkey('W1', B.name, 'mul64', ''), B.loc(B.span),
                          'bytes_from_sectors does not multiply in 64 bits: byte offsets of sectors beyond 4 GiB wrap')

    # ---------------- W2 wrap-around scan
    AC = facts.fns.get('fatfs::table::alloc_cluster')
    if AC is None:
        rep.machinery('ANCHOR-MISSING table::alloc_cluster')
    else:
        d = Deps(AC)
        # the scans: calls of the range search (by its name on the pinned tree, or - when it was renamed / made transparent -
        # the per-width `find_free*` calls it consists of); (start, end) are the last two arguments
        scans = [(b, t) for b, t in AC.calls() if (t.get('callee') or '').rsplit('::', 1)[-1].startswith('find_free') and len(t['args']) >= 3]
        lab = label_results(AC)
        from analyses import place_prefix_type

        def fail_edges(b):
            """edges taken when the scan at b found nothing: its Err edge, or the None arm of a test of its Ok payload"""
            info = lab.get(b)
            out = set()
            if info is not None and info['status'] == 'labelled':
                out |= set(info['err']) | set(info.get('none') or ())
            for bi in AC.reachable():
                tt = AC.blocks[bi]['term']
                if tt['k'] != 'switch':
                    continue
                src = switch_source(AC, bi)
                if src and src.get('kind') == 'discr' and ('callsite', b) in d.of_place(src['place']):
                    pty = place_prefix_type(AC, src['place'], len(src['place']['p']))
                    if pty and pty.get('path') == 'core::option::Option':
                        out |= {(bi, x) for v, x in tt['targets'] if v == 0}
            return out

        all_fail = set()
        for b, t in scans:
            all_fail |= fail_edges(b)
        first_reach = AC.reach_from([0], cut_edges=all_fail)
        primary = [(b, t) for b, t in scans if b in first_reach]
        secondary = [(b, t) for b, t in scans if b not in first_reach]
        ok = False
        why = 'fewer than two scans'
        if primary and secondary:
            on_err = lo_ok = hi_ok = guard = True
            for b2, t2 in secondary:
                lo = op_const(t2['args'][-2])
                lo_ok = lo_ok and (lo is not None and lo.get('val') == 2 or
                                   ('constpath', 'fatfs::table::RESERVED_FAT_ENTRIES') in d.of_operand(t2['args'][-2]))
                # the upper bound of the second leg is the first leg's start itself (the end is exclusive): same provenance,
                # no further arithmetic on it
                t_hi = d.of_operand(t2['args'][-1])
                h = False
                for b1, t1 in primary:
                    t_lo = d.of_operand(t1['args'][-2])
                    if bool(t_hi & t_lo - {('const', 2)}) and \
                            {tk for tk in t_hi if tk[0] == 'op'} <= {tk for tk in t_lo if tk[0] == 'op'} and \
                            {tk for tk in t_hi if tk[0] == 'call'} <= {tk for tk in t_lo if tk[0] == 'call'}:
                        h = True
                hi_ok = hi_ok and h
                g = False
                for bi in AC.reachable():
                    tt = AC.blocks[bi]['term']
                    if tt['k'] == 'switch':
                        src = switch_source(AC, bi)
                        if src and src['kind'] == 'binop' and src['op'] in ('Gt', 'Ne', 'Lt', 'Ge') and edge_dominates(
                                AC, {(bi, x) for x in AC.succ(bi)} - {(bi, x) for x in (zero_targets(tt) if src['op'] in ('Gt', 'Ne') else nonzero_targets(tt))}, b2):
                            g = True
                guard = guard and g
            ok = on_err and lo_ok and hi_ok and guard
            why = 'second scan on the nothing-found side=%s, lower bound 2=%s, upper bound = first scan start=%s, guarded by start>2=%s' % (
                on_err, lo_ok, hi_ok, guard)
        rep.oblige('W2', AC.name, ok=ok, nontrivial=True, sample={'fn': AC.name, 'why': why})
        if not ok:
            rep.violation('W2', vkey('W2', AC.name, 'wrap-around', ''), AC.loc(AC.span),
                          'the free-cluster search does not wrap around to [2, start) when the scan from the hint finds '
                          'nothing (%s): a volume with free clusters below the hint reports out-of-space' % why)


def run_cluster_bounds(ctx, rep):
    """W4: cluster numbers are biased by the two reserved FAT entries: every test of a cluster *number* against a bound
    derived from total_clusters carries a `+ 2` / `- 2` (valid numbers are 2 ..= total_clusters + 1). A bound without it
    cuts off the last two clusters of the volume (or admits two padding entries)."""
    import re
    facts = ctx.facts
    name_rx = re.compile(r'(^|_)cluster$|^cluster_|_cluster_')
    n = 0
    for fn in facts.fns.values():
        # helpers that were made transparent (inlined) are looked at in their own right too: inside the caller the
        # flow-insensitive dependence of a cluster number is too wide to tell the two sides of a comparison apart
        if fn.crate not in ('fatfs', 'fatfs-inlined') or not fn.blocks:
            continue
        d = None
        # a closure sees captured variables as fields 0, 1, .. of its environment: give them the names they have where
        # the closure is built
        cap_names = {}
        if '::{closure' in fn.name:
            parent = facts.fns.get(fn.name.rsplit('::{closure', 1)[0])
            if parent is not None:
                for bi_ in parent.reachable():
                    for s_ in parent.blocks[bi_]['stmts']:
                        if s_['k'] == 'assign' and s_['rv']['k'] == 'agg' and s_['rv'].get('ak') == 'closure' and \
                                s_['rv'].get('def') == fn.name:
                            dp_ = Deps(parent)
                            for i_, o_ in enumerate(s_['rv']['ops']):
                                nm_ = {parent.locals[tk[1]].get('name') for tk in dp_.of_operand(o_)
                                       if tk[0] in ('local', 'param')} - {None}
                                cap_names[str(i_)] = nm_

        def side_info(toks):
            extra = set()
            for tk in toks:
                if tk[0] == 'field' and tk[1] in cap_names:
                    extra |= cap_names[tk[1]]
            toks = set(toks) | {('capname', x) for x in extra}
            has_total = any((tk[0] == 'call' and tk[1].endswith('::total_clusters')) or tk == ('field', 'total_clusters') or
                            (tk[0] in ('local', 'param') and (fn.locals[tk[1]].get('name') or '') == 'total_clusters') or
                            tk == ('capname', 'total_clusters')
                            for tk in toks)
            names = ({fn.locals[tk[1]].get('name') for tk in toks if tk[0] in ('local', 'param')} |
                     {tk[1] for tk in toks if tk[0] == 'capname'}) - {None}
            fields = {tk[1] for tk in toks if tk[0] == 'field'}
            is_number = any(name_rx.search(x) for x in names | fields if 'clusters' not in x) and \
                not any('count' in x for x in names | fields)
            return has_total, is_number

        cands = []
        for bi in sorted(fn.reachable()):
            for s in fn.blocks[bi]['stmts']:
                if s['k'] == 'assign' and s['rv']['k'] == 'binop' and s['rv']['op'] in ('Lt', 'Le', 'Gt', 'Ge'):
                    cands.append((bi, s['span'], [s['rv']['a']], [s['rv']['b']]))
            t = fn.blocks[bi]['term']
            if t['k'] == 'call' and (t.get('callee') or '').endswith(('RangeInclusive::contains', 'Range::contains')) and \
                    len(t['args']) == 2:
                cands.append((bi, t['span'], [t['args'][0]], [t['args'][1]]))
        for bi, span, xs, ys in cands:
            if d is None:
                d = Deps(fn)
            tx = set().union(*[d.of_operand(o) for o in xs])
            ty = set().union(*[d.of_operand(o) for o in ys])
            (tot_x, num_x), (tot_y, num_y) = side_info(tx), side_info(ty)
            if not ((tot_x and not tot_y and num_y) or (tot_y and not tot_x and num_x)):
                continue
            n += 1
            allt = tx | ty
            biased = (('const', 2) in allt or any(tk[0] == 'constpath' and tk[1].endswith('RESERVED_FAT_ENTRIES') for tk in allt)) \
                and (('op', 'Add') in allt or ('op', 'Sub') in allt)
            rep.oblige('W4', '%s|bb%d' % (fn.name, bi), ok=biased, nontrivial=True,
                       sample={'fn': fn.name, 'at': fn.loc(span), 'expr': span['snip'][:70]})
            if not biased:
                rep.violation('W4', vkey('W4', fn.name, 'cluster-bound', span['snip']), fn.loc(span),
                              'a cluster number is tested against a bound derived from total_clusters without the bias of the '
                              'two reserved FAT entries (valid numbers are 2 ..= total_clusters + 1): the last clusters of '
                              'the volume are cut off or padding entries admitted')
    rep.counts['W4.sites'] = n


# ---------------------------------------------------------------------------------------------
# W2c  the FAT12 free-entry scan does not read the entry at `end_cluster`

def run_fat12_scan_bound(ctx, rep):
    """A FAT12 table can be filled by its entries to the last byte, so reading the entry *at* the exclusive bound fails with
    an unexpected-EOF instead of ending the scan with `NotEnoughSpace` - and the allocator's wrap-around leg keys on
    exactly that error. Structural necessary condition: between the increment of the scanned cluster number and the next
    table read there is a comparison of the cluster number with the bound."""
    facts = ctx.facts
    fn = facts.fns.get('<fatfs::table::Fat<u8> as fatfs::table::FatTrait>::find_free')
    if fn is None:
        rep.machinery('ANCHOR-MISSING Fat12::find_free')
        return
    d = Deps(fn)
    # the scanned local: a named local stepped by one; the bound test compares it with something that derives from a parameter
    # other than the table (the end of the scan, passed as a number or as the end of a range) and not from the local itself
    def rv_toks(rv):
        return d.of_operand(rv['a']) if rv['k'] == 'use' else d.of_operand(rv['a']) | d.of_operand(rv['b'])
    stepped = {}
    for bi in fn.reachable():
        for s in fn.blocks[bi]['stmts']:
            if s['k'] == 'assign' and not s['lhs']['p'] and s['rv']['k'] in ('use', 'binop') and \
                    (fn.locals[s['lhs']['l']].get('name') or ''):
                toks = rv_toks(s['rv'])
                if ('op', 'Add') in toks and ('const', 1) in toks and ('local', s['lhs']['l']) in toks:
                    stepped.setdefault(s['lhs']['l'], set()).add(bi)
    bound_blocks, scanned = set(), set()
    for bi in fn.reachable():
        t = fn.blocks[bi]['term']
        if t['k'] != 'switch':
            continue
        src = switch_source(fn, bi)
        if src and src['kind'] == 'binop' and src['op'] in ('Eq', 'Ne', 'Lt', 'Le', 'Gt', 'Ge'):
            ta, tb = d.of_operand(src['a']), d.of_operand(src['b'])
            for tx, ty in ((ta, tb), (tb, ta)):
                for l in stepped:
                    if ('local', l) in tx and ('local', l) not in ty and any(tk[0] == 'param' and tk[1] >= 2 for tk in ty) \
                            and not any(tk[0] == 'callsite' for tk in ty):
                        bound_blocks.add(bi)
                        scanned.add(l)
    incs = set()
    for l in scanned:
        incs |= stepped[l]
    loops = fn.loops()
    in_loop = set()
    for body in loops.values():
        in_loop |= set(body)
    reads = {b for b, t in fn.calls() if (t.get('callee') or '').rsplit('::', 1)[-1] in ('read_u16_le', 'read_u8') and b in in_loop}
    ok = bool(incs) and bool(bound_blocks) and bool(reads)
    bad = None
    for ib in incs:
        if ib in bound_blocks:
            # increment and bound test in one block: fine when the comparison comes after the increment
            st_ = fn.blocks[ib]['stmts']
            i_inc = max(i for i, s in enumerate(st_) if s['k'] == 'assign' and not s['lhs']['p'] and s['lhs']['l'] in scanned)
            i_cmp = max((i for i, s in enumerate(st_) if s['k'] == 'assign' and s['rv']['k'] == 'binop' and
                         s['rv']['op'] in ('Eq', 'Ne', 'Lt', 'Le', 'Gt', 'Ge')), default=-1)
            if i_cmp > i_inc:
                continue
        hit = set(fn.reach_from(list(fn.succ(ib)), cut_blocks=bound_blocks | incs)) & reads
        if hit:
            ok = False
            bad = sorted(hit)[0]
    rep.oblige('W2c', fn.name, ok=ok, nontrivial=True,
               sample={'fn': fn.name, 'increments': len(incs), 'bound_tests': len(bound_blocks), 'table_reads_in_loop': len(reads)})
    if not (incs and bound_blocks and reads):
        rep.machinery('ANCHOR Fat12::find_free: increment / bound test / table read not found (%d / %d / %d)' % (
            len(incs), len(bound_blocks), len(reads)))
    elif not ok:
        t = fn.blocks[bad]['term']
        rep.violation('W2c', vkey('W2c', fn.name, 'read-at-bound', ''), fn.loc(t['span']),
                      'the FAT12 scan reads the next table entry after incrementing the cluster number without first comparing it '
                      'with the end of the scan range: on a table that its entries fill exactly, the read of the entry at the '
                      'bound fails (unexpected end of the table) instead of the scan ending with NotEnoughSpace, and the '
                      'allocator never wraps around')


_run_20 = run


def run(ctx, rep):
    _run_20(ctx, rep)
    run_fat12_scan_bound(ctx, rep)


# ---------------------------------------------------------------------------------------------
# W4b  units at call boundaries: a parameter that is an (exclusive) end *cluster number* is not handed a plain cluster *count*.
#      Valid numbers are 2 ..= count + 1, so the end is count + 2; the crate's convention is visible in the names -
#      `end_cluster` is a number, `total_clusters` a count.

def run_param_units(ctx, rep):
    import re
    facts = ctx.facts
    num_rx = re.compile(r'(^|_)(end|max|last)_cluster$')
    n = 0
    for fn in facts.fns.values():
        if fn.crate != 'fatfs':
            continue
        d = None
        for b, t in fn.calls():
            cf = facts.fns.get(t.get('callee') or '')
            if cf is None or cf.crate not in ('fatfs', 'fatfs-inlined'):
                continue
            for i, a in enumerate(t['args']):
                if i + 1 > cf.argc:
                    break
                pname = cf.locals[i + 1].get('name') or ''
                if not num_rx.search(pname):
                    continue
                if d is None:
                    d = Deps(fn)
                # narrow dependence: not through self / parameters
                toks, seen_l, work = set(), set(), []
                p0 = op_place(a)
                if p0 is None:
                    continue
                toks |= d._tokens_of_place(p0)
                work.append(p0['l'])
                while work:
                    x = work.pop()
                    if x in seen_l or 1 <= x <= fn.argc:
                        # a parameter of the caller with a *count* name counts as a count
                        if 1 <= x <= fn.argc and re.search(r'total_clusters$|cluster_count$', fn.locals[x].get('name') or ''):
                            toks.add(('field', 'total_clusters'))
                        continue
                    seen_l.add(x)
                    for tk in d.direct.get(x, ()):
                        toks.add(tk)
                        if tk[0] == 'local':
                            work.append(tk[1])
                is_count = ('field', 'total_clusters') in toks or any(tk[0] == 'call' and tk[1].endswith('::total_clusters') for tk in toks)
                if not is_count:
                    continue
                n += 1
                biased = (('const', 2) in toks or ('constpath', 'fatfs::table::RESERVED_FAT_ENTRIES') in toks) and \
                    (('op', 'Add') in toks)
                rep.oblige('W4b', '%s|bb%d|%s' % (fn.name, b, pname), ok=biased, nontrivial=True,
                           sample={'fn': fn.name, 'at': fn.loc(t['span']), 'param': '%s of %s' % (pname, cf.name.rsplit('::', 1)[-1])})
                if not biased:
                    rep.violation('W4b', vkey('W4b', fn.name, pname, cf.name.rsplit('::', 1)[-1]), fn.loc(t['span']),
                                  '%s passes a cluster *count* (total_clusters) where %s expects the exclusive end *cluster number* '
                                  '`%s` (`%s`): numbers start at 2, so the last two clusters of the volume are treated as out of range' %
                                  (fn.name, cf.name.rsplit('::', 1)[-1], pname, t['span']['snip'][:70]))
    rep.counts['W4b.sites'] = n
    rep.oblige('W4b.scan', 'fatfs', ok=True)


_run_20b = run


def run(ctx, rep):
    _run_20b(ctx, rep)
    run_param_units(ctx, rep)
