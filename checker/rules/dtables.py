"""Decision tables (A9) of the value classifiers in fatfs, each computed from the MIR of the current tree.

fat_get_table        Fat12/16/32::get      raw entry value -> {Free, Data, Bad, EndOfChain}
from_clusters_table  FatType::from_clusters cluster count  -> {Fat12, Fat16, Fat32}
name_char_table      validate_long_name    char           -> {accept, reject}
lfn_index_table      LongNameBuilder::process  index      -> {reject, accept, ...}
short_char_table     copy_short_name_part  char           -> {skip, copy-upper, underscore, full}
"""
from analyses import last_def_in_block, switch_source
from decision import decision_table, type_range
from model import op_const, op_place, place_key

FATVALUE = 'fatfs::table::FatValue'
MASK28 = 0x0FFFFFFF


class AnchorMissing(Exception):
    pass


def first_switch_after(fn, start):
    """first block with a SwitchInt reachable from `start` along single-successor chains"""
    b = start
    seen = set()
    while b not in seen:
        seen.add(b)
        t = fn.blocks[b]['term']
        if t['k'] == 'switch':
            return b
        ss = fn.succ(b)
        if len(ss) != 1:
            return None
        b = ss[0]
    return None


def continue_arm_of_try(fn, call_blk):
    """the Continue/Ok arm block of `call()?`"""
    from analyses import label_results
    lab = label_results(fn).get(call_blk)
    if not lab or lab['status'] != 'labelled' or not lab['ok']:
        return None
    return sorted(lab['ok'])[0][1]


def agg_variant_in_block(fn, blk, adt, only_return_place=False):
    for s in fn.blocks[blk]['stmts']:
        if s['k'] == 'assign' and s['rv']['k'] == 'agg' and s['rv'].get('adt') == adt:
            if only_return_place and place_key(s['lhs']) != (0, ()):
                continue
            return s['rv']['variant']
    return None


def fat_get_table(facts, width):
    name = '<fatfs::table::Fat<%s> as fatfs::table::FatTrait>::get' % {12: 'u8', 16: 'u16', 32: 'u32'}[width]
    fn = facts.fns.get(name)
    if fn is None:
        raise AnchorMissing(name)
    raw = [b for b, t in fn.calls() if (t.get('callee') or '').endswith('::get_raw')]
    if len(raw) != 1:
        raise AnchorMissing(name + ': get_raw call')
    cont = continue_arm_of_try(fn, raw[0])
    if cont is None:
        raise AnchorMissing(name + ': `?` on get_raw')
    sw = first_switch_after(fn, cont)
    if sw is None:
        raise AnchorMissing(name + ': match on the entry value')
    p = op_place(fn.blocks[sw]['term']['discr'])
    if p is None or p['p']:
        raise AnchorMissing(name + ': scrutinee')
    var = place_key(p)
    # how the scrutinee is produced
    masked = None
    b = sw
    d = None
    chain = [sw] + [x for x in fn.pred(sw)]
    cur = sw
    for _ in range(60):
        d = last_def_in_block(fn, cur, p['l'])
        if d is not None:
            break
        ps = fn.pred(cur)
        if len(ps) != 1:
            break
        cur = ps[0]
    if d is not None and d['rv']['k'] == 'binop' and d['rv']['op'] == 'BitAnd':
        c = op_const(d['rv']['b']) or op_const(d['rv']['a'])
        masked = c.get('val') if c else None

    def classify(w, blk, env, refs, phase):
        if phase == 'block':
            v = agg_variant_in_block(fn, blk, FATVALUE)
            if v:
                return v
        return None

    dom = (0, masked) if masked is not None else None
    rows, consts = decision_table(fn, var, fn.local_ty(p['l']), sw, classify, skip_first=True, domain=dom)
    return fn, rows, consts, masked, sw


def from_clusters_table(facts):
    name = 'fatfs::fs::FatType::from_clusters'
    fn = facts.fns.get(name)
    if fn is None:
        raise AnchorMissing(name)

    def classify(w, blk, env, refs, phase):
        if phase == 'block':
            return agg_variant_in_block(fn, blk, 'fatfs::fs::FatType', only_return_place=True)
        return None

    rows, consts = decision_table(fn, (1, ()), fn.local_ty(1), 0, classify, facts=facts,
                                  extra_consts=(4084, 4085, 65524, 65525))
    return fn, rows, consts


def _some_payload_local(fn, next_call_blk):
    """local bound to the Some payload of an Iterator::next() result, and the block where it is bound"""
    t = fn.blocks[next_call_blk]['term']
    dest = place_key(t['dest'])
    for bi in sorted(fn.reachable()):
        for s in fn.blocks[bi]['stmts']:
            if s['k'] == 'assign' and s['rv']['k'] == 'use' and not s['lhs']['p']:
                p = op_place(s['rv']['a'])
                if p is not None:
                    pk = place_key(p)
                    if pk[0] == dest[0] and len(pk[1]) == 2 and pk[1][0][0] == 'dc' and pk[1][0][1] == 'Some':
                        return place_key(s['lhs']), bi
    return None, None


def name_char_table(facts):
    name = 'fatfs::dir::validate_long_name'
    fn = facts.fns.get(name)
    if fn is None:
        raise AnchorMissing(name)
    nx = [b for b, t in fn.calls() if (t.get('callee') or '').endswith('Iterator::next')]
    if len(nx) != 1:
        alt = _name_char_table_by_predicate(facts, fn)
        if alt is not None:
            return alt
        raise AnchorMissing(name + ': chars().next()')
    var, blk = _some_payload_local(fn, nx[0])
    if var is None:
        raise AnchorMissing(name + ': loop variable')

    def classify(w, blk2, env, refs, phase):
        if phase == 'block':
            v = agg_variant_in_block(fn, blk2, 'fatfs::error::Error')
            if v:
                return 'reject:' + v
        return None

    rows, consts = decision_table(fn, var, fn.local_ty(var[0]), blk, classify, pin=True)
    return fn, rows, consts


def _name_char_table_by_predicate(facts, fn):
    """the character test written as `name.chars().all(pred)` (or `!..any(pred)`): the table of the predicate function
    over all code points, mapped to what the caller does with the adaptor's verdict (the arm on which the
    unsupported-character error is built)"""
    from analyses import switch_source, nonzero_targets, zero_targets
    for b, t in fn.calls():
        callee = t.get('callee') or ''
        if callee not in ('core::iter::traits::iterator::Iterator::all', 'core::iter::traits::iterator::Iterator::any'):
            continue
        if len(t['args']) < 2:
            continue
        rp = op_place(t['args'][0])
        rty = fn.local_ty(rp['l']) if rp is not None else None
        for _ in range(2):
            if rty is not None and rty.get('k') in ('ref', 'ptr'):
                rty = fn.types[rty['to']]
        if not rty or not rty.get('path', '').endswith('::Chars'):
            continue
        # the predicate: a function item (constant operand) or a closure built in this function
        pred = None
        pparam = 1
        c = op_const(t['args'][1])
        if c is not None and c.get('fn'):
            pred = facts.fns.get(c['fn'])
        else:
            cp = op_place(t['args'][1])
            pty = fn.local_ty(cp['l']) if cp is not None else None
            if pty is not None and pty.get('k') == 'fndef':
                pred = facts.fns.get(pty.get('def') or pty.get('path') or '')
            for bi in fn.reachable():
                for s in fn.blocks[bi]['stmts']:
                    if cp is not None and s['k'] == 'assign' and s['lhs']['l'] == cp['l'] and s['rv']['k'] == 'agg' and \
                            s['rv'].get('ak') == 'closure':
                        pred = facts.fns.get(s['rv']['def'])
                        pparam = 2
        if pred is None or pred.argc < pparam or (pred.local_ty(pparam) or {}).get('k') != 'char':
            continue
        # which verdict of the adaptor leads to the unsupported-character error?
        rej_on = None
        for bi in fn.reachable():
            tt = fn.blocks[bi]['term']
            if tt['k'] != 'switch':
                continue
            src = switch_source(fn, bi)
            if src and src['kind'] == 'call' and src.get('blk') == b:
                for val, arms in ((1, nonzero_targets(tt)), (0, zero_targets(tt))):
                    reach = fn.reach_from(list(arms), cut_blocks=[bi])
                    if any(agg_variant_in_block(fn, x, 'fatfs::error::Error') == 'UnsupportedFileNameCharacter' for x in reach):
                        other = fn.reach_from([a for a in fn.succ(bi) if a not in arms], cut_blocks=[bi])
                        if not any(agg_variant_in_block(fn, x, 'fatfs::error::Error') == 'UnsupportedFileNameCharacter'
                                   for x in other):
                            rej_on = val
        if rej_on is None:
            continue
        is_all = callee.endswith('::all')
        # all(): verdict false <=> some char has pred false;  any(): verdict true <=> some char has pred true
        bad_pred_value = 0 if is_all else 1
        if (is_all and rej_on != 0) or (not is_all and rej_on != 1):
            continue  # the error is built when every character passes: not a character filter

        def classify(w, blk2, env, refs, phase):
            if phase == 'exit':
                v = env.get((0, ()))
                if v is None:
                    return 'unknown'
                return 'reject:UnsupportedFileNameCharacter' if v == bad_pred_value else 'LOOP'
            return None

        rows, consts = decision_table(pred, (pparam, ()), pred.local_ty(pparam), 0, classify, pin=True, facts=facts)
        return fn, rows, consts
    return None


def name_len_table(facts):
    name = 'fatfs::dir::validate_long_name'
    fn = facts.fns.get(name)
    ln = [b for b, t in fn.calls() if t.get('callee') == 'str::len']
    if len(ln) != 1:
        raise AnchorMissing(name + ': name.len()')
    t = fn.blocks[ln[0]]['term']
    var = place_key(t['dest'])

    def classify(w, blk2, env, refs, phase):
        if phase == 'block':
            v = agg_variant_in_block(fn, blk2, 'fatfs::error::Error')
            if v:
                return 'reject:' + v
            # reaching the character loop = length accepted
            tt = fn.blocks[blk2]['term']
        if phase == 'call':
            tt = fn.blocks[blk2]['term']
            if (tt.get('callee') or '') == 'str::chars':
                return 'accept'
        return None

    rows, consts = decision_table(fn, var, fn.local_ty(var[0]), t['ret'], classify, pin=True)
    return fn, rows, consts


def lfn_index_table(facts):
    name = 'fatfs::dir::LongNameBuilder::process'
    fn = facts.fns.get(name)
    if fn is None:
        raise AnchorMissing(name)
    # index = order & 0x1F
    var = None
    blk = None
    for bi in sorted(fn.reachable()):
        for s in fn.blocks[bi]['stmts']:
            if s['k'] == 'assign' and s['rv']['k'] == 'binop' and s['rv']['op'] == 'BitAnd' and not s['lhs']['p']:
                c = op_const(s['rv']['b'])
                if c and c.get('val') == 0x1F:
                    var, blk = place_key(s['lhs']), bi
    if var is None:
        raise AnchorMissing(name + ': index = order & 0x1F')

    def classify(w, blk2, env, refs, phase):
        tt = fn.blocks[blk2]['term']
        if phase == 'call':
            c = tt.get('callee') or ''
            if c.endswith('LongNameBuilder::clear'):
                return 'reject'
            if c.endswith('copy_name_to_slice'):
                return 'accept'
        return None

    rows, consts = decision_table(fn, var, fn.local_ty(var[0]), blk, classify, pin=True, domain=(0, 0x1F))
    return fn, rows, consts


def short_char_table(facts):
    name = 'fatfs::dir::ShortNameGenerator::copy_short_name_part'
    fn = facts.fns.get(name)
    if fn is None:
        raise AnchorMissing(name)
    nx = [b for b, t in fn.calls() if (t.get('callee') or '').endswith('Iterator::next')]
    if len(nx) != 1:
        raise AnchorMissing(name + ': chars().next()')
    var, blk = _some_payload_local(fn, nx[0])
    if var is None:
        raise AnchorMissing(name + ': loop variable')

    def classify(w, blk2, env, refs, phase):
        if phase == 'block':
            for s in fn.blocks[blk2]['stmts']:
                if s['k'] == 'assign' and any('idx' in e for e in s['lhs']['p']):
                    v = w.val_of_place(env, refs, place_key(s['lhs']))
                    c = env.get(var)
                    if v is None or c is None:
                        return 'store:unknown'
                    up = c - 32 if 0x61 <= c <= 0x7A else c
                    if v == (up & 0xFF) and up < 0x80:
                        return 'copy-upper'
                    if v == 0x5F:
                        return 'underscore'
                    return 'store:other'
        if phase == 'exit':
            return 'full'
        return None

    rows, consts = decision_table(fn, var, fn.local_ty(var[0]), blk, classify, pin=True,
                                  extra_consts=(0x41, 0x5A, 0x61, 0x7A, 0x7F))
    return fn, rows, consts
