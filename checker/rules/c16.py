"""C16 - generated 8.3 aliases are legal, unique and tied to their long name (DESIGN.md section 4, S1-S3).

S1  the character mapping into the 8.3 field is legal for every char (decision table over all code points)
S2  the checksum stored in the long-name slots is the checksum of the short name that is serialised next
S3  collision bookkeeping: the directory is rescanned (with the generator) in every retry iteration, every
    non-matching entry is recorded, and the plain form is used only when lossless, fitting and not taken
"""
from analyses import Deps, switch_source
from core import vkey
from decision import Walker, diff_tables, fmt_rows
from model import op_const, op_place, operands_of_rvalue, place_key
from rules import dtables
from rules.dtables import AnchorMissing

SHORT_LEGAL = "!#$%&'()-@^_`{}~"


def spec_short_table():
    rows = []

    def cls(c):
        ch = chr(c)
        if ch in (' ', '.'):
            return 'skip'
        if ch.isascii() and (ch.isalnum() or ch in SHORT_LEGAL):
            return 'copy-upper'
        return 'underscore'
    for c in range(0, 0x80):
        o = frozenset([cls(c)])
        if rows and rows[-1][2] == o:
            rows[-1] = (rows[-1][0], c, o)
        else:
            rows.append((c, c, o))
    rows.append((0x80, 0xD7FF, frozenset(['underscore'])))
    rows.append((0xE000, 0x10FFFF, frozenset(['underscore'])))
    return rows


def run(ctx, rep):
    facts = ctx.facts
    # ---------------- S1
    try:
        fn, rows, consts = dtables.short_char_table(facts)
        got = []
        for a, b, o in rows:
            o2 = set()
            for x in o:
                if x in ('MAYPANIC', 'full'):
                    continue  # bounds check on the unknown write position / destination already full
                o2.add('skip' if x == 'LOOP' else x)
            got.append((a, b, frozenset(o2)))
        df = diff_tables(got, spec_short_table())
        rep.oblige('S1', fn.name, ok=not df, nontrivial=True,
                   sample={'fn': fn.name, 'domain': 'all 0x110000 code points', 'table': fmt_rows(rows, True)[:10]})
        if df:
            rep.violation('S1', vkey('S1', fn.name, 'short-charset', ''), fn.loc(fn.span),
                          'the mapping of name characters into the 8.3 field differs from the short-name rules (legal '
                          'characters upper-cased, space and dot dropped, everything else `_`)',
                          ['U+%04X..U+%04X: code gives %s, rules say %s' % (a, b, sorted(g) if g else g,
                                                                         sorted(w) if w else w) for a, b, g, w in df[:6]])
    except AnchorMissing as e:
        rep.machinery('ANCHOR-MISSING %s' % e)

    # ---------------- S2
    WE = facts.fns.get('fatfs::dir::Dir::write_entry')
    AL = facts.fns.get('fatfs::dir::Dir::alloc_and_write_lfn_entries')
    if WE is None or AL is None:
        rep.machinery('ANCHOR-MISSING write_entry / alloc_and_write_lfn_entries')
    else:
        d = Deps(WE)
        calls = [(b, t) for b, t in WE.calls() if t.get('callee') == AL.name]
        ser = [(b, t) for b, t in WE.calls() if (t.get('callee') or '').endswith('DirFileEntryData::serialize')]
        ok = bool(calls) and bool(ser)
        for b, t in calls:
            toks = d.of_operand(t['args'][2])
            names = [(b2, t2) for b2, t2 in WE.calls() if (t2.get('callee') or '').endswith('DirFileEntryData::name')]
            if not any(('callsite', b2) in toks for b2, _ in names):
                ok = False
            # the entry whose name is summed is the one serialised afterwards
            for b2, t2 in names:
                src = d.of_operand(t2['args'][0])
                for b3, t3 in ser:
                    dst = d.of_operand(t3['args'][0])
                    common = {tk for tk in src & dst if tk[0] in ('param', 'local')}
                    if not common:
                        ok = False
        rep.oblige('S2.same-entry', WE.name, ok=ok, nontrivial=True)
        if not ok:
            rep.violation('S2', vkey('S2', WE.name, 'checksum-source', ''), WE.loc(WE.span),
                          'the long-name slots are not checksummed over the short name of the entry that is written '
                          'after them')
        d2 = Deps(AL)
        sums = [b for b, t in AL.calls() if (t.get('callee') or '').endswith('lfn_checksum')]
        gens = [(b, t) for b, t in AL.calls() if (t.get('callee') or '').endswith('LfnEntriesGenerator::new')]
        ok = bool(sums) and bool(gens) and all(any(('callsite', s) in d2.of_operand(t['args'][1]) for s in sums)
                                               for b, t in gens)
        # lfn_checksum is applied to the short-name parameter
        name_params = [i for i in range(1, AL.argc + 1) if '[u8;' in AL.local_ty(i)['s']]
        ok = ok and bool(name_params) and all(
            any(('param', i) in d2.of_operand(AL.blocks[s]['term']['args'][0]) for i in name_params) for s in sums)
        rep.oblige('S2.checksum', AL.name, ok=ok, nontrivial=True)
        if not ok:
            rep.violation('S2', vkey('S2', AL.name, 'checksum-flow', ''), AL.loc(AL.span),
                          'the checksum handed to the long-name slot generator is not lfn_checksum(short name)')
        NX = facts.fns.get('<fatfs::dir::LfnEntriesGenerator as core::iter::traits::iterator::Iterator>::next')
        if NX is not None and ctx.config != 'nostd':
            d3 = Deps(NX)
            news = [(b, t) for b, t in NX.calls() if (t.get('callee') or '').endswith('DirLfnEntryData::new')]
            ok = bool(news) and all(('field', 'checksum') in d3.of_operand(t['args'][1]) for b, t in news)
            rep.oblige('S2.slots', NX.name, ok=ok, nontrivial=True)
            if not ok:
                rep.violation('S2', vkey('S2', NX.name, 'slot-checksum', ''), NX.loc(NX.span),
                              'generated long-name slots do not carry the generator\'s checksum')
        elif ctx.config != 'nostd':
            rep.machinery('ANCHOR-MISSING LfnEntriesGenerator::next')

    # ---------------- S3
    CE = facts.fns.get('fatfs::dir::Dir::check_for_existence')
    FE = facts.fns.get('fatfs::dir::Dir::find_entry')
    if CE is None or FE is None:
        rep.machinery('ANCHOR-MISSING check_for_existence / find_entry')
    else:
        finds = [b for b, t in CE.calls() if t.get('callee') == FE.name]
        gens = [b for b, t in CE.calls() if (t.get('callee') or '').endswith('ShortNameGenerator::generate')]
        nexts = [b for b, t in CE.calls() if (t.get('callee') or '').endswith('ShortNameGenerator::next_iteration')]
        ok = bool(finds) and bool(gens) and bool(nexts)
        # after next_iteration (which resets the collision bitmaps) generate() may only be reached through a rescan
        for n in nexts:
            reach = CE.reach_from(CE.succ(n), cut_blocks=finds)
            if any(g in reach for g in gens):
                ok = False
        # the rescan passes the generator
        d = Deps(CE)
        for b in finds:
            t = CE.blocks[b]['term']
            toks = d.of_operand(t['args'][3])
            if not any(tk[0] == 'ctor' and tk[1].endswith('Option::Some') for tk in toks):
                ok = False
        rep.oblige('S3.rescan', CE.name, ok=ok, nontrivial=True)
        if not ok:
            rep.violation('S3', vkey('S3', CE.name, 'rescan', ''), CE.loc(CE.span),
                          'after the collision bitmaps are reset (next_iteration) a new alias can be generated without '
                          'rescanning the directory with the generator: aliases are no longer unique once 13 entries '
                          'share prefix and hash')
        adds = [b for b, t in FE.calls() if (t.get('callee') or '').endswith('ShortNameGenerator::add_existing')]
        ok = bool(adds)
        loops = FE.loops()
        if ok:
            ok = any(a in body for a in adds for body in loops.values())
            dd = Deps(FE)
            for a in adds:
                toks = dd.of_operand(FE.blocks[a]['term']['args'][1])
                if not any(tk[0] == 'call' and tk[1].endswith('raw_short_name') for tk in toks):
                    ok = False
        rep.oblige('S3.record', FE.name, ok=ok, nontrivial=True)
        if not ok:
            rep.violation('S3', vkey('S3', FE.name, 'add_existing', ''), FE.loc(FE.span),
                          'existing short names are not recorded in the generator while the directory is scanned')
        # S3.every: while a generator is given, *every* entry the scan passes over is recorded - from the `Some(generator)`
        # arm the loop cannot go on to the next entry (or return) without add_existing (an entry that is about to be
        # renamed away, a name "given up by the caller", .. still occupies its short name until its slots are rewritten)
        from analyses import switch_source
        some_arms = []
        for bi in FE.reachable():
            tt = FE.blocks[bi]['term']
            if tt['k'] != 'switch':
                continue
            src = switch_source(FE, bi)
            if not src or src['kind'] != 'discr':
                continue
            from analyses import place_prefix_type
            ty = place_prefix_type(FE, src['place'], len(src['place']['p']))  # (a parameter, or a closure capture of it)
            if ty and ty.get('path') == 'core::option::Option' and 'ShortNameGenerator' in (ty.get('s') or ''):
                some_arms += [x for v, x in tt['targets'] if v == 1]
        if adds and some_arms:
            headers = {h for h, body in loops.items() if any(a in body for a in adds)}
            reach = set(FE.reach_from(some_arms, cut_blocks=set(adds)))
            ok_e = not (reach & headers) and not (reach & set(FE.return_blocks()))
            rep.oblige('S3.every', FE.name, ok=ok_e, nontrivial=True)
            if not ok_e:
                rep.violation('S3', vkey('S3', FE.name, 'every-entry', ''), FE.loc(FE.span),
                              'the directory scan can pass over an entry without recording its short name in the alias '
                              'generator (the record is conditional): the generated alias can collide with that entry')
        elif adds:
            rep.machinery('ANCHOR find_entry: no switch on the optional alias generator found')
    # S3.all: an entry that matches the plain form exactly is still recorded for the numbered forms (an existing `QUARTE~1`
    # is both the exact match of the name `quarte~1` and the first numbered candidate)
    AE = facts.fns.get('fatfs::dir::ShortNameGenerator::add_existing')
    if AE is None:
        rep.machinery('ANCHOR-MISSING ShortNameGenerator::add_existing')
    else:
        def bitmap_sites(fn, depth=0, seen=None):
            """blocks of fn that store to a collision bitmap, or call a fatfs function that (transitively) does"""
            seen = seen if seen is not None else set()
            out = set()
            for bi in fn.reachable():
                for s_ in fn.blocks[bi]['stmts']:
                    if s_['k'] == 'assign' and s_['lhs']['p'] and \
                            [e.get('n') for e in s_['lhs']['p'] if 'f' in e][-1:] and \
                            [e.get('n') for e in s_['lhs']['p'] if 'f' in e][-1].endswith('_bitmap'):
                        out.add(bi)
                t = fn.blocks[bi]['term']
                if t['k'] == 'call' and depth < 3:
                    c = facts.fns.get(t.get('callee') or '')
                    if c is not None and c.crate.startswith('fatfs') and c.name not in seen:
                        seen.add(c.name)
                        if bitmap_sites(c, depth + 1, seen):
                            out.add(bi)
            return out
        sites = bitmap_sites(AE)
        # the store of `exact_match = true`
        exact = [bi for bi in AE.reachable() for s_ in AE.blocks[bi]['stmts']
                 if s_['k'] == 'assign' and s_['lhs']['p'] and [e.get('n') for e in s_['lhs']['p'] if 'f' in e][-1:] == ['exact_match']]
        ok = bool(sites) and bool(exact) and all(set(AE.reach_from([b])) >= sites for b in exact)
        rep.oblige('S3.all', AE.name, ok=ok, nontrivial=True,
                   sample={'fn': AE.name, 'bitmap_update_sites': len(sites), 'exact_match_stores': len(exact)})
        if not sites or not exact:
            rep.machinery('ANCHOR add_existing: bitmap updates / exact_match store not found (%d / %d)' % (len(sites), len(exact)))
        elif not ok:
            rep.violation('S3', vkey('S3', AE.name, 'exact-and-numbered', ''), AE.loc(AE.span),
                          'an existing short name that equals the plain form is not recorded for the numbered forms as well '
                          '(the path that sets exact_match does not reach every collision-bitmap update): the same numbered alias '
                          'can be handed out twice')

    # S3.indep: the two numbered forms are tracked independently - whether an entry is examined for one form never depends
    # on what the examination for the other form found (a name can be of both forms at once: `AB40A3~1` is the long-prefix
    # form of "AB40A3-x" and, when that name's checksum is 0x40A3, its checksum form too). No collision-bitmap update
    # site of add_existing is control-dependent on a branch over the result of another update-site call (seed C16-Q: `if
    # self.check_for_long_prefix_collision(..) { return; }`)
    if AE is not None and sites:
        dae = Deps(AE)
        bad_sw = []
        for bi in AE.reachable():
            tt = AE.blocks[bi]['term']
            if tt['k'] != 'switch':
                continue
            src = switch_source(AE, bi)
            toks = set()
            if src and src['kind'] == 'binop':
                toks = dae.of_operand(src['a']) | dae.of_operand(src['b'])
            elif src and src['kind'] == 'call':
                toks = {('callsite', b_) for b_ in AE.reachable() if AE.blocks[b_]['term'] is src['term']}
                for a in src['term']['args']:
                    toks |= dae.of_operand(a)
            elif src and src.get('a') is not None:
                toks = dae.of_operand(src['a'])
            # (only results of update-site calls: the dependence tokens are field-insensitive on `self`, so a read of
            # `self.basename_len` would otherwise look like a read of the bitmap once the update is written inline)
            from_site = {tk[1] for tk in toks if tk[0] == 'callsite' and tk[1] in sites}
            if not from_site:
                continue
            succs = AE.succ(bi)
            reach = [set(AE.reach_from([x])) for x in succs]
            for st_ in sites:
                if st_ in from_site:
                    continue
                if any(st_ in r for r in reach) and not all(st_ in r for r in reach):
                    bad_sw.append((bi, st_))
        rep.oblige('S3.indep', AE.name, ok=not bad_sw, nontrivial=True,
                   sample={'fn': AE.name, 'bitmap_update_sites': len(sites)})
        if bad_sw:
            rep.violation('S3', vkey('S3', AE.name, 'forms-independent', ''), AE.loc(AE.span),
                          'whether an existing entry is examined for one numbered form depends on the outcome of the '
                          'examination for the other (branch bb%d decides over update site bb%d): a name that is of both '
                          'forms is recorded for one only and its alias can be handed out again' % bad_sw[0])
    # S3.chk: a checksum-form entry only blocks a numeric tail when its checksum digits equal the generator's current
    # checksum (otherwise changing the checksum in next_iteration could never free a tail and the retry loop would
    # not end): the bitmap update is control-dependent on a comparison with self.chksum
    PC = facts.fns.get('fatfs::dir::ShortNameGenerator::check_for_short_prefix_collision')
    if PC is None:
        rep.machinery('ANCHOR-MISSING check_for_short_prefix_collision')
    else:
        from analyses import switch_source, edge_dominates
        dd = Deps(PC)
        stores = [bi for bi in PC.reachable() for s_ in PC.blocks[bi]['stmts']
                  if s_['k'] == 'assign' and s_['lhs']['p'] and
                  [e.get('n') for e in s_['lhs']['p'] if 'f' in e][-1:] == ['prefix_chksum_bitmap']]
        ok = bool(stores)
        for sb in stores:
            guarded = False
            for bi in PC.reachable():
                tt = PC.blocks[bi]['term']
                if tt['k'] != 'switch':
                    continue
                src = switch_source(PC, bi)
                if not src:
                    continue
                toks = set()
                if src['kind'] == 'binop':
                    toks = dd.of_operand(src['a']) | dd.of_operand(src['b'])
                elif src['kind'] == 'call':
                    for a in src['term']['args']:
                        toks |= dd.of_operand(a)
                if ('field', 'chksum') in toks and any(edge_dominates(PC, {(bi, x)}, sb) for x in PC.succ(bi)):
                    guarded = True
            ok = ok and guarded
        rep.oblige('S3.chk', PC.name, ok=ok, nontrivial=True)
        if not ok:
            rep.violation('S3', vkey('S3', PC.name, 'checksum-compare', ''), PC.loc(PC.span),
                          'a checksum-form short name marks its numeric tail as taken without its checksum digits being '
                          'compared with the generator\'s checksum: once the tails of one checksum are taken no later '
                          'checksum can free them and alias generation cannot finish')
    # S3.step: the retry loop of check_for_existence ends because next_iteration moves the checksum through the value space by
    # a fixed map of the checksum itself (wrapping +1): the value stored into `chksum` derives from the old checksum and
    # constants only. A step that also depends on other generator state (a remembered maximum, a bitmap) is no fixed
    # permutation of the 16-bit space and can stop moving (seed C16-P: `max(next, highest seen)` rests at 0xFFFF)
    NI = facts.fns.get('fatfs::dir::ShortNameGenerator::next_iteration')
    if NI is None:
        rep.machinery('ANCHOR-MISSING ShortNameGenerator::next_iteration')
    else:
        dn = Deps(NI)
        st = [s_ for bi in NI.reachable() for s_ in NI.blocks[bi]['stmts']
              if s_['k'] == 'assign' and s_['lhs']['p'] and
              [e.get('n') for e in s_['lhs']['p'] if 'f' in e][-1:] == ['chksum']]
        ok = bool(st)
        foreign = set()
        for s_ in st:
            toks = set()
            for o in operands_of_rvalue(s_['rv']):
                toks |= dn.of_operand(o)
            if ('field', 'chksum') not in toks:
                ok = False
            foreign |= {t[1] for t in toks if t[0] == 'field' and t[1] not in ('chksum', '0')}
            foreign |= {'param %d' % t[1] for t in toks if t[0] == 'param' and t[1] != 1}
        ok = ok and not foreign
        rep.oblige('S3.step', NI.name, ok=ok, nontrivial=True)
        if not ok:
            rep.violation('S3', vkey('S3', NI.name, 'checksum-step', ''), NI.loc(NI.span),
                          'the next checksum tried is not a function of the current checksum alone (%s): the search over '
                          'checksum values is no fixed walk of the 16-bit space and can stop moving before a free alias '
                          'is found' % (', '.join(sorted(foreign)) or 'the old checksum does not flow into the new one'))
    G = facts.fns.get('fatfs::dir::ShortNameGenerator::generate')
    if G is None:
        rep.machinery('ANCHOR-MISSING ShortNameGenerator::generate')
    else:
        def fkey(name):
            idx = None
            adt = G.adts.get('fatfs::dir::ShortNameGenerator')
            for i, f in enumerate(adt['variants'][0]['fields']):
                if f['name'] == name:
                    idx = i
            return (1, (('deref', ), ('f', idx, name)))

        def classify(w, blk, env, refs, phase):
            if phase == 'call' and (G.blocks[blk]['term'].get('callee') or '').endswith('build_prefixed_name'):
                return 'numbered'
            if phase == 'exit':
                return 'plain-or-fail'
            return None

        bad = []
        n = 0
        for lossy in (0, 1):
            for fits in (0, 1):
                for exact in (0, 1):
                    n += 1
                    w = Walker(G, classify, facts=facts)
                    env = {fkey('lossy_conv'): lossy, fkey('name_fits'): fits, fkey('exact_match'): exact}
                    out = w.walk(0, env, pin=tuple(env.keys()))
                    plain = 'plain-or-fail' in out and 'numbered' not in out
                    want_plain = (lossy, fits, exact) == (0, 1, 0)
                    if want_plain != plain and not (not want_plain and 'numbered' in out):
                        bad.append(((lossy, fits, exact), sorted(out)))
        rep.oblige('S3.plain', G.name, ok=not bad, nontrivial=True,
                   sample={'fn': G.name, 'cases': n, 'rule': 'plain 8.3 form only when !lossy && fits && !exact_match'})
        if bad:
            rep.violation('S3', vkey('S3', G.name, 'plain-form', ''), G.loc(G.span),
                          'the un-numbered 8.3 form is chosen in a case other than lossless && fits && not already taken',
                          ['(lossy, fits, exact_match)=%s -> %s' % x for x in bad[:4]])
