"""Round trips of the bit-packing code, decided by bit-provenance abstract interpretation (checker/bitprov.py, A12).

X8    FAT12: for both parities of the cluster number, reading back what set_raw wrote yields the value written
      (12 bits), and the four bits of the 16-bit word that belong to the neighbouring entry are the old ones
K6    the first-cluster number survives being split into the two 16-bit halves of a directory entry and re-assembled
      (FAT32: all 32 bits; FAT12/16: the low 16, the high half is neither stored nor read)
R18.8 DOS date / time words: every field the decoder cuts out of the word is, bit for bit, the field the encoder put
      there (year offset, month, day, hour, minute, two-second count), under the ranges the constructors establish
"""
from bitprov import Paths, input_bits, substitute, const_bits
from core import vkey

F12 = '<fatfs::table::Fat<u8> as fatfs::table::FatTrait>::'
ENTRY = 'fatfs::dir_entry::DirFileEntryData::'


def _fmt(bv):
    if bv is None:
        return 'unknown'
    out = []
    for b in bv:
        out.append('0' if b == 0 else '1' if b == 1 else '?' if b is None else '%s[%d]' % (b[1], b[2]))
    return ' '.join(out)


def _by_assumption(paths, key_pred):
    """{assumed bit value: path} for the single assumption whose source satisfies key_pred"""
    out = {}
    for p in paths:
        ks = [(k, v) for k, v in p['assume'].items() if key_pred(k)]
        if len(ks) == 1:
            out.setdefault(ks[0][1], []).append(p)
    return out


def run_fat12(ctx, rep):
    facts = ctx.facts
    G, S = facts.fns.get(F12 + 'get_raw'), facts.fns.get(F12 + 'set_raw')
    if G is None or S is None:
        rep.machinery('ANCHOR-MISSING Fat12::get_raw / set_raw')
        return
    # premise: a FAT12 value has 12 bits (set() only produces 0, 0xFF7, 0xFFF and cluster numbers of a FAT12 volume)
    vname = next((S.locals[i].get('name') for i in range(1, S.argc + 1) if 'val' in (S.locals[i].get('name') or '')), 'raw_val')
    gp = Paths(G)
    sp = Paths(S, param_widths={vname: 12})
    is_parity = lambda k: isinstance(k, tuple) and k[0] == 'in' and k[1] == 'cluster' and k[2] == 0
    g_by, s_by = _by_assumption(gp.paths, is_parity), _by_assumption(sp.paths, is_parity)
    problems = []
    detail = {}
    for par in (0, 1):
        gs, ss = g_by.get(par, []), s_by.get(par, [])
        if len(gs) != 1 or len(ss) != 1 or len(ss[0]['writes']) != 1 or ss[0]['writes'][0] is None or gs[0]['ret'] is None or \
                not isinstance(gs[0]['ret'], tuple):
            problems.append('parity %d: the code is not a single read-modify-write / read path per parity (%d get paths, %d set '
                            'paths): not decided' % (par, len(gs), len(ss)))
            continue
        word = ss[0]['writes'][0]
        rname = gs[0]['reads'][0] if gs[0]['reads'] else 'read#0'
        back = substitute(gs[0]['ret'], {rname: word})
        want = input_bits(vname, len(back), 12)
        detail['parity %d' % par] = {'word written': _fmt(word), 'read back': _fmt(back[:12])}
        if tuple(back) != tuple(want):
            problems.append('parity %d: reading the entry back gives [%s], not the 12 bits of the value written' % (par, _fmt(back[:16])))
        own = range(0, 12) if par == 0 else range(4, 16)
        old = ss[0]['reads'][0] if ss[0]['reads'] else 'read#0'
        for j in range(16):
            if j in own:
                continue
            if word[j] != ('in', old, j):
                problems.append('parity %d: bit %d of the rewritten word belongs to the neighbouring entry but is %s instead of the '
                                'old bit' % (par, j, _fmt((word[j], ))))
                break
    rep.oblige('X8', F12 + 'set_raw', ok=not problems, nontrivial=True,
               sample={'rule': 'get_raw(set_raw(v)) == v and the neighbour nibble is preserved, for both parities, all 2^12 values and '
                               'all 2^16 old words', 'premise': '%s < 4096' % vname, **detail})
    for pr in problems:
        if 'not decided' in pr:
            rep.notes.append('X8: ' + pr)
        else:
            rep.violation('X8', vkey('X8', F12 + 'set_raw', pr.split(':')[0], ''), S.loc(S.span), 'FAT12 entry packing: ' + pr)


def run_first_cluster(ctx, rep):
    facts = ctx.facts
    G, S = facts.fns.get(ENTRY + 'first_cluster'), facts.fns.get(ENTRY + 'set_first_cluster')
    if G is None or S is None:
        rep.machinery('ANCHOR-MISSING DirFileEntryData::first_cluster / set_first_cluster')
        return
    gp, sp = Paths(G), Paths(S)
    is_ft = lambda k: isinstance(k, tuple) and k[0] == 'in' and k[1].startswith('call:') and ('eq' in k[1] or 'ne' in k[1])
    g_by, s_by = _by_assumption([p for p in gp.paths if isinstance(p['ret'], tuple)], is_ft), _by_assumption(sp.paths, is_ft)
    problems = []
    detail = {}
    decided = 0
    for arm in (0, 1):
        gs, ss = g_by.get(arm, []), s_by.get(arm, [])
        if not gs or not ss:
            continue
        for s_ in ss:
            stored = s_['fields'].get('store', {})
            mapping = {'field:' + k: v for k, v in stored.items()}
            # the number handed to the setter: the 32-bit source that the stored halves are cut from
            srcs = {b[1] for v in stored.values() if v for b in v if isinstance(b, tuple)}
            if len(srcs) != 1:
                continue
            src = next(iter(srcs))
            for g_ in gs:
                fields_read = {b[1] for b in g_['ret'] if isinstance(b, tuple)}
                if not fields_read <= set(mapping):
                    # the getter reads a half the setter did not store on this arm
                    if arm == 1 or len(fields_read) > 1:
                        problems.append('the getter reads %s but the setter stores only %s for the same FAT type' % (
                            sorted(fields_read), sorted(mapping)))
                    continue
                back = substitute(g_['ret'], mapping)
                nbits = 16 * len(fields_read)
                want = input_bits(src, len(back), nbits)
                decided += 1
                detail['%d halves' % len(fields_read)] = _fmt(back)
                if tuple(back) != tuple(want):
                    problems.append('re-assembling the stored halves gives [%s], not the low %d bits of the number that was set' % (
                        _fmt(back), nbits))
    # K6b: "no cluster" is decided on the whole assembled number, not on one half of it
    from analyses import Deps, switch_source
    dg = Deps(G)
    none_blocks = [bi for bi in G.reachable() for s_ in G.blocks[bi]['stmts']
                   if s_['k'] == 'assign' and s_['rv']['k'] == 'agg' and s_['rv'].get('variant') == 'None' and s_['lhs']['l'] == 0]
    halves = {f for p_ in gp.paths if isinstance(p_['ret'], tuple) for b in p_['ret'] if isinstance(b, tuple) for f in [b[1]]
              if f.startswith('field:')}
    for bi in G.reachable():
        t = G.blocks[bi]['term']
        if t['k'] != 'switch' or not none_blocks:
            continue
        arms = sorted(set(G.succ(bi)))
        reach = [set(G.reach_from([a], cut_blocks=[bi])) for a in arms]
        hits = [bool(r & set(none_blocks)) for r in reach]
        if any(hits) and not all(hits):
            fields = {'field:' + tk[1] for tk in dg.of_operand(t['discr']) if tk[0] == 'field'}
            src = switch_source(G, bi)
            if src and src.get('kind') == 'binop':
                fields |= {'field:' + tk[1] for o_ in (src['a'], src['b']) for tk in dg.of_operand(o_) if tk[0] == 'field'}
            if halves and not halves <= fields and fields & halves:
                problems.append('the getter answers "no cluster" after looking at %s only, although the number is assembled from '
                                '%s: a first cluster whose tested half is 0 (0x10000, 0x20000, ...) reads back as none' % (
                                    sorted(fields & halves), sorted(halves)))
    rep.oblige('K6', ENTRY + 'set_first_cluster', ok=not problems and decided >= 1, nontrivial=True,
               sample={'rule': 'first_cluster(set_first_cluster(n)) == n bit for bit (both halves on FAT32, the low half otherwise)',
                       'pairs decided': decided, **detail})
    if decided == 0 and not problems:
        rep.notes.append('K6: getter / setter paths could not be paired by their FAT-type test: not decided')
    for pr in sorted(set(problems)):
        rep.violation('K6', vkey('K6', ENTRY + 'set_first_cluster', pr[:30], ''), S.loc(S.span), 'first-cluster halves: ' + pr)


DT = {'fatfs::time::Date': ('fatfs::time::Date::encode', 'fatfs::time::Date::decode', 'fatfs::time::Date::new'),
      'fatfs::time::Time': ('fatfs::time::Time::encode', 'fatfs::time::Time::decode', 'fatfs::time::Time::new')}


def run_datetime(ctx, rep):
    from rules.c18 import ctor_invariants
    facts = ctx.facts
    for adt, (enc, dec, ctor) in DT.items():
        E, D = facts.fns.get(enc), facts.fns.get(dec)
        inv = ctor_invariants(facts, ctor)
        if E is None or D is None or inv is None:
            rep.machinery('ANCHOR-MISSING %s / %s / %s' % (enc, dec, ctor))
            continue
        widths = {'field:' + k[1]: max(v[1], 0).bit_length() for k, v in inv.items()}
        # widths of opaque arithmetic results in the encoder (year - 1980, ...): from the interval analysis
        from intervals import Analysis, FnCtx
        an = Analysis(facts, E, FnCtx({}, dict(inv), set()), {}, 0)
        ar_w = {}
        for bi in E.reachable():
            st0, _ = an.state_before_term(bi)
            for s in E.blocks[bi]['stmts']:
                if s['k'] == 'assign' and s['rv']['k'] == 'binop' and st0 is not None:
                    op = s['rv']['op'].replace('WithOverflow', '')
                    iv = st0.get((s['lhs']['l'], ())) or st0.get((s['lhs']['l'], (('f', 0, '0'), )))
                    if op in ('Sub', 'Add', 'Mul', 'Div', 'Rem') and iv is not None and iv[0] >= 0:
                        ar_w[(op, s['span'].get('line'))] = max(iv[1], 0).bit_length()
        ep = Paths(E, param_widths=widths, arith_widths=ar_w)
        dp = Paths(D)
        if len(ep.paths) != 1 or len(dp.paths) != 1:
            rep.notes.append('R18.8: %s / %s are not single-path: not decided' % (enc, dec))
            continue
        e, d_ = ep.paths[0], dp.paths[0]
        word = e['ret'][0] if isinstance(e['ret'], tuple) and e['ret'] and isinstance(e['ret'][0], tuple) and \
            not (len(e['ret'][0]) == 3 and e['ret'][0][0] == 'in') else e['ret']
        if word is None or not isinstance(d_['ret'], dict):
            rep.notes.append('R18.8: %s result / %s fields not recognised: not decided' % (enc, dec))
            continue
        wname = D.locals[1].get('name') or 'p1'
        problems, detail = [], {}
        e_arith = {a['name']: a for a in e['arith']}
        d_arith = {a['name']: a for a in d_['arith']}
        n_fields = 0
        for fname, bv in d_['ret'].items():
            if bv is None:
                continue
            # a decoded field is either bits of the word, or arithmetic (x + const, x * 2 + y) on bits of the word
            srcs = {b[1] for b in bv if isinstance(b, tuple)}
            pre = bv
            undo = None
            if len(srcs) == 1 and next(iter(srcs)) in d_arith:
                a = d_arith[next(iter(srcs))]
                if a['op'] == 'Add' and a['operands'][0] is not None and a['operands'][1] is not None and \
                        all(x in (0, 1) for x in a['operands'][1]):
                    pre = a['operands'][0]
                    undo = ('Add', sum(x << i for i, x in enumerate(a['operands'][1])))
                elif a['op'] == 'Add' and a['operands'][0] is not None and fname in ('sec', 'second', 'seconds'):
                    # seconds = (two-second count) * 2 + odd second: the count must be bits 1.. of the encoder's `sec`
                    back = substitute(a['operands'][0], {wname: word})
                    want_name = 'field:' + fname
                    wbits = widths.get(want_name) or 6
                    want = tuple(('in', want_name, i) if 1 <= i < wbits else 0 for i in range(len(back)))
                    n_fields += 1
                    detail[fname + ' (two-second count * 2)'] = _fmt(back)
                    if tuple(back) != want:
                        problems.append('%s: the decoder rebuilds the even part of the seconds from [%s], not from bits 1.. of the '
                                        'encoder\'s seconds' % (fname, _fmt(back)))
                    continue
                else:
                    continue  # odd second / milliseconds: arithmetic on the sub-second byte, not a bit field (R18.7 bounds it)
            if not any(isinstance(b, tuple) and b[1] == wname for b in pre):
                continue
            back = substitute(pre, {wname: word})
            n_fields += 1
            detail[fname] = _fmt(back)
            # expected: the bits of the encoder's input for this field
            if undo is None:
                want_name = 'field:' + fname
                want = input_bits(want_name, len(back), widths.get(want_name))
                if tuple(back) != tuple(want):
                    problems.append('%s: the decoder gets [%s], the encoder packed the field %s' % (fname, _fmt(back), fname))
            else:
                # x + c on the decoder side must undo x - c on the encoder side
                srcs2 = {b[1] for b in back if isinstance(b, tuple)}
                ea = e_arith.get(next(iter(srcs2))) if len(srcs2) == 1 else None
                ok = ea is not None and ea['op'] == 'Sub' and ea['operands'][1] is not None and \
                    all(x in (0, 1) for x in ea['operands'][1]) and \
                    sum(x << i for i, x in enumerate(ea['operands'][1])) == undo[1] and \
                    ea['operands'][0] is not None and {b[1] for b in ea['operands'][0] if isinstance(b, tuple)} == {'field:' + fname}
                if ok:
                    want = input_bits(ea['name'], len(back), ar_w.get(('Sub', ea['line'])))
                    ok = tuple(back) == tuple(want)
                if not ok:
                    problems.append('%s: the decoder adds %d to [%s], which is not the offset field the encoder packed' % (
                        fname, undo[1], _fmt(back)))
        rep.oblige('R18.8', enc, ok=not problems and n_fields >= 3, nontrivial=True,
                   sample={'encoder': enc, 'decoder': dec, 'fields decided': n_fields, 'invariant_from': ctor, **detail})
        if n_fields < 3 and not problems:
            rep.notes.append('R18.8: only %d bit fields of %s recognised: not decided' % (n_fields, adt))
        for pr in problems:
            rep.violation('R18.8', vkey('R18.8', enc, pr.split(':')[0], ''), E.loc(E.span),
                          'DOS date/time round trip under the ranges of %s: %s' % (ctor.rsplit('::', 2)[-2] + '::new', pr))


F32 = '<fatfs::table::Fat<u32> as fatfs::table::FatTrait>::'


def run_fat32_reserved(ctx, rep):
    """X9: every word Fat32::set hands to set_raw has the old entry's top four bits and, below them, exactly the 28 bits of
    the new value (constants for free / bad / end-of-chain, the cluster number for a link)"""
    facts = ctx.facts
    S = facts.fns.get(F32 + 'set')
    if S is None:
        rep.machinery('ANCHOR-MISSING Fat32::set')
        return
    vparam = next((S.locals[i].get('name') for i in range(1, S.argc + 1)
                   if (S.local_ty(i) or {}).get('path', '').endswith('::FatValue')), 'value')
    pname = '%s.Data.0' % vparam
    sp = Paths(S, param_widths={pname: 28})
    problems, kinds = [], set()
    n = 0
    for pa in sp.paths:
        for callee, args in pa['calls']:
            if not callee.endswith('::set_raw') or len(args) < 3:
                continue
            n += 1
            w = args[2]
            if w is None or len(w) != 32:
                problems.append('the stored word is not a 32-bit value the analysis can follow')
                continue
            old = {b[1] for b in w[28:] if isinstance(b, tuple)}
            if len(old) != 1 or not next(iter(old)).startswith('call:get_raw') or \
                    tuple(w[28:]) != tuple(('in', next(iter(old)), i) for i in range(28, 32)):
                problems.append('bits 28..31 of the stored word are [%s], not bits 28..31 of the entry read back' % _fmt(w[28:]))
            low = w[:28]
            if all(b in (0, 1) for b in low):
                kinds.add(hex(sum(b << i for i, b in enumerate(low))))
            elif tuple(low) == tuple(('in', pname, i) for i in range(28)):
                kinds.add('cluster number')
            else:
                problems.append('bits 0..27 of the stored word are [%s]: neither a constant nor the cluster number' % _fmt(low))
    ok = not problems and n >= 4 and not sp.incomplete
    rep.oblige('X9', F32 + 'set', ok=ok, nontrivial=True,
               sample={'rule': 'stored word = (old & 0xF000_0000) | new 28-bit value on every path', 'paths': n,
                       'values stored': sorted(kinds), 'premise': 'cluster numbers are below 2^28'})
    if n < 4 and not problems:
        rep.notes.append('X9: only %d stores of Fat32::set recognised: not decided' % n)
    for pr in sorted(set(problems)):
        rep.violation('X9', vkey('X9', F32 + 'set', pr[:24], ''), S.loc(S.span), 'FAT32 entry update: ' + pr)


def run(ctx, rep):
    run_fat12(ctx, rep)
    run_fat32_reserved(ctx, rep)
    run_first_cluster(ctx, rep)
    run_datetime(ctx, rep)
