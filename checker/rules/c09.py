"""C09 - storage errors surface as I/O errors (DESIGN.md section 4, rules R9.1 - R9.6)."""
from analyses import (Effects, contains_dev_result, explore_result_fate, is_log_or_fmt_call)
from core import vkey
from model import place_key, op_place

SKIP_ORIGINS = ('core::ops::try_trait::Try::branch', 'core::ops::try_trait::FromResidual::from_residual',
                'core::convert::From::from', 'core::convert::Into::into')


def io_variant_index(facts):
    adt = facts.adts.get('fatfs::error::Error')
    if not adt:
        return None
    for i, v in enumerate(adt['variants']):
        if v['name'] == 'Io':
            return i
    return None


def scope_fns(facts):
    out = []
    for f in facts.fns.values():
        if f.crate == 'fatfs' or (f.crate == 'vf_witness' and '::controls::' in f.name):
            out.append(f)
    return out


def run(ctx, rep):
    facts, eff = ctx.facts, ctx.effects
    io_ix = io_variant_index(facts)
    if io_ix is None:
        rep.machinery('ANCHOR-MISSING fatfs::error::Error::Io (variant)')
        return
    stats = {}
    n_sites = 0
    n_not_dev = 0
    for fn in scope_fns(facts):
        is_control = fn.crate == 'vf_witness'
        if fn.is_drop_impl():
            # the statement's exemption: device calls issued from destructors cannot report errors
            rep.oblige('R9.exempt-drop', fn.name, ok=True)
            continue
        findings = []
        origins = []
        for b, t in fn.calls():
            if t['k'] != 'call' or t.get('ret') is None:
                continue
            callee = t.get('callee') or '?'
            if callee in SKIP_ORIGINS or callee.startswith('core::result::Result::') or callee.startswith(
                    'core::option::Option::'):
                continue
            if is_log_or_fmt_call(t):
                continue
            if not contains_dev_result(fn.types, t['dest_ty']):
                continue
            dr = eff.fn_reaches_dev(fn.name, b)
            if dr is False:
                n_not_dev += 1
                continue
            origins.append((b, t))
        for b, t in origins:
            n_sites += 1
            callee = t.get('callee') or '?'
            desc = '`%s`' % (t['span']['snip'][:70] or callee)
            before = len(findings)
            dest = place_key(t['dest'])
            if dest == (0, ()):
                # returned directly to the caller
                rep.oblige('R9.1', '%s|%s' % (fn.name, callee), ok=True)
                continue
            explore_result_fate(fn, b, t['ret'], dest, t['dest_ty'], io_ix, findings, stats, desc)
            ok = len(findings) == before
            rep.oblige('R9.1', '%s|bb%d|%s' % (fn.name, b, callee), ok=ok, nontrivial=True,
                       sample={'fn': fn.name, 'at': fn.loc(t['span']), 'callee': callee,
                               'verdict': 'every path returns, kind-tests or retries the error' if ok else 'violation'}
                       if n_sites % 40 == 1 or not ok else None)
        # closure / function parameters that carry a device-capable result
        for i in range(1, fn.argc + 1):
            if fn.is_closure and contains_dev_result(fn.types, fn.locals[i]['ty']):
                before = len(findings)
                explore_result_fate(fn, -1, 0, (i, ()), fn.locals[i]['ty'], io_ix, findings, stats,
                                    'parameter _%d of %s' % (i, fn.name))
                rep.oblige('R9.1', '%s|param%d' % (fn.name, i), ok=len(findings) == before, nontrivial=True)
        for fd in findings:
            ob = fn.blocks[fd.origin_blk]['term'] if fd.origin_blk >= 0 else None
            callee = (ob.get('callee') if ob else None) or 'param'
            osnip = ob['span']['snip'] if ob else fn.name
            key = vkey(fd.rule, fn.name, callee, osnip)
            where = fn.loc(ob['span']) if ob else fn.loc(fn.span)
            detail = ['origin: %s  %s' % (where, osnip[:100]),
                      'path: ' + '->'.join('bb%d' % x for x in fd.path[:30]),
                      'ends at: %s  %s' % (fn.loc(fd.span), fd.span['snip'][:80])]
            rep.violation(fd.rule, key, where, '%s in fn %s' % (fd.what, fn.name), detail, control=is_control)
    rep.counts['R9.sites_not_device_reaching'] = n_not_dev
    rep.notes.append('fate exploration: %d device-capable result sites explored, %d not device-reaching, %s' %
                     (n_sites, n_not_dev, stats))


# ---------------------------------------------------------------------------------------------
# R9.6  no re-entrant RefCell borrow (a storage error must not turn into a `already borrowed` panic)

BORROW_FNS = {'core::cell::RefCell::borrow_mut': 'mut', 'core::cell::RefCell::borrow': 'shared',
              'core::cell::RefCell::try_borrow_mut': None, 'core::cell::RefCell::try_borrow': None}


def ref_target_field(fn, local, depth=0):
    """name of the last struct field in the place a reference-typed local was taken from"""
    if depth > 6:
        return None
    for bi in fn.reachable():
        for s in fn.blocks[bi]['stmts']:
            if s['k'] != 'assign' or s['lhs']['l'] != local or s['lhs']['p']:
                continue
            rv = s['rv']
            if rv['k'] in ('ref', 'rawptr'):
                names = [e.get('n') for e in rv['p']['p'] if 'f' in e and e.get('n') is not None]
                if names:
                    return names[-1]
                return ref_target_field(fn, rv['p']['l'], depth + 1)
            if rv['k'] in ('use', 'cast'):
                p = op_place(rv['a'])
                if p is not None:
                    names = [e.get('n') for e in p['p'] if 'f' in e and e.get('n') is not None]
                    if names:
                        return names[-1]
                    return ref_target_field(fn, p['l'], depth + 1)
    return None


def borrow_sites(fn):
    out = []
    for b, t in fn.calls():
        kind = BORROW_FNS.get(t.get('callee'))
        if kind is None or t.get('ret') is None or not t['args']:
            continue
        p = op_place(t['args'][0])
        field = ref_target_field(fn, p['l']) if p is not None else None
        out.append((b, t, kind, field))
    return out



# library functions that turn a Result into something that no longer carries its error
SWALLOWERS = ('core::result::Result::ok', 'core::result::Result::iter', 'core::result::Result::iter_mut',
              'core::result::Result::unwrap_or', 'core::result::Result::unwrap_or_default',
              'core::result::Result::unwrap_or_else', 'core::result::Result::is_ok_and', 'core::result::Result::map_or',
              'core::result::Result::map_or_else', 'core::result::Result::into_iter')
SWALLOW_IMPLS = ('<core::result::Result<T, E> as core::iter::traits::collect::IntoIterator>::into_iter', )


def run_indirect_swallow(ctx, rep):
    """R9.7: an error-discarding Result function instantiated with a device-capable error type must not be reached
    from fatfs code *through library adaptors* (`iter.flatten()`, `filter_map(Result::ok)`, `flat_map`, `sum`, ...):
    the discarding call then sits inside core and no call site in fatfs shows it (direct calls are R9.3's)."""
    facts = ctx.facts
    dev_markers = ('fatfs::error::Error<', 'fatfs::Error<', 'DevErr', 'std::io::Error', 'std::io::error::Error')
    n = 0
    for i in facts.instances:
        name = i['fn']
        if not (name in SWALLOWERS or name in SWALLOW_IMPLS or
                (name.endswith('IntoIterator>::into_iter') and 'core::result::Result' in name)):
            continue
        args = i.get('args') or ''
        # the error type is the last generic argument
        inner = args.strip('[]')
        depth, parts, cur = 0, [], ''
        for ch in inner:
            if ch in '<([':
                depth += 1
            elif ch in '>)]':
                depth -= 1
            if ch == ',' and depth == 0:
                parts.append(cur.strip())
                cur = ''
            else:
                cur += ch
        if cur.strip():
            parts.append(cur.strip())
        if len(parts) < 2 or not any(m in parts[1] for m in dev_markers):
            continue
        # walk callers through non-fatfs instances; the first fatfs instance met is the responsible site
        seen = {i['id']}
        work = [(i['id'], 0)]
        while work:
            x, hops = work.pop()
            for a, bb, kind in facts.in_edges[x]:
                if a in seen:
                    continue
                seen.add(a)
                ai = facts.instances[a]
                if ai['crate'] == 'fatfs' or ('::controls::' in ai['fn'] and '_r9_7' in ai['fn']):
                    if hops == 0:
                        continue  # a direct call in fatfs: judged by R9.3 with its own exemptions
                    fn = facts.fns.get(ai['fn'])
                    if fn is None or fn.is_drop_impl():
                        continue
                    n += 1
                    t = fn.blocks[bb]['term']
                    is_control = ai['crate'] != 'fatfs'
                    if is_control:
                        rep.control('R9.7')
                        continue
                    rep.oblige('R9.7', '%s|bb%d' % (fn.name, bb), ok=False, nontrivial=True)
                    rep.violation('R9.7', vkey('R9.7', fn.name, (t.get('callee') or '?'), t['span']['snip']),
                                  fn.loc(t['span']),
                                  '%s hands results that can carry a storage error to a library adaptor (%s) that reaches %s: '
                                  'an Err item is discarded inside the adaptor instead of being returned as Error::Io' % (
                                      fn.name, (t.get('callee') or '?').rsplit('::', 1)[-1], name))
                elif ai['crate'] in ('core', 'alloc'):
                    # only library adaptors are looked through; other crates' internal uses of io::Error are theirs
                    work.append((a, hops + 1))
    rep.counts['R9.7'] = rep.counts.get('R9.7', 0) + n
    rep.oblige('R9.7.scan', 'mono-graph', ok=True)


def run_refcell(ctx, rep):
    facts = ctx.facts
    # seeds: fn name -> {(field, kind)}
    seeds = {}
    for fn in scope_fns(facts):
        for b, t, kind, field in borrow_sites(fn):
            seeds.setdefault(fn.name, set()).add((field, kind))
    fields = sorted({f for v in seeds.values() for f, _ in v}, key=lambda x: x or '')
    borrowers = {}
    for f in fields:
        for kind in ('mut', 'shared'):
            names = {n for n, v in seeds.items() if (f, kind) in v}
            borrowers[(f, kind)] = facts.may_reach(lambda i, names=names: i['fn'] in names) if names else set()
    n = 0
    for fn in scope_fns(facts):
        is_control = fn.crate == 'vf_witness'
        ids = facts.insts_of.get(fn.name, [])
        for b, t, kind, field in borrow_sites(fn):
            n += 1
            g = place_key(t['dest'])
            if g[1]:
                continue
            # live region of the guard
            drops = set()
            for bi in fn.reachable():
                tt = fn.blocks[bi]['term']
                if tt['k'] == 'drop' and place_key(tt['place']) == g:
                    drops.add(bi)
            region = fn.reach_from([t['ret']], cut_blocks=())
            # cut: do not continue past a drop of the guard
            live = set()
            st = [t['ret']]
            while st:
                x = st.pop()
                if x in live:
                    continue
                live.add(x)
                if x in drops:
                    continue
                dead_here = any(s['k'] == 'dead' and s['l'] == g[0] for s in fn.blocks[x]['stmts'])
                if dead_here:
                    continue
                for s2 in fn.succ(x):
                    st.append(s2)
            bad = None
            for x in sorted(live):
                tt = fn.blocks[x]['term']
                if tt['k'] not in ('call', 'drop'):
                    continue
                if x in drops:
                    continue
                conflict_kinds = ('mut', 'shared') if kind == 'mut' else ('mut', )
                for iid in ids:
                    for c, ek in facts.edge_at.get((iid, x), ()):
                        for ck in conflict_kinds:
                            if c in borrowers.get((field, ck), ()):
                                bad = (x, tt, facts.inst_name(c), ck)
                                break
                        if bad:
                            break
                    if bad:
                        break
                if bad:
                    break
            rep.oblige('R9.6', '%s|bb%d|%s' % (fn.name, b, field), ok=bad is None, nontrivial=True,
                       sample={'fn': fn.name, 'at': fn.loc(t['span']), 'cell': field, 'borrow': kind,
                               'live_blocks': len(live),
                               'verdict': 'no call in the guard\'s live range can borrow the same cell'}
                       if n % 10 == 1 else None)
            if bad:
                x, tt, cname, ck = bad
                key = vkey('R9.6', fn.name, field or '?', tt['span']['snip'])
                rep.violation('R9.6', key, fn.loc(tt['span']),
                              'RefCell `%s` is borrowed (%s) at %s and, while that guard is alive, `%s` is reached '
                              'which borrows the same cell again (%s): a panic instead of an error' %
                              (field, kind, fn.loc(t['span']), cname, ck),
                              ['guard acquired: %s  %s' % (fn.loc(t['span']), t['span']['snip'][:90]),
                               'conflicting site: %s  %s' % (fn.loc(tt['span']), tt['span']['snip'][:90])],
                              control=is_control)


_run_fate = run


def run(ctx, rep):
    _run_fate(ctx, rep)
    run_refcell(ctx, rep)
    run_indirect_swallow(ctx, rep)
