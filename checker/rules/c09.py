"""C09 - storage errors surface as I/O errors (DESIGN.md section 4, rules R9.1 - R9.6)."""
from analyses import (Effects, contains_dev_result, explore_result_fate, is_log_or_fmt_call)
from core import vkey
from model import place_key, op_place, op_const

SKIP_ORIGINS = ('core::ops::try_trait::Try::branch', 'core::ops::try_trait::FromResidual::from_residual',
                'core::convert::From::from', 'core::convert::Into::into')


def io_variant_index(facts):
    adt = facts.adts.get('fatfs::error::Error')
    if not adt:
        return None
    for i, v in enumerate(adt['variants']):
        if v['name'] == 'Io':
            return i
    return None


def scope_fns(facts):
    out = []
    for f in facts.fns.values():
        if f.crate == 'fatfs' or (f.crate == 'vf_witness' and '::controls::' in f.name):
            out.append(f)
    return out


def run(ctx, rep):
    facts, eff = ctx.facts, ctx.effects
    io_ix = io_variant_index(facts)
    if io_ix is None:
        rep.machinery('ANCHOR-MISSING fatfs::error::Error::Io (variant)')
        return
    stats = {}
    n_sites = 0
    n_not_dev = 0
    for fn in scope_fns(facts):
        is_control = fn.crate == 'vf_witness'
        if fn.is_drop_impl():
            # the statement's exemption: device calls issued from destructors cannot report errors
            rep.oblige('R9.exempt-drop', fn.name, ok=True)
            continue
        findings = []
        origins = []
        for b, t in fn.calls():
            if t['k'] != 'call' or t.get('ret') is None:
                continue
            callee = t.get('callee') or '?'
            if callee in SKIP_ORIGINS or callee.startswith('core::result::Result::') or callee.startswith(
                    'core::option::Option::'):
                continue
            if is_log_or_fmt_call(t):
                continue
            if not contains_dev_result(fn.types, t['dest_ty']):
                continue
            dr = eff.fn_reaches_dev(fn.name, b)
            if dr is False:
                n_not_dev += 1
                continue
            origins.append((b, t))
        for b, t in origins:
            n_sites += 1
            callee = t.get('callee') or '?'
            desc = '`%s`' % (t['span']['snip'][:70] or callee)
            before = len(findings)
            dest = place_key(t['dest'])
            if dest == (0, ()):
                # returned directly to the caller
                rep.oblige('R9.1', '%s|%s' % (fn.name, callee), ok=True)
                continue
            explore_result_fate(fn, b, t['ret'], dest, t['dest_ty'], io_ix, findings, stats, desc)
            ok = len(findings) == before
            rep.oblige('R9.1', '%s|bb%d|%s' % (fn.name, b, callee), ok=ok, nontrivial=True,
                       sample={'fn': fn.name, 'at': fn.loc(t['span']), 'callee': callee,
                               'verdict': 'every path returns, kind-tests or retries the error' if ok else 'violation'}
                       if n_sites % 40 == 1 or not ok else None)
        # closure / function parameters that carry a device-capable result
        for i in range(1, fn.argc + 1):
            if fn.is_closure and contains_dev_result(fn.types, fn.locals[i]['ty']):
                before = len(findings)
                explore_result_fate(fn, -1, 0, (i, ()), fn.locals[i]['ty'], io_ix, findings, stats,
                                    'parameter _%d of %s' % (i, fn.name))
                rep.oblige('R9.1', '%s|param%d' % (fn.name, i), ok=len(findings) == before, nontrivial=True)
        for fd in findings:
            ob = fn.blocks[fd.origin_blk]['term'] if fd.origin_blk >= 0 else None
            callee = (ob.get('callee') if ob else None) or 'param'
            osnip = ob['span']['snip'] if ob else fn.name
            key = vkey(fd.rule, fn.name, callee, osnip)
            where = fn.loc(ob['span']) if ob else fn.loc(fn.span)
            detail = ['origin: %s  %s' % (where, osnip[:100]),
                      'path: ' + '->'.join('bb%d' % x for x in fd.path[:30]),
                      'ends at: %s  %s' % (fn.loc(fd.span), fd.span['snip'][:80])]
            rep.violation(fd.rule, key, where, '%s in fn %s' % (fd.what, fn.name), detail, control=is_control)
    rep.counts['R9.sites_not_device_reaching'] = n_not_dev
    rep.notes.append('fate exploration: %d device-capable result sites explored, %d not device-reaching, %s' %
                     (n_sites, n_not_dev, stats))


# ---------------------------------------------------------------------------------------------
# R9.6  no re-entrant RefCell borrow (a storage error must not turn into a `already borrowed` panic)

BORROW_FNS = {'core::cell::RefCell::borrow_mut': 'mut', 'core::cell::RefCell::borrow': 'shared',
              'core::cell::RefCell::try_borrow_mut': None, 'core::cell::RefCell::try_borrow': None}


def ref_target_field(fn, local, depth=0):
    """name of the last struct field in the place a reference-typed local was taken from"""
    if depth > 6:
        return None
    for bi in fn.reachable():
        for s in fn.blocks[bi]['stmts']:
            if s['k'] != 'assign' or s['lhs']['l'] != local or s['lhs']['p']:
                continue
            rv = s['rv']
            if rv['k'] in ('ref', 'rawptr'):
                names = [e.get('n') for e in rv['p']['p'] if 'f' in e and e.get('n') is not None]
                if names:
                    return names[-1]
                return ref_target_field(fn, rv['p']['l'], depth + 1)
            if rv['k'] in ('use', 'cast'):
                p = op_place(rv['a'])
                if p is not None:
                    names = [e.get('n') for e in p['p'] if 'f' in e and e.get('n') is not None]
                    if names:
                        return names[-1]
                    return ref_target_field(fn, p['l'], depth + 1)
    return None


def borrow_sites(fn):
    out = []
    for b, t in fn.calls():
        kind = BORROW_FNS.get(t.get('callee'))
        if kind is None or t.get('ret') is None or not t['args']:
            continue
        p = op_place(t['args'][0])
        field = ref_target_field(fn, p['l']) if p is not None else None
        out.append((b, t, kind, field))
    return out



# library functions that turn a Result into something that no longer carries its error
SWALLOWERS = ('core::result::Result::ok', 'core::result::Result::iter', 'core::result::Result::iter_mut',
              'core::result::Result::unwrap_or', 'core::result::Result::unwrap_or_default',
              'core::result::Result::unwrap_or_else', 'core::result::Result::is_ok_and', 'core::result::Result::map_or',
              'core::result::Result::map_or_else', 'core::result::Result::into_iter')
SWALLOW_IMPLS = ('<core::result::Result<T, E> as core::iter::traits::collect::IntoIterator>::into_iter', )


def run_indirect_swallow(ctx, rep):
    """R9.7: an error-discarding Result function instantiated with a device-capable error type must not be reached
    from fatfs code *through library adaptors* (`iter.flatten()`, `filter_map(Result::ok)`, `flat_map`, `sum`, ...):
    the discarding call then sits inside core and no call site in fatfs shows it (direct calls are R9.3's)."""
    facts = ctx.facts
    dev_markers = ('fatfs::error::Error<', 'fatfs::Error<', 'DevErr', 'std::io::Error', 'std::io::error::Error')
    n = 0
    for i in facts.instances:
        name = i['fn']
        if not (name in SWALLOWERS or name in SWALLOW_IMPLS or
                (name.endswith('IntoIterator>::into_iter') and 'core::result::Result' in name)):
            continue
        args = i.get('args') or ''
        # the error type is the last generic argument
        inner = args.strip('[]')
        depth, parts, cur = 0, [], ''
        for ch in inner:
            if ch in '<([':
                depth += 1
            elif ch in '>)]':
                depth -= 1
            if ch == ',' and depth == 0:
                parts.append(cur.strip())
                cur = ''
            else:
                cur += ch
        if cur.strip():
            parts.append(cur.strip())
        if len(parts) < 2 or not any(m in parts[1] for m in dev_markers):
            continue
        # walk callers through non-fatfs instances; the first fatfs instance met is the responsible site
        seen = {i['id']}
        work = [(i['id'], 0)]
        while work:
            x, hops = work.pop()
            for a, bb, kind in facts.in_edges[x]:
                if a in seen:
                    continue
                seen.add(a)
                ai = facts.instances[a]
                if ai['crate'] == 'fatfs' or ('::controls::' in ai['fn'] and '_r9_7' in ai['fn']):
                    if hops == 0:
                        continue  # a direct call in fatfs: judged by R9.3 with its own exemptions
                    fn = facts.fns.get(ai['fn'])
                    if fn is None or fn.is_drop_impl():
                        continue
                    n += 1
                    t = fn.blocks[bb]['term']
                    is_control = ai['crate'] != 'fatfs'
                    if is_control:
                        rep.control('R9.7')
                        continue
                    rep.oblige('R9.7', '%s|bb%d' % (fn.name, bb), ok=False, nontrivial=True)
                    rep.violation('R9.7', vkey('R9.7', fn.name, (t.get('callee') or '?'), t['span']['snip']),
                                  fn.loc(t['span']),
                                  '%s hands results that can carry a storage error to a library adaptor (%s) that reaches %s: '
                                  'an Err item is discarded inside the adaptor instead of being returned as Error::Io' % (
                                      fn.name, (t.get('callee') or '?').rsplit('::', 1)[-1], name))
                elif ai['crate'] in ('core', 'alloc'):
                    # only library adaptors are looked through; other crates' internal uses of io::Error are theirs
                    work.append((a, hops + 1))
    rep.counts['R9.7'] = rep.counts.get('R9.7', 0) + n
    rep.oblige('R9.7.scan', 'mono-graph', ok=True)


def run_refcell(ctx, rep):
    facts = ctx.facts
    # seeds: fn name -> {(field, kind)}
    seeds = {}
    for fn in scope_fns(facts):
        for b, t, kind, field in borrow_sites(fn):
            seeds.setdefault(fn.name, set()).add((field, kind))
    fields = sorted({f for v in seeds.values() for f, _ in v}, key=lambda x: x or '')
    borrowers = {}
    for f in fields:
        for kind in ('mut', 'shared'):
            names = {n for n, v in seeds.items() if (f, kind) in v}
            borrowers[(f, kind)] = facts.may_reach(lambda i, names=names: i['fn'] in names) if names else set()
    n = 0
    for fn in scope_fns(facts):
        is_control = fn.crate == 'vf_witness'
        ids = facts.insts_of.get(fn.name, [])
        for b, t, kind, field in borrow_sites(fn):
            n += 1
            g = place_key(t['dest'])
            if g[1]:
                continue
            # live region of the guard
            drops = set()
            for bi in fn.reachable():
                tt = fn.blocks[bi]['term']
                if tt['k'] == 'drop' and place_key(tt['place']) == g:
                    drops.add(bi)
            region = fn.reach_from([t['ret']], cut_blocks=())
            # cut: do not continue past a drop of the guard
            live = set()
            st = [t['ret']]
            while st:
                x = st.pop()
                if x in live:
                    continue
                live.add(x)
                if x in drops:
                    continue
                dead_here = any(s['k'] == 'dead' and s['l'] == g[0] for s in fn.blocks[x]['stmts'])
                if dead_here:
                    continue
                for s2 in fn.succ(x):
                    st.append(s2)
            bad = None
            for x in sorted(live):
                tt = fn.blocks[x]['term']
                if tt['k'] not in ('call', 'drop'):
                    continue
                if x in drops:
                    continue
                conflict_kinds = ('mut', 'shared') if kind == 'mut' else ('mut', )
                for iid in ids:
                    for c, ek in facts.edge_at.get((iid, x), ()):
                        for ck in conflict_kinds:
                            if c in borrowers.get((field, ck), ()):
                                bad = (x, tt, facts.inst_name(c), ck)
                                break
                        if bad:
                            break
                    if bad:
                        break
                if bad:
                    break
            rep.oblige('R9.6', '%s|bb%d|%s' % (fn.name, b, field), ok=bad is None, nontrivial=True,
                       sample={'fn': fn.name, 'at': fn.loc(t['span']), 'cell': field, 'borrow': kind,
                               'live_blocks': len(live),
                               'verdict': 'no call in the guard\'s live range can borrow the same cell'}
                       if n % 10 == 1 else None)
            if bad:
                x, tt, cname, ck = bad
                key = vkey('R9.6', fn.name, field or '?', tt['span']['snip'])
                rep.violation('R9.6', key, fn.loc(tt['span']),
                              'RefCell `%s` is borrowed (%s) at %s and, while that guard is alive, `%s` is reached '
                              'which borrows the same cell again (%s): a panic instead of an error' %
                              (field, kind, fn.loc(t['span']), cname, ck),
                              ['guard acquired: %s  %s' % (fn.loc(t['span']), t['span']['snip'][:90]),
                               'conflicting site: %s  %s' % (fn.loc(tt['span']), tt['span']['snip'][:90])],
                              control=is_control)



# ---------------------------------------------------------------------------------------------
# R9.8  item-discarding iterator adaptors over results that can carry a storage error

ITER = 'core::iter::traits::iterator::Iterator::'
DITER = 'core::iter::traits::double_ended::DoubleEndedIterator::'
# adaptor -> value of the by-reference predicate for which the adaptor DROPS the item it was looking at
PREDICATE_DISCARDERS = {ITER + 'find': False, DITER + 'rfind': False, ITER + 'filter': False, ITER + 'take_while': False,
                        ITER + 'skip_while': True}
# adaptors that drop items without looking at them
BLIND_DISCARDERS = tuple(ITER + n for n in ('nth', 'skip', 'step_by', 'last', 'count', 'max', 'min', 'max_by', 'min_by',
                                            'max_by_key', 'min_by_key', 'advance_by')) + (DITER + 'nth_back', )
KEEP_VARIANT = ('core::result::Result::as_ref', 'core::result::Result::as_mut', 'core::result::Result::as_deref',
                'core::result::Result::as_deref_mut', 'core::result::Result::map', 'core::result::Result::and_then',
                'core::result::Result::copied', 'core::result::Result::cloned', 'core::result::Result::and',
                'core::result::Result::inspect', 'core::clone::Clone::clone', 'core::borrow::Borrow::borrow',
                'core::convert::AsRef::as_ref')


def _bool_const(fn, o):
    from model import op_const
    c = op_const(o)
    if c is not None and c.get('val') in (0, 1):
        return bool(c['val'])
    return None


def closure_value_on_err(facts, cf, depth=0):
    """set of abstract return values ({True, False, 'unknown'}) of a predicate closure `|r: &Result<_, E>| -> bool` when
    the item it is shown is an `Err`: a tiny abstract interpretation that knows the variant of everything derived from the
    parameter and follows the control flow that this knowledge decides"""
    ERR = ('res', 'Err')
    results = set()
    start_env = {2: ERR}
    work = [(0, start_env, 0)]
    seen = set()
    while work:
        b, env, steps = work.pop()
        if steps > 200:
            results.add('unknown')
            continue
        key = (b, tuple(sorted((k, str(v)) for k, v in env.items())))
        if key in seen:
            continue
        seen.add(key)
        env = dict(env)
        blk = cf.blocks[b]

        def val_of_place(pl):
            v = env.get(pl['l'])
            if v == ERR and all(e == {'deref': 1} or 'deref' in e for e in pl['p']):
                return ERR
            if not pl['p']:
                return v
            return None

        def val_of_operand(o):
            bc = _bool_const(cf, o)
            pl = op_place(o)
            if pl is not None:
                return val_of_place(pl)
            if bc is not None:
                return ('bool', bc)
            return None

        for s in blk['stmts']:
            if s['k'] != 'assign' or s['lhs']['p']:
                if s['k'] == 'assign':
                    env.pop(s['lhs']['l'], None)
                continue
            l = s['lhs']['l']
            rv = s['rv']
            v = None
            if rv['k'] in ('use', 'cast'):
                v = val_of_operand(rv['a'])
            elif rv['k'] in ('ref', 'rawptr'):
                v = val_of_place(rv['p'])
            elif rv['k'] == 'discr':
                pv = val_of_place(rv['p'])
                if pv == ERR:
                    v = ('int', 1)
                elif pv == ('opt', 'None'):
                    v = ('int', 0)
                elif pv == ('opt', 'Some'):
                    v = ('int', 1)
            elif rv['k'] == 'unop' and rv.get('op') == 'Not':
                pv = val_of_operand(rv['a'])
                if pv and pv[0] == 'bool':
                    v = ('bool', not pv[1])
            if v is None:
                env.pop(l, None)
            else:
                env[l] = v
        t = blk['term']
        k = t['k']
        if k == 'return':
            r = env.get(0)
            results.add(r[1] if r and r[0] == 'bool' else 'unknown')
        elif k in ('goto', 'drop', 'assert'):
            work.append((t['ret'], env, steps + 1))
        elif k == 'switch':
            dv = val_of_operand(t['discr'])
            if dv is not None and dv[0] in ('int', 'bool'):
                x = int(dv[1])
                tgt = next((tg for vv, tg in t['targets'] if vv == x), t['otherwise'])
                work.append((tgt, env, steps + 1))
            else:
                for _, tg in t['targets']:
                    work.append((tg, env, steps + 1))
                work.append((t['otherwise'], env, steps + 1))
        elif k == 'call':
            callee = t.get('callee') or ''
            av = [val_of_operand(a) for a in t['args']]
            v = None
            a0 = av[0] if av else None
            short = callee.rsplit('::', 1)[-1]
            if a0 == ERR:
                if callee in KEEP_VARIANT:
                    v = ERR
                elif callee == 'core::result::Result::is_err':
                    v = ('bool', True)
                elif callee in ('core::result::Result::is_ok', 'core::result::Result::is_ok_and'):
                    v = ('bool', False)
                elif callee in ('core::result::Result::map_or', 'core::result::Result::unwrap_or') and len(av) >= 2:
                    v = av[1] if av[1] and av[1][0] == 'bool' else None
                elif callee == 'core::result::Result::ok':
                    v = ('opt', 'None')
                elif callee == 'core::result::Result::err':
                    v = ('opt', 'Some')
            elif a0 and a0[0] == 'opt':
                if callee == 'core::option::Option::is_some':
                    v = ('bool', a0[1] == 'Some')
                elif callee == 'core::option::Option::is_none':
                    v = ('bool', a0[1] == 'None')
                elif callee in ('core::option::Option::map_or', 'core::option::Option::unwrap_or') and a0[1] == 'None' \
                        and len(av) >= 2:
                    v = av[1] if av[1] and av[1][0] == 'bool' else None
                elif callee in ('core::option::Option::as_ref', 'core::option::Option::map', 'core::option::Option::and_then') \
                        and a0[1] == 'None':
                    v = a0
            if not t['dest']['p']:
                if v is None:
                    env.pop(t['dest']['l'], None)
                else:
                    env[t['dest']['l']] = v
            if t.get('ret') is not None:
                work.append((t['ret'], env, steps + 1))
    return results or {'unknown'}


def dev_iterator_types(facts):
    """paths of fatfs types whose Iterator::next yields results that can carry a storage error"""
    out = set()
    for name, fn in facts.fns.items():
        if name.endswith(' as core::iter::traits::iterator::Iterator>::next') and contains_dev_result(fn.types, fn.locals[0]['ty']):
            st = getattr(fn, 'self_ty', None)
            if st:
                out.add(st.split('<')[0])
    return out


def run_discarding_adaptors(ctx, rep):
    """R9.8: an iterator adaptor that drops items (`find`, `filter`, `skip_while`, `take_while`, `nth`, `skip`, `last`,
    `count`, ...) applied to an iterator whose items can be `Err(storage error)`: the predicate must keep an `Err` item
    (so that the caller still sees it); an adaptor that drops items blindly is a violation."""
    facts = ctx.facts
    dev_iters = dev_iterator_types(facts)
    n = und = 0
    for fn in scope_fns(facts):
        is_control = fn.crate == 'vf_witness'
        if fn.is_drop_impl() or (is_control and '_r9_8' not in fn.name):
            continue
        for b, t in fn.calls():
            callee = t.get('callee') or ''
            if callee not in PREDICATE_DISCARDERS and callee not in BLIND_DISCARDERS:
                continue
            if not t['args']:
                continue
            rp = op_place(t['args'][0])
            rty = fn.local_ty(rp['l']) if rp is not None else None
            from model import ty_contains
            recv_dev = rp is not None and ty_contains(fn.types, fn.locals[rp['l']]['ty'],
                                                      lambda x: x['k'] == 'adt' and x['path'].split('<')[0] in dev_iters)
            if callee in BLIND_DISCARDERS:
                if not recv_dev:
                    continue
                n += 1
                rep.oblige('R9.8', '%s|bb%d' % (fn.name, b), ok=False, nontrivial=True)
                rep.violation('R9.8', vkey('R9.8', fn.name, callee, t['span']['snip']), fn.loc(t['span']),
                              '%s drops items of an iterator whose items can be Err(storage error) without looking at them '
                              '(%s): a failed read is discarded instead of being returned as Error::Io' %
                              (fn.name, callee.rsplit('::', 1)[-1]), control=is_control)
                continue
            # predicate adaptor: the closure's parameter tells the item type
            cdef = None
            if len(t['args']) > 1:
                cp = op_place(t['args'][1])
                if cp is not None:
                    for bi in fn.reachable():
                        for s in fn.blocks[bi]['stmts']:
                            if s['k'] == 'assign' and s['lhs']['l'] == cp['l'] and not s['lhs']['p'] and \
                                    s['rv']['k'] == 'agg' and s['rv'].get('ak') == 'closure':
                                cdef = s['rv']['def']
            cf = facts.fns.get(cdef) if cdef else None
            item_dev = None
            if cf is not None and cf.argc >= 2:
                pt = cf.local_ty(2)
                for _ in range(3):
                    if pt is not None and pt.get('k') in ('ref', 'ptr'):
                        ix = pt['to']
                        pt = cf.types[ix]
                        item_dev = contains_dev_result(cf.types, ix)
            if item_dev is None:
                item_dev = recv_dev and None
            if item_dev is False:
                continue
            if item_dev is None:
                if recv_dev:
                    und += 1
                continue
            n += 1
            vals = closure_value_on_err(facts, cf)
            dropped_on = PREDICATE_DISCARDERS[callee]
            if vals == {not dropped_on}:
                rep.oblige('R9.8', '%s|bb%d' % (fn.name, b), ok=True, nontrivial=True,
                           sample={'fn': fn.name, 'at': fn.loc(t['span']), 'adaptor': callee.rsplit('::', 1)[-1],
                                   'verdict': 'the predicate returns %s for an Err item: the item is kept' % (not dropped_on)})
            elif dropped_on in vals:
                rep.oblige('R9.8', '%s|bb%d' % (fn.name, b), ok=False, nontrivial=True)
                rep.violation('R9.8', vkey('R9.8', fn.name, callee, t['span']['snip']), fn.loc(t['span']),
                              'the predicate given to `%s` in %s returns %s for an item that is Err(storage error): the adaptor '
                              'drops the item and the failed read is never returned as Error::Io' %
                              (callee.rsplit('::', 1)[-1], fn.name, str(dropped_on).lower()),
                              ['closure: %s' % cdef], control=is_control)
            else:
                und += 1
    rep.counts['R9.8'] = rep.counts.get('R9.8', 0) + n
    rep.counts['R9.8.undecided'] = und
    if und:
        rep.notes.append('R9.8: %d discarding adaptors over device-capable results could not be decided (predicate not understood)' % und)
    rep.oblige('R9.8.scan', 'fatfs-calls', ok=True)


_run_fate = run


def run(ctx, rep):
    _run_fate(ctx, rep)
    run_refcell(ctx, rep)
    run_indirect_swallow(ctx, rep)
    run_discarding_adaptors(ctx, rep)
    run_interrupt_predicate(ctx, rep)


# ---------------------------------------------------------------------------------------------
# R9.9  the retry predicate: only "interrupted" is retried, and wrappers delegate

def run_interrupt_predicate(ctx, rep):
    """`read_exact` / `write_all` retry while `is_interrupted()` is true (fate F3), so the predicate decides which storage
    errors are swallowed by a retry. (a) `Error<T>::is_interrupted` returns exactly what the wrapped storage error says on
    its Io variant and false on every other variant; (b) `std::io::Error::is_interrupted` is true for
    ErrorKind::Interrupted and for nothing else (decision table over the kind's discriminant)."""
    facts = ctx.facts
    W = facts.fns.get('<fatfs::error::Error as fatfs::error::IoError>::is_interrupted')
    if W is None:
        rep.machinery('ANCHOR-MISSING <Error<T> as IoError>::is_interrupted')
    else:
        io_ix = io_variant_index(facts)
        problems = []
        delegates = 0
        # every value that reaches the return place: the delegate's result on the Io arm, constant false elsewhere
        for bi in W.reachable():
            t = W.blocks[bi]['term']
            if t['k'] == 'call' and place_key(t['dest']) == (0, ()):
                callee = t.get('callee') or ''
                p = op_place(t['args'][0]) if t['args'] else None
                if callee.endswith('IoError::is_interrupted') and p is not None:
                    delegates += 1
                else:
                    problems.append('the result is computed by %s' % callee)
            for s in W.blocks[bi]['stmts']:
                if s['k'] == 'assign' and place_key(s['lhs']) == (0, ()):
                    c = _bool_const(W, s['rv']['a']) if s['rv']['k'] == 'use' else None
                    if c is None:
                        problems.append('the result is not the wrapped error\'s answer or the constant false')
                    elif c is True:
                        problems.append('a constant `true` is returned (an error would be retried for ever)')
        # the delegate call sits on the Io arm of a switch on self's discriminant
        on_io = False
        for bi in W.reachable():
            t = W.blocks[bi]['term']
            if t['k'] == 'switch':
                from analyses import switch_source
                src = switch_source(W, bi)
                if src and src['kind'] == 'discr':
                    tgt = [tb for v, tb in t['targets'] if v == io_ix]
                    if tgt:
                        reach = W.reach_from(tgt, cut_blocks=[bi])
                        if any(W.blocks[x]['term']['k'] == 'call' and (W.blocks[x]['term'].get('callee') or '').endswith(
                                'IoError::is_interrupted') for x in reach):
                            on_io = True
        if delegates == 0 or not on_io:
            problems.append('the Io variant does not ask the wrapped storage error (a transient storage error is no longer '
                            'retried, or every error is)')
        rep.oblige('R9.9', W.name, ok=not problems, nontrivial=True,
                   sample={'fn': W.name, 'rule': 'Io(e) => e.is_interrupted(), every other variant => false'})
        if problems:
            rep.violation('R9.9', vkey('R9.9', W.name, 'delegation', ''), W.loc(W.span),
                          'Error<T>::is_interrupted does not mirror the wrapped storage error: ' + '; '.join(sorted(set(problems))))
    S = facts.fns.get('<std::io::error::Error as fatfs::error::IoError>::is_interrupted')
    REF = next((f for n, f in facts.fns.items() if n.endswith('::control_ref_errorkind_interrupted')), None)
    if S is None:
        return  # a build without std
    if REF is None:
        rep.machinery('ANCHOR-MISSING witness reference ref_errorkind_interrupted')
        return
    want = None
    for bi in REF.reachable():
        for s in REF.blocks[bi]['stmts']:
            if s['k'] == 'assign' and s['rv']['k'] == 'agg' and s['rv'].get('ak') == 'adt' and 'vi' in s['rv']:
                want = s['rv']['vi']
            c = op_const(s['rv'].get('a', {})) if s['k'] == 'assign' and s['rv']['k'] == 'use' else None
            if c is not None and c.get('val') is not None and place_key(s['lhs']) == (0, ()):
                want = c['val']
    kinds = [(b, t) for b, t in S.calls() if (t.get('callee') or '').endswith('io::error::Error::kind')]
    if want is None or len(kinds) != 1:
        rep.machinery('ANCHOR std::io::Error::is_interrupted: kind() call / reference discriminant not found')
        return
    from decision import decision_table, diff_tables
    kb, kt = kinds[0]
    var = place_key(kt['dest'])

    def classify(w, blk, env, refs, phase):
        if phase == 'exit':
            v = env.get((0, ()))
            return 'unknown' if v is None else ('retry' if v else 'final')
        return None

    rows, _c = decision_table(S, var, {'k': 'int', 'bits': 8, 'signed': False}, kt['ret'], classify, pin=True,
                              extra_consts=(want, ), facts=facts)
    want_tbl = []
    if want > 0:
        want_tbl.append((0, want - 1, frozenset(['final'])))
    want_tbl.append((want, want, frozenset(['retry'])))
    want_tbl.append((want + 1, 255, frozenset(['final'])))
    df = diff_tables(rows, want_tbl)
    undecided = [x for x in df if x[2] is None or 'unknown' in x[2]]
    bad = [x for x in df if x not in undecided]
    rep.oblige('R9.9', S.name, ok=not bad, nontrivial=True,
               sample={'fn': S.name, 'interrupted_discriminant': want, 'table': [(a, b, sorted(o)) for a, b, o in rows][:6]})
    if undecided and not bad:
        rep.notes.append('R9.9: std::io::Error::is_interrupted could not be evaluated for kinds %s' % [(a, b) for a, b, _, _ in undecided][:3])
    if bad:
        rep.violation('R9.9', vkey('R9.9', S.name, 'kinds', ''), S.loc(S.span),
                      'std::io::Error::is_interrupted is not "kind == Interrupted": error kinds with discriminant %s are treated '
                      'as %s (a storage error of such a kind is retried instead of being returned as Error::Io, or a genuine '
                      'interruption is no longer retried)' % (
                          ', '.join('%d..%d' % (a, b) for a, b, _, _ in bad[:4]), '/'.join(sorted(bad[0][2]))))
