"""Whole-crate panic inventory (A8) from every API root except formatting and utilities, shared by the
per-property scopes: C02 (file I/O), C05 (accounting arithmetic), C15 (name path), C20 (offset arithmetic)."""
import re

from rules import panics
from rules.c17 import validated_bpb_fields

SCOPES = {
    'C01': re.compile(r'^<?fatfs::(dir|dir_entry|time)::'),
    'C02': re.compile(r'^(<fatfs::file::File as |fatfs::file::File::)'),
    'C05': re.compile(r'^(fatfs::fs::FileSystem::(alloc_cluster|free_cluster_chain|truncate_cluster_chain|recalc_free_clusters|'
                      r'stats)|fatfs::fs::FsInfoSector::|fatfs::table::(alloc_cluster|count_free_clusters|ClusterIterator::)|'
                      r'<fatfs::table::Fat<\w+> as fatfs::table::FatTrait>::count_free)'),
    'C15': re.compile(r'^(fatfs::dir::(split_path|validate_long_name|ShortNameGenerator::|LfnBuffer::|LfnEntriesGenerator::|'
                      r'Dir::(encode_lfn_utf16|check_for_existence|write_entry|alloc_and_write_lfn_entries|find_free_entries|'
                      r'create_file|create_dir|rename|rename_internal))|<fatfs::dir::LfnEntriesGenerator as |'
                      r'fatfs::dir_entry::(DirEntry::eq_name|ShortName::eq_ignore_case|char_to_uppercase))'),
    'C20': re.compile(r'^(fatfs::boot_sector::BiosParameterBlock::(bytes_from_sectors|sectors_from_clusters|cluster_size|'
                      r'clusters_from_bytes|root_dir_sectors|sectors_per_all_fats|first_data_sector|total_clusters|'
                      r'reserved_sectors|sectors_per_fat|total_sectors)|fatfs::fs::(FileSystem::(offset_from_sector|'
                      r'sector_from_cluster|offset_from_cluster|bytes_from_clusters|clusters_from_bytes|root_dir|alloc_cluster)|'
                      r'fat_slice|DiskSlice::|write_zeros)|<fatfs::fs::DiskSlice as |<fatfs::table::Fat<\w+> as '
                      r'fatfs::table::FatTrait>::(get_raw|set_raw|find_free|count_free)|fatfs::table::(alloc_cluster|'
                      r'count_free_clusters|format_fat)|fatfs::file::File::abs_pos|<fatfs::file::File as fatfs::io::(Read|Write|Seek)>)'),
}


def inventory(ctx):
    col = ctx.cache.get('all_inventory')
    if col is not None:
        return col
    facts = ctx.facts
    roots = [iid for n, iid in sorted(facts.roots.items())
             if n.rsplit('::', 1)[-1].startswith(('root_mount_', 'root_ro_', 'root_mut_', 'root_drop_'))]
    base = validated_bpb_fields(facts)
    col = panics.run_inventory(facts, roots, base_fields=base)
    ctx.cache['all_inventory'] = col
    return col


def run_scope(ctx, rep, prop, rule, note):
    col = inventory(ctx)
    rx = SCOPES[prop]
    table = panics.load_discharge_table()
    classes = panics.report_sites(rep, rule, col, table, scope_pred=lambda fn, site: bool(rx.match(fn.name)), prop_note=note)
    rep.notes.append('%s panic sites in scope by discharge class: %s' % (rule, classes))
    return classes
