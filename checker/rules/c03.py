"""C03 - on-disk consistency after every call (DESIGN.md section 4, R3.1-R3.8; structural necessary conditions).

R3.1 directory clusters are zeroed over their whole length
R3.2 a new directory starts with `.` (its own cluster) and `..` (the parent's, 0 for the root)
R3.3 an allocation that is not yet referenced is released when publishing it fails
R3.5 moving a directory to another parent rewrites its `..` entry            (known finding on the pinned tree)
R3.6 an empty file owns no cluster
R3.7 the free-slot search counts a *contiguous* run: the counter is reset by every used slot
R3.8 truncate terminates the chain before it releases the tail
(R3.4 remove frees chain and slots: rules/c05.py A5.8)
"""
from analyses import Deps, Must, edge_dominates, error_blocks, label_results, switch_source, nonzero_targets, zero_targets
from core import vkey
from model import op_const, op_place, place_key
from rules.c09 import borrow_sites

FS_ALLOC = 'fatfs::fs::FileSystem::alloc_cluster'


def run(ctx, rep):
    facts, eff = ctx.facts, ctx.effects
    # ---------------- R3.1
    A = facts.fns.get(FS_ALLOC)
    if A is None:
        rep.machinery('ANCHOR-MISSING ' + FS_ALLOC)
    else:
        d = Deps(A)
        zs = [(b, t) for b, t in A.calls() if (t.get('callee') or '').endswith('fs::write_zeros')]
        ok = bool(zs)
        why = []
        for b, t in zs:
            toks = d.of_operand(t['args'][1])
            if not any(tk[0] == 'call' and tk[1].endswith(('::cluster_size', '::bytes_from_clusters')) for tk in toks):
                ok = False
                why.append('the zero-fill length does not derive from the cluster size')
            # on the `zero` arm
            guarded = False
            for bi in A.reachable():
                tt = A.blocks[bi]['term']
                if tt['k'] == 'switch':
                    p = op_place(tt['discr'])
                    if p is not None and ('param', 3) in d.of_operand(tt['discr']) and edge_dominates(
                            A, {(bi, x) for x in nonzero_targets(tt)}, b):
                        guarded = True
            if not guarded:
                ok = False
                why.append('zeroing is not controlled by the `zero` argument')
            # seek to the new cluster
            seeks = [(b2, t2) for b2, t2 in A.calls() if (t2.get('callee') or '').endswith('io::Seek::seek')]
            if not any(any(tk[0] == 'call' and tk[1].endswith('::offset_from_cluster') for tk in d.of_operand(t2['args'][1]))
                       for b2, t2 in seeks):
                ok = False
                why.append('no seek to offset_from_cluster(new cluster) before zeroing')
        # ... and on the `zero` arm no Ok exit avoids the zero-fill
        if ok:
            from analyses import Must, error_blocks
            mz = Must(facts, lambda f, b, t, names: (t.get('callee') or '').endswith('fs::write_zeros'))
            cutz = mz.crossing_edges(A, set())
            zero_arm = set()
            for bi in A.reachable():
                tt = A.blocks[bi]['term']
                if tt['k'] == 'switch' and op_place(tt['discr']) is not None and ('param', 3) in d.of_operand(tt['discr']):
                    zero_arm |= set(nonzero_targets(tt))
            if zero_arm:
                reach = A.reach_from(sorted(zero_arm), cut_blocks=error_blocks(A), cut_edges=cutz)
                if any(r in reach for r in A.return_blocks()):
                    ok = False
                    why.append('an Ok exit on the `zero` arm avoids the zero-fill')
        rep.oblige('R3.1', FS_ALLOC, ok=ok, nontrivial=True, sample={'fn': FS_ALLOC, 'problems': why})
        if not ok:
            rep.violation('R3.1', vkey('R3.1', FS_ALLOC, 'zero-fill', ''), A.loc(A.span),
                          'a new directory cluster is not zeroed over its whole length: %s (stale bytes would follow the '
                          'end-of-directory marker)' % '; '.join(why or ['no zero-fill found']))
    CD = facts.fns.get('fatfs::dir::Dir::create_dir')
    FW = facts.fns.get('<fatfs::file::File as fatfs::io::Write>::write')
    if CD is None or FW is None:
        rep.machinery('ANCHOR-MISSING create_dir / File::write')
    else:
        for fn, want in ((CD, 'const-true'), (FW, 'is_dir')):
            d = Deps(fn)
            for b, t in fn.calls():
                if t.get('callee') != FS_ALLOC:
                    continue
                toks = d.of_operand(t['args'][2])
                c = op_const(t['args'][2])
                ok = (c is not None and c.get('val') == 1) if want == 'const-true' else any(
                    tk[0] == 'call' and tk[1].endswith('::is_dir') for tk in toks)
                rep.oblige('R3.1.arg', '%s|bb%d' % (fn.name, b), ok=ok, nontrivial=True)
                if not ok:
                    rep.violation('R3.1', vkey('R3.1', fn.name, 'zero-arg', t['span']['snip']), fn.loc(t['span']),
                                  '%s allocates a cluster for a directory without asking for it to be zeroed' % fn.name)

    # ---------------- R3.2 dot entries
    if CD is not None:
        d = Deps(CD)
        wes = [(b, t) for b, t in CD.calls() if (t.get('callee') or '').endswith('Dir::write_entry')]
        dots = [(b, t) for b, t in CD.calls() if (t.get('callee') or '').endswith('generate_dot')]
        dotdots = [(b, t) for b, t in CD.calls() if (t.get('callee') or '').endswith('generate_dotdot')]
        sfn = [(b, t) for b, t in CD.calls() if (t.get('callee') or '').endswith('Dir::create_sfn_entry')]
        probs = []
        if len(wes) < 3 or not dots or not dotdots:
            probs.append('the three entry writes (entry in the parent, `.`, `..`) were not found')
        else:
            alloc = [b for b, t in CD.calls() if t.get('callee') == FS_ALLOC]
            for b, t in sfn:
                toks = d.of_operand(t['args'][1])
                ctoks = d.of_operand(t['args'][3])
                if any(('callsite', x) in toks for x, _ in dots):
                    if not any(tk[0] == 'call' and tk[1].endswith('::first_cluster') for tk in ctoks) and not any(
                            ('callsite', a) in ctoks for a in alloc):
                        probs.append('`.` does not point at the new directory\'s own cluster')
                if any(('callsite', x) in toks for x, _ in dotdots):
                    if not any(tk[0] == 'call' and tk[1].endswith('::is_root_dir') for tk in d.of_operand(t['args'][3]) |
                               ctoks) and not any(tk[0] == 'call' and tk[1].endswith('::first_cluster') for tk in ctoks):
                        probs.append('`..` does not point at the parent\'s first cluster')
            # `..` cluster: None for the root, parent's first cluster otherwise
            root_sw = False
            for bi in CD.reachable():
                tt = CD.blocks[bi]['term']
                if tt['k'] == 'switch':
                    if any(tk[0] == 'call' and tk[1].endswith('::is_root_dir') for tk in d.of_operand(tt['discr'])):
                        root_sw = True
            if not root_sw:
                probs.append('`..` is not special-cased for a parent that is the root directory')
            # order: `.` written before `..`
            dot_w = [b for b, t in wes if (op_const(t['args'][1]) or {}).get('s', '').strip('"') == '.'] if False else []
        rep.oblige('R3.2', CD.name, ok=not probs, nontrivial=True, sample={'fn': CD.name, 'problems': probs})
        for pr in probs:
            rep.violation('R3.2', vkey('R3.2', CD.name, pr[:30], ''), CD.loc(CD.span), 'new directory: ' + pr)

        # ---------------- R3.3 acquire / release
        lab = label_results(CD)
        alloc = [b for b, t in CD.calls() if t.get('callee') == FS_ALLOC]
        frees = [b for b, t in CD.calls() if (t.get('callee') or '').endswith('free_cluster_chain')]
        first_we = min([b for b, t in wes], default=None, key=lambda b: b)
        ok = False
        if alloc and wes:
            # the publishing write is the first write_entry after the allocation (dominated by its Ok edge)
            a = alloc[0]
            pubs = [b for b, t in wes if lab.get(a) and edge_dominates(CD, lab[a]['ok'], b)]
            pub = None
            for b in pubs:
                if all(b == o or not edge_dominates(CD, lab[o]['ok'], b) for o in pubs if lab.get(o) and lab[o]['status'] == 'labelled'):
                    pub = b
            if pub is not None and lab.get(pub) and lab[pub]['status'] == 'labelled':
                # every path from the Err edge of the publishing write to the function exit crosses a release
                starts = [tgt for (_, tgt) in lab[pub]['err']]
                reach = CD.reach_from(starts, cut_blocks=frees)
                ok = bool(frees) and not [r for r in CD.return_blocks() if r in reach]
        rep.oblige('R3.3', CD.name, ok=ok, nontrivial=True)
        if not ok:
            rep.violation('R3.3', vkey('R3.3', CD.name, 'release-on-failure', ''), CD.loc(CD.span),
                          'create_dir allocates the new directory\'s cluster and, when writing the entry into the parent '
                          'fails, returns without releasing it (a lost cluster)')

    # ---------------- R3.5 `..` of a moved directory
    RN = facts.fns.get('fatfs::dir::Dir::rename_internal')
    if RN is not None:
        ids = facts.insts_of.get(RN.name, [])
        reach = facts.reach_from_insts(ids) if ids else set()
        has = any(facts.instances[i]['fn'].endswith('generate_dotdot') for i in reach)
        rep.oblige('R3.5', RN.name, ok=has, nontrivial=True)
        if not has:
            rep.violation('R3.5', vkey('R3.5', RN.name, 'dotdot', ''), RN.loc(RN.span),
                          'rename can move a directory entry into another parent but never rewrites the moved '
                          'directory\'s `..` entry (sibling create_dir does write it): `b/sub/..` keeps pointing at `a`')

    # ---------------- R3.6 empty file owns no cluster
    TR = facts.fns.get('fatfs::file::File::truncate')
    if TR is not None:
        d = Deps(TR)
        ok = False
        for b, t in TR.calls():
            if (t.get('callee') or '').endswith('DirEntryEditor::set_first_cluster'):
                for bi in TR.reachable():
                    tt = TR.blocks[bi]['term']
                    if tt['k'] == 'switch':
                        src = switch_source(TR, bi)
                        if src and src['kind'] == 'binop' and src['op'] in ('Eq', 'Ne'):
                            toks = d.of_operand(src['a']) | d.of_operand(src['b'])
                            if ('field', 'offset') in toks and ('const', 0) in toks:
                                arm = nonzero_targets(tt) if src['op'] == 'Eq' else zero_targets(tt)
                                if edge_dominates(TR, {(bi, x) for x in arm}, b):
                                    from rules.c05 import is_none_value
                                    p = op_place(t['args'][1])
                                    ok = True
        rep.oblige('R3.6', TR.name, ok=ok, nontrivial=True)
        if not ok:
            rep.violation('R3.6', vkey('R3.6', TR.name, 'first-cluster-none', ''), TR.loc(TR.span),
                          'truncating at offset 0 does not clear the entry\'s first cluster')

    # ---------------- R3.9 long-name slots: unused units are 0xFFFF after a single 0x0000 terminator
    LG = facts.fns.get('<fatfs::dir::LfnEntriesGenerator as core::iter::traits::iterator::Iterator>::next')
    # (the build without `lfn` has a stub generator that yields nothing)
    if LG is not None and 'fatfs::dir::MAX_LONG_DIR_ENTRIES' in facts.consts:
        part_len = facts.consts.get('fatfs::dir_entry::LFN_PART_LEN', {}).get('val', 13)
        pads = []
        for bi in LG.reachable():
            for s_ in LG.blocks[bi]['stmts']:
                if s_['k'] == 'assign' and s_['rv']['k'] == 'repeat':
                    c = op_const(s_['rv']['a'])
                    if s_['rv'].get('n') == part_len:
                        pads.append((s_['lhs']['l'], c.get('val') if c else None, s_['rv'].get('n')))
        buf = [l for l, v, n in pads if v == 0xFFFF]
        term = False
        dd = Deps(LG)
        for bi in LG.reachable():
            for s_ in LG.blocks[bi]['stmts']:
                if s_['k'] == 'assign' and s_['lhs']['p'] and any('idx' in e for e in s_['lhs']['p']) and s_['lhs']['l'] in buf \
                        and s_['rv']['k'] == 'use' and op_const(s_['rv']['a']) is not None and op_const(s_['rv']['a']).get('val') == 0:
                    term = True
        ok = bool(buf) and term
        rep.oblige('R3.9', LG.name, ok=ok, nontrivial=True, sample={'fn': LG.name, 'pad_buffers': pads, 'terminator': term})
        if not ok:
            rep.violation('R3.9', vkey('R3.9', LG.name, 'lfn-padding', ''), LG.loc(LG.span),
                          'long-name slots must be filled with 0xFFFF behind a single 0x0000 terminator (found part buffers '
                          '%s, terminator store: %s): other implementations reject or mis-decode such names' % (pads, term))

    # ---------------- R3.7 contiguous run counter
    FF = facts.fns.get('fatfs::dir::Dir::find_free_entries')
    if FF is None:
        rep.machinery('ANCHOR-MISSING find_free_entries')
    else:
        d = Deps(FF)
        # counter: the local compared (Eq) with the parameter num_entries
        counter = None
        for bi in FF.reachable():
            t = FF.blocks[bi]['term']
            if t['k'] == 'switch':
                src = switch_source(FF, bi)
                if src and src['kind'] == 'binop' and src['op'] in ('Eq', 'Ge'):
                    for x, y in ((src['a'], src['b']), (src['b'], src['a'])):
                        if ('param', 2) in d.of_operand(y):
                            p = op_place(x)
                            if p is not None:
                                c = p['l']
                                # follow the copy back to the named local
                                for bj in FF.reachable():
                                    for s in FF.blocks[bj]['stmts']:
                                        if s['k'] == 'assign' and s['lhs']['l'] == c and s['rv']['k'] == 'use':
                                            q = op_place(s['rv']['a'])
                                            if q is not None and not q['p'] and FF.locals[q['l']].get('name'):
                                                counter = q['l']
                                if counter is None and FF.locals[c].get('name'):
                                    counter = c
        ok = False
        detail = ''
        if counter is None:
            rep.machinery('ANCHOR find_free_entries: run counter (local compared with num_entries) not found')
        else:
            incs, resets = set(), set()
            for bi in FF.reachable():
                for s in FF.blocks[bi]['stmts']:
                    if s['k'] == 'assign' and s['lhs']['l'] == counter and not s['lhs']['p']:
                        rv = s['rv']
                        if rv['k'] == 'use' and (op_const(rv['a']) or {}).get('val') == 0:
                            resets.add(bi)
                        elif rv['k'] == 'use' and op_place(rv['a']) is not None:
                            incs.add(bi)  # result of the checked add
                        elif rv['k'] == 'binop':
                            incs.add(bi)
            loops = FF.loops()
            ok = bool(incs) and bool(loops)
            reads = [b for b, t in FF.calls() if (t.get('callee') or '').endswith('DirEntryData::deserialize')]
            for h, body in loops.items():
                tails = [t for t, hh in FF.back_edges() if hh == h]
                inner_resets = {r for r in resets if r in body}
                # a loop iteration that neither extends the run nor resets the counter lets a run span used slots
                reach = FF.reach_from([h], cut_blocks=incs | inner_resets)
                if any(t in reach for t in tails):
                    ok = False
                    detail = 'an iteration can reach the next slot without incrementing or resetting the run counter'
        rep.oblige('R3.7', FF.name, ok=ok, nontrivial=True,
                   sample={'fn': FF.name, 'run_counter': FF.locals[counter].get('name') if counter is not None else None})
        if not ok and counter is not None:
            rep.violation('R3.7', vkey('R3.7', FF.name, 'run-reset', ''), FF.loc(FF.span),
                          'the free-slot search does not reset its run counter on a used slot: %s; the `run` of free slots '
                          'can then span live entries, which are overwritten by the new entry' % detail)

    # ---------------- R3.7b the run is long enough exactly when it has `num_entries` slots, the current one included
    if FF is not None and counter is not None:
        ok_b = False
        found = 0
        why_b = 'no comparison of the run counter with the number of entries needed was found'
        heads = list(FF.loops())
        for bi in FF.reachable():
            t = FF.blocks[bi]['term']
            if t['k'] != 'switch':
                continue
            src = switch_source(FF, bi)
            if not (src and src['kind'] == 'binop' and src['op'] in ('Eq', 'Ge', 'Le', 'Gt', 'Lt', 'Ne')):
                continue
            for x, y in ((src['a'], src['b']), (src['b'], src['a'])):
                if ('param', 2) not in d.of_operand(y) or ('local', counter) not in d.of_operand(x) | {('local', (op_place(x) or {}).get('l'))}:
                    continue
                found += 1
                # the compared value: a plain copy of the counter, or counter + 1 computed on the side
                px = op_place(x)
                plain = px is not None and not px['p'] and (px['l'] == counter or any(
                    s_['k'] == 'assign' and s_['lhs']['l'] == px['l'] and s_['rv']['k'] == 'use' and
                    (op_place(s_['rv']['a']) or {}).get('l') == counter and not (op_place(s_['rv']['a']) or {'p': 1})['p']
                    for bj in FF.reachable() for s_ in FF.blocks[bj]['stmts']))
                if not plain:
                    ok_b = True  # `counter + 1 == needed` style: the current slot is added in the comparison itself
                    continue
                cmp_blk = src.get('blk', bi)
                # every path from the loop head to the comparison passes the increment for the current slot
                dominated = all(cmp_blk not in FF.reach_from([h], cut_blocks=incs) or cmp_blk in incs for h in heads)
                # ... or the comparison block itself increments before it compares
                if cmp_blk in incs:
                    stmts = FF.blocks[cmp_blk]['stmts']
                    inc_i = max(i for i, s_ in enumerate(stmts) if s_['k'] == 'assign' and s_['lhs']['l'] == counter)
                    cmp_i = max((i for i, s_ in enumerate(stmts) if s_['k'] == 'assign' and s_['rv']['k'] == 'binop' and
                                 s_['rv']['op'] == src['op']), default=len(stmts))
                    dominated = inc_i < cmp_i
                if dominated:
                    ok_b = True
                else:
                    ok_b = False
                    why_b = ('the run counter is compared with the number of slots needed before it has been incremented for '
                             'the current free slot: a run is accepted only when it is one slot longer than needed, so an '
                             'exactly fitting hole (e.g. in a full fixed-size root directory) is reported as no space')
                    break
        rep.oblige('R3.7b', FF.name, ok=ok_b, nontrivial=True,
                   sample={'fn': FF.name, 'comparisons': found, 'rule': 'increment for the current slot precedes the sufficiency test'})
        if not ok_b:
            rep.violation('R3.7b', vkey('R3.7b', FF.name, 'count-current-slot', ''), FF.loc(FF.span), why_b)

    # ---------------- R3.7c the start of the run is taken only when the run is empty
    if FF is not None and counter is not None:
        from model import operands_of_rvalue
        # the run start: the named variable(s) the final position is computed from (through unnamed temporaries only)
        def named_sources(o, depth=0, seen=None):
            seen = seen if seen is not None else set()
            p = op_place(o)
            if p is None or depth > 10 or p['l'] in seen:
                return set()
            seen.add(p['l'])
            if FF.locals[p['l']].get('name') and not (1 <= p['l'] <= FF.argc):
                asg_ = [bj for bj in FF.reachable() for s_ in FF.blocks[bj]['stmts']
                        if s_['k'] == 'assign' and s_['lhs']['l'] == p['l'] and not s_['lhs']['p']]
                asg_ += [bj for bj in FF.reachable() if FF.blocks[bj]['term']['k'] == 'call' and
                         FF.blocks[bj]['term']['dest']['l'] == p['l'] and not FF.blocks[bj]['term']['dest']['p']]
                if len(asg_) != 1 or asg_[0] in loop_blocks:
                    return {p['l']}  # a variable the loop maintains
                # a named value computed once on the way out (`let pos = first_free * 32`): look through it
            out = set()
            for bj in FF.reachable():
                for s_ in FF.blocks[bj]['stmts']:
                    if s_['k'] == 'assign' and s_['lhs']['l'] == p['l'] and not s_['lhs']['p']:
                        for o2 in operands_of_rvalue(s_['rv']):
                            out |= named_sources(o2, depth + 1, seen)
                tt_ = FF.blocks[bj]['term']
                if tt_['k'] == 'call' and tt_['dest']['l'] == p['l'] and not tt_['dest']['p'] and \
                        (tt_.get('callee') or '').endswith(('From::from', 'Into::into')):
                    for o2 in tt_['args']:
                        out |= named_sources(o2, depth + 1, seen)
            return out

        loop_blocks = set()
        for body_ in FF.loops().values():
            loop_blocks |= set(body_)
        starts = set()
        for b_, t_ in FF.calls():
            if (t_.get('callee') or '').endswith('io::Seek::seek') and len(t_['args']) > 1 and b_ not in loop_blocks | set():
                starts |= named_sources(t_['args'][1])
        for b_, t_ in FF.calls():
            if (t_.get('callee') or '').endswith('io::Seek::seek') and len(t_['args']) > 1:
                srcs_ = named_sources(t_['args'][1])
                # a seek inside the loop that ends the search (it is followed by a return without another iteration)
                starts |= {x for x in srcs_ if x != counter}
        starts.discard(counter)
        # tests `counter == 0`
        zero_edges = set()
        for bi in FF.reachable():
            t = FF.blocks[bi]['term']
            if t['k'] != 'switch':
                continue
            src = switch_source(FF, bi)
            if src and src['kind'] == 'binop' and src['op'] in ('Eq', 'Ne'):
                ca, cb = op_const(src['a']), op_const(src['b'])
                other = src['a'] if cb is not None else src['b']
                cz = cb if cb is not None else ca
                if cz is not None and cz.get('val') == 0 and ('local', counter) in d.of_operand(other) | {('local', (op_place(other) or {}).get('l'))}:
                    zero_edges |= {(bi, x) for x in (nonzero_targets(t) if src['op'] == 'Eq' else zero_targets(t))}
        bad_c = None
        n_assign = 0
        in_or_after = FF.reach_from(list(FF.loops().keys())) if FF.loops() else set()
        for S in sorted(starts):
            for bi in sorted(in_or_after):
                for s_ in FF.blocks[bi]['stmts']:
                    if s_['k'] == 'assign' and not s_['lhs']['p'] and s_['lhs']['l'] == S:
                        n_assign += 1
                        if not (zero_edges and edge_dominates(FF, zero_edges, bi)) and bi not in resets:
                            bad_c = (S, s_)
        if starts and n_assign:
            rep.oblige('R3.7c', FF.name, ok=bad_c is None, nontrivial=True,
                       sample={'fn': FF.name, 'run_start': [FF.locals[x].get('name') for x in sorted(starts)], 'assignments_in_loop': n_assign})
            if bad_c is not None:
                rep.violation('R3.7c', vkey('R3.7c', FF.name, 'run-start', ''), FF.loc(bad_c[1]['span']),
                              'the free-slot search moves the start of the run (`%s`) although the run is not empty (no `%s == 0` test '
                              'on the way): deleted slots in front of the current one are dropped from the run, so a hole that fits is '
                              'reported as no space - or the entry set is written over the slots that follow' %
                              (FF.locals[bad_c[0]].get('name'), FF.locals[counter].get('name')))

    # ---------------- R3.10 a new cluster is terminated before it is linked into a chain
    TA = facts.fns.get('fatfs::table::alloc_cluster')
    if TA is None:
        rep.machinery('ANCHOR-MISSING fatfs::table::alloc_cluster')
    else:
        dta = Deps(TA)
        eoc, link = [], []
        for b, t in TA.calls():
            if not (t.get('callee') or '').endswith('table::write_fat') or len(t['args']) < 4:
                continue
            toks = dta.of_operand(t['args'][3])
            if any(tk[0] == 'ctor' and tk[1].endswith('FatValue::EndOfChain') for tk in toks):
                eoc.append(b)
            if any(tk[0] == 'ctor' and tk[1].endswith('FatValue::Data') for tk in toks):
                link.append(b)
        ok = bool(eoc) and bool(link) and all(lb not in TA.reach_from([0], cut_blocks=eoc) for lb in link)
        rep.oblige('R3.10', TA.name, ok=ok, nontrivial=True,
                   sample={'fn': TA.name, 'end_of_chain_writes': len(eoc), 'link_writes': len(link),
                           'rule': 'the write that links the predecessor to the new cluster is dominated by the write that marks '
                                   'the new cluster end-of-chain'})
        if not eoc or not link:
            rep.machinery('ANCHOR table::alloc_cluster: end-of-chain / link writes not found (%d / %d)' % (len(eoc), len(link)))
        elif not ok:
            rep.violation('R3.10', vkey('R3.10', TA.name, 'terminate-before-link', ''), TA.loc(TA.span),
                          'the predecessor is linked to the new cluster before the new cluster has been marked end-of-chain: if '
                          'the second table write fails, a chain points at a cluster that is still free (and still the next '
                          'allocation candidate), so two files end up sharing it')

    # ---------------- R3.11 the first cluster of a file is recorded before the next fallible device operation
    FW = facts.fns.get('<fatfs::file::File as fatfs::io::Write>::write')
    if FW is None:
        rep.machinery('ANCHOR-MISSING <File as Write>::write')
    else:
        from analyses import contains_dev_result
        dfw = Deps(FW)
        allocs = [(b, t) for b, t in FW.calls() if (t.get('callee') or '').endswith('FileSystem::alloc_cluster')]
        pubs = {b for b, t in FW.calls() if (t.get('callee') or '').endswith('::set_first_cluster')}
        for bi in FW.reachable():
            for s_ in FW.blocks[bi]['stmts']:
                if s_['k'] == 'assign' and s_['lhs']['p'] and [e.get('n') for e in s_['lhs']['p'] if 'f' in e][-1:] == ['first_cluster']:
                    pubs.add(bi)
        devcalls = {b for b, t in FW.calls() if t.get('ret') is not None and b not in {a for a, _ in allocs} and
                    contains_dev_result(FW.types, t['dest_ty']) and eff.fn_reaches_dev(FW.name, b)}
        ok11 = bool(allocs) and bool(pubs)
        why11 = ''
        for ab, at in allocs:
            region = FW.reach_from([at['ret']], cut_blocks=devcalls)
            good = False
            # unconditional: nothing fallible is reachable without passing the store
            if not (set(FW.reach_from([at['ret']], cut_blocks=pubs)) & devcalls):
                good = True
            for bi in region:
                t = FW.blocks[bi]['term']
                if t['k'] != 'switch' or good:
                    continue
                src = switch_source(FW, bi)
                none_arms = None
                if src and src['kind'] == 'call' and (src.get('callee') or '').endswith(('Option::is_none', 'Option::is_some')):
                    tk = set()
                    for a in src['term']['args']:
                        tk |= dfw.of_operand(a)
                    if ('field', 'first_cluster') in tk:
                        none_arms = nonzero_targets(t) if src['callee'].endswith('is_none') else zero_targets(t)
                elif src and src['kind'] == 'discr' and any(e.get('n') == 'first_cluster' for e in src['place']['p'] if 'f' in e):
                    none_arms = [tb for v, tb in t['targets'] if v == 0]
                if none_arms:
                    after = set(FW.reach_from(list(none_arms), cut_blocks=pubs))
                    if not (after & devcalls) and (set(FW.reach_from(list(none_arms))) & pubs):
                        good = True
            if not good:
                ok11 = False
                why11 = ('after a cluster has been allocated for a file that has none, a fallible device operation can run before '
                         'the cluster is recorded as the file\'s first cluster: if it fails, the cluster stays allocated but '
                         'belongs to no file (remove / truncate / close never release it)')
        rep.oblige('R3.11', FW.name, ok=ok11, nontrivial=True,
                   sample={'fn': FW.name, 'alloc_sites': len(allocs), 'publish_sites': len(pubs), 'fallible_device_calls': len(devcalls)})
        if not allocs or not pubs:
            rep.machinery('ANCHOR File::write: alloc_cluster / set_first_cluster sites not found')
        elif not ok11:
            rep.violation('R3.11', vkey('R3.11', FW.name, 'publish-first-cluster', ''), FW.loc(FW.span), why11)

    # ---------------- R3.8 truncate order
    CT = facts.fns.get('fatfs::table::ClusterIterator::truncate')
    if CT is None:
        rep.machinery('ANCHOR-MISSING ClusterIterator::truncate')
    else:
        d = Deps(CT)
        eoc = [b for b, t in CT.calls() if t.get('callee') == 'fatfs::table::write_fat' and any(
            tk[0] == 'ctor' and tk[1].endswith('EndOfChain') for tk in d.of_operand(t['args'][3]))]
        frees = [b for b, t in CT.calls() if (t.get('callee') or '').endswith('ClusterIterator::free')]
        m = Must(facts, lambda f, b, t, names: b in eoc)
        cut = m.crossing_edges(CT, set())
        before = CT.reach_from([0], cut_edges=cut)
        ok = bool(eoc) and bool(frees) and not [f for f in frees if f in before]
        rep.oblige('R3.8', CT.name, ok=ok, nontrivial=True)
        if not ok:
            rep.violation('R3.8', vkey('R3.8', CT.name, 'order', ''), CT.loc(CT.span),
                          'truncate releases the tail of the chain before the kept cluster has been marked end-of-chain: '
                          'a failure in between leaves the file linked to free (reusable) clusters')


# ---------------------------------------------------------------------------------------------
# R3.12  no link of the table is overwritten blindly: a cluster is appended after `prev` (alloc_cluster(Some(prev)) stores the
#        new cluster number in prev's entry) only where prev's successor has been looked up in the FAT on the way

def run_blind_link(ctx, rep):
    facts = ctx.facts
    n = 0
    for fn in facts.fns.values():
        if fn.crate != 'fatfs':
            continue
        sites = [(b, t) for b, t in fn.calls() if (t.get('callee') or '') == 'fatfs::fs::FileSystem::alloc_cluster' and len(t['args']) > 1]
        for b, t in sites:
            prev = t['args'][1]
            pp = op_place(prev)
            if pp is None:
                continue
            # where does `prev` come from?  the constant None (a new chain) needs no lookup
            src = None
            l = pp['l']
            if pp['p']:
                src = pp
            else:
                for bi in fn.reachable():
                    for s in fn.blocks[bi]['stmts']:
                        if s['k'] == 'assign' and not s['lhs']['p'] and s['lhs']['l'] == l:
                            rv = s['rv']
                            if rv['k'] == 'use' and op_place(rv['a']) is not None:
                                src = op_place(rv['a'])
                            elif rv['k'] == 'agg' and rv.get('variant') == 'None':
                                src = 'none'
                            else:
                                src = src or 'other'
            if src == 'none' or src is None:
                continue
            n += 1
            # edges on which the remembered cluster is known to be None: switches over the discriminant of the same place
            none_edges = set()
            lookups = set()
            for bi in fn.reachable():
                tt = fn.blocks[bi]['term']
                if tt['k'] == 'call' and (tt.get('callee') or '').endswith('Iterator::next') and tt['args']:
                    ap = op_place(tt['args'][0])
                    ty = fn.local_ty(ap['l']) if ap is not None else None
                    for _ in range(3):
                        if ty is not None and ty.get('k') in ('ref', 'ptr'):
                            ty = fn.types[ty['to']]
                    if ty is not None and (ty.get('path') or '').endswith('ClusterIterator'):
                        lookups.add(bi)
                if tt['k'] == 'call' and (tt.get('callee') or '').endswith('::get_next_cluster'):
                    lookups.add(bi)
                if tt['k'] != 'switch':
                    continue
                ss = switch_source(fn, bi)
                if ss and ss.get('kind') == 'discr' and isinstance(src, dict) and \
                        [e.get('n') for e in ss['place']['p'] if 'f' in e] == [e.get('n') for e in src['p'] if 'f' in e] and \
                        [e.get('n') for e in src['p'] if 'f' in e]:
                    for tgt in zero_targets(tt):
                        none_edges.add((bi, tgt))
            reach = fn.reach_from([0], cut_blocks=lookups, cut_edges=none_edges)
            ok = b not in reach
            rep.oblige('R3.12', '%s|bb%d' % (fn.name, b), ok=ok, nontrivial=True,
                       sample={'fn': fn.name, 'at': fn.loc(t['span']), 'lookups': len(lookups), 'none_edges': len(none_edges)})
            if not ok:
                rep.violation('R3.12', vkey('R3.12', fn.name, 'blind-link', ''), fn.loc(t['span']),
                              '%s can append a new cluster after the remembered one without having looked up that cluster\'s '
                              'successor in the FAT on the way (`%s`): alloc_cluster overwrites the link, so a chain that continues '
                              '- after a failed earlier write, or on a volume whose chain is longer than the recorded size - loses its '
                              'tail (clusters that stay allocated and belong to no file)' % (fn.name, t['span']['snip'][:70]))
    rep.counts['R3.12.sites'] = n


_run_r3 = run


def run(ctx, rep):
    _run_r3(ctx, rep)
    run_blind_link(ctx, rep)


# ---------------------------------------------------------------------------------------------
# R3.13  the first cluster of a file is recorded twice - in the handle (`File.first_cluster`) and in the directory entry the
#        handle writes back (`DirEntryEditor::set_first_cluster`): a function that stores one stores the other, with the same
#        kind of value (none / some cluster)

def run_first_cluster_pair(ctx, rep):
    from analyses import place_prefix_type
    facts = ctx.facts
    n = 0
    for fn in facts.fns.values():
        if fn.crate != 'fatfs':
            continue
        stores = []
        for bi in sorted(fn.reachable()):
            for s in fn.blocks[bi]['stmts']:
                if s['k'] != 'assign' or not s['lhs']['p'] or s['lhs']['p'][-1].get('n') != 'first_cluster':
                    continue
                owner = place_prefix_type(fn, s['lhs'], len(s['lhs']['p']) - 1)
                if not owner or not (owner.get('path') or '').endswith('file::File'):
                    continue
                kind = None
                rv = s['rv']
                defs_ = None
                if rv['k'] == 'agg':
                    kind = 'none' if rv.get('variant') == 'None' else 'some'
                elif rv['k'] == 'use' and op_place(rv['a']) is not None and not op_place(rv['a'])['p']:
                    l0 = op_place(rv['a'])['l']
                    for b2 in fn.reachable():
                        for s2 in fn.blocks[b2]['stmts']:
                            if s2['k'] == 'assign' and not s2['lhs']['p'] and s2['lhs']['l'] == l0 and s2['rv']['k'] == 'agg':
                                kind = 'none' if s2['rv'].get('variant') == 'None' else 'some'
                stores.append((bi, s, kind))
        if not stores:
            continue
        ed = []
        d = Deps(fn)
        for b, t in fn.calls():
            c = t.get('callee') or ''
            if c.endswith('DirEntryEditor::set_first_cluster') and len(t['args']) > 1:
                toks = d.of_operand(t['args'][1])
                k = 'none' if any(tk[0] == 'ctor' and tk[1].endswith('Option::None') for tk in toks) and \
                    not any(tk[0] == 'ctor' and tk[1].endswith('Option::Some') for tk in toks) and ('field', 'first_cluster') not in toks else 'some'
                ed.append(k)
            elif c.endswith('File::set_first_cluster'):
                ed.append('some')
        for bi, s, kind in stores:
            n += 1
            ok = kind is None or kind in ed or (kind == 'some' and 'some' in ed)
            rep.oblige('R3.13', '%s|bb%d' % (fn.name, bi), ok=ok, nontrivial=True, sample={'fn': fn.name, 'at': fn.loc(s['span']), 'stores': kind, 'entry updates': ed})
            if not ok:
                rep.violation('R3.13', vkey('R3.13', fn.name, 'first-cluster-pair', kind or ''), fn.loc(s['span']),
                              '%s changes the handle\'s first cluster (to %s) but not the first cluster of the directory entry the '
                              'handle writes back: the entry keeps pointing at a cluster the handle has given up (it is freed, later '
                              'reused by another file: two entries share one cluster)' % (fn.name, kind))
    rep.counts['R3.13.sites'] = n


_run_r3b = run


def run(ctx, rep):
    _run_r3b(ctx, rep)
    run_first_cluster_pair(ctx, rep)
