"""C18 - timestamps: stamping rules (DESIGN.md section 4, R18.1-R18.5; the bit-packing round trip is arithmetic
and not decided here).

R18.1 one clock: the time provider is only consulted through options.time_provider; the system clock only from the
      chrono provider
R18.2 who may stamp: created / modified / accessed are set only by entry creation, the public setters, the
      post-write update (modified) and File::read under the access-date option (accessed)
R18.3 a successful non-empty write stamps the modification time from the clock
R18.4 rename keeps the entry body: the renamed entry is a clone with only the name replaced
R18.5 the editor's "unchanged" test covers every stored field of the timestamp it guards
"""
import re
from analyses import Deps, Must, edge_dominates, error_blocks, switch_source
from core import vkey
from model import op_const, op_place, operands_of_rvalue

EDITOR = 'fatfs::dir_entry::DirEntryEditor'
DATA = 'fatfs::dir_entry::DirFileEntryData'
ALLOWED_CALLERS = {
    EDITOR + '::set_created': {'fatfs::file::File::set_created'},
    EDITOR + '::set_modified': {'fatfs::file::File::set_modified', 'fatfs::file::File::update_dir_entry_after_write'},
    EDITOR + '::set_accessed': {'fatfs::file::File::set_accessed', '<fatfs::file::File as fatfs::io::Read>::read'},
    DATA + '::set_created': {EDITOR + '::set_created', 'fatfs::dir::Dir::create_sfn_entry'},
    DATA + '::set_modified': {EDITOR + '::set_modified', 'fatfs::dir::Dir::create_sfn_entry'},
    DATA + '::set_accessed': {EDITOR + '::set_accessed', 'fatfs::dir::Dir::create_sfn_entry'},
}


def callers_of(facts, name):
    out = set()
    for iid in facts.insts_of.get(name, []):
        for a, bb, k in facts.in_edges[iid]:
            out.add(facts.instances[a]['fn'])
    return out


def fields_written(fn):
    out = set()
    for bi in fn.reachable():
        for s in fn.blocks[bi]['stmts']:
            if s['k'] == 'assign' and s['lhs']['p']:
                names = [e.get('n') for e in s['lhs']['p'] if 'f' in e and e.get('n')]
                if names and not names[-1].isdigit():
                    out.add(names[-1])
    return out


def fields_read(facts, fn, depth=0, seen=None):
    seen = seen or set()
    if fn.name in seen or depth > 3:
        return set()
    seen.add(fn.name)
    out = set()
    for bi in fn.reachable():
        for s in fn.blocks[bi]['stmts']:
            if s['k'] == 'assign':
                from model import places_read_by_rvalue
                for p in places_read_by_rvalue(s['rv']):
                    names = [e.get('n') for e in p['p'] if 'f' in e and e.get('n')]
                    out |= {n for n in names if not n.isdigit()}
        t = fn.blocks[bi]['term']
        if t['k'] == 'call':
            c = facts.fns.get(t.get('callee') or '')
            if c is not None and c.crate == 'fatfs':
                out |= fields_read(facts, c, depth + 1, seen)
    return out


def run(ctx, rep):
    run_bit_layout(ctx, rep)
    facts, eff = ctx.facts, ctx.effects
    fat = [f for f in facts.fns.values() if f.crate == 'fatfs']
    # ---------------- R18.1
    n = 0
    for fn in fat:
        d = None
        for b, t in fn.calls():
            c = t.get('callee') or ''
            if c.endswith(('TimeProvider::get_current_date', 'TimeProvider::get_current_date_time')):
                if fn.impl_trait == 'fatfs::time::TimeProvider':
                    continue  # a provider delegating to itself
                d = d or Deps(fn)
                n += 1
                ok = ('field', 'time_provider') in d.of_operand(t['args'][0])
                rep.oblige('R18.1', '%s|bb%d' % (fn.name, b), ok=ok, nontrivial=True)
                if not ok:
                    rep.violation('R18.1', vkey('R18.1', fn.name, 'clock', t['span']['snip']), fn.loc(t['span']),
                                  '%s reads a clock that is not the configured options.time_provider' % fn.name)
    if n < 3:
        rep.machinery('FLOOR only %d clock reads found (confirmed: create_sfn_entry, update_dir_entry_after_write, File::read)' % n)
    for i in facts.instances:
        if i['fn'].startswith(('chrono::offset::local::Local::now', '<chrono::offset::local::Local as')) or i['fn'] == 'std::time::SystemTime::now':
            for a, bb, k in facts.in_edges[i['id']]:
                cn = facts.instances[a]['fn']
                if cn.startswith(('fatfs::', '<fatfs::')):
                    ok = 'ChronoTimeProvider' in cn
                    rep.oblige('R18.1.sys', cn, ok=ok)
                    if not ok:
                        f = facts.fns.get(cn)
                        rep.violation('R18.1', vkey('R18.1', cn, 'system-clock', ''), f.loc(f.span) if f else cn,
                                      '%s reads the system clock directly instead of the configured time provider' % cn)

    # ---------------- R18.2
    for callee, allowed in sorted(ALLOWED_CALLERS.items()):
        if callee not in facts.fns:
            rep.machinery('ANCHOR-MISSING ' + callee)
            continue
        # a closure is code of the function that defines it
        cs = {re.sub(r'(::\{closure#\d+\})+$', '', c) for c in callers_of(facts, callee) if c.startswith(('fatfs::', '<fatfs::'))}
        allowed = set(allowed)
        if 'fatfs::file::File::update_dir_entry_after_write' in allowed and \
                'fatfs::file::File::update_dir_entry_after_write' not in facts.fns:
            allowed.add('<fatfs::file::File as fatfs::io::Write>::write')  # the update was merged into write()
        extra = cs - allowed
        rep.oblige('R18.2', callee, ok=not extra, nontrivial=True, sample={'setter': callee, 'callers': sorted(cs)})
        for e in sorted(extra):
            f = facts.fns.get(e)
            rep.violation('R18.2', vkey('R18.2', e, callee.rsplit('::', 1)[-1], ''), f.loc(f.span) if f else e,
                          '%s sets a timestamp (%s) although only entry creation, the public setter%s may' % (
                              e, callee.rsplit('::', 1)[-1],
                              {'set_modified': ' and the post-write update', 'set_accessed': ' and File::read under the '
                               'access-date option'}.get(callee.rsplit('::', 1)[-1], '')))
    # accessed on read only under the option
    RD = facts.fns.get('<fatfs::file::File as fatfs::io::Read>::read')
    if RD is not None:
        from rules.c13 import option_guarded_blocks
        g = option_guarded_blocks(RD, 'update_accessed_date', 'FsOptions')
        sites = [b for b, t in RD.calls() if (t.get('callee') or '') == EDITOR + '::set_accessed']
        ok = bool(sites) and all(b in g for b in sites)
        rep.oblige('R18.2.read', RD.name, ok=ok, nontrivial=True)
        if not ok:
            rep.violation('R18.2', vkey('R18.2', RD.name, 'accessed-option', ''), RD.loc(RD.span),
                          'File::read stamps the access date without the update_accessed_date option')

    # ---------------- R18.3
    W = facts.fns.get('<fatfs::file::File as fatfs::io::Write>::write')
    U = facts.fns.get('fatfs::file::File::update_dir_entry_after_write')
    merged = False
    if U is None and W is not None and any((t.get('callee') or '') == EDITOR + '::set_modified' for b, t in W.calls()):
        U, merged = W, True  # the post-write update was merged into write(): the stamp itself is the must-call
    if W is None or U is None:
        rep.machinery('ANCHOR-MISSING File::write / update_dir_entry_after_write')
    else:
        if merged:
            m = Must(facts, lambda f, b, t, names: (t.get('callee') or '') == EDITOR + '::set_modified')
            cut = {(b, x) for b, t in W.calls() if (t.get('callee') or '') == EDITOR + '::set_modified' for x in W.succ(b)}
            # a file without a directory entry (the root directory stream) has nothing to stamp
            from analyses import switch_source as _ss
            for bi in W.reachable():
                tt = W.blocks[bi]['term']
                if tt['k'] == 'switch':
                    src = _ss(W, bi)
                    if src and src['kind'] == 'discr' and [e.get('n') for e in src['place']['p'] if 'f' in e][-1:] == ['entry']:
                        some = [x for v, x in tt['targets'] if v == 1]
                        cut |= {(bi, x) for x in W.succ(bi) if x not in some}
        else:
            m = Must(facts, lambda f, b, t, names: U.name in names)
            cut = m.crossing_edges(W, set())
        # exits that report 0 bytes are exempt: assignments `_0 = Ok(const 0)`
        zero_exits = set()
        for bi in W.reachable():
            for s in W.blocks[bi]['stmts']:
                if s['k'] == 'assign' and s['lhs']['l'] == 0 and s['rv']['k'] == 'agg' and s['rv'].get('variant') == 'Ok':
                    from model import op_const
                    c = op_const(s['rv']['ops'][0]) if s['rv']['ops'] else None
                    if c is not None and c.get('val') == 0:
                        zero_exits.add(bi)
        reach = W.reach_from([0], cut_blocks=error_blocks(W) | zero_exits, cut_edges=cut)
        bad = [r for r in W.return_blocks() if r in reach]
        d = Deps(U)
        stamps = [(b, t) for b, t in U.calls() if (t.get('callee') or '') == EDITOR + '::set_modified']
        clock = [b for b, t in U.calls() if (t.get('callee') or '').endswith('TimeProvider::get_current_date_time')]
        ok2 = bool(stamps) and all(any(('callsite', c) in d.of_operand(t['args'][1]) for c in clock) for b, t in stamps)
        # ... and the stamp is unconditional for a file that has an entry: no path through the `entry is Some` arm of
        # the update reaches its return without set_modified (whether or not the write extended the file)
        if ok2:
            from analyses import switch_source
            some_targets = []
            for bi in U.reachable():
                tt = U.blocks[bi]['term']
                if tt['k'] == 'switch':
                    src = switch_source(U, bi)
                    if src and src['kind'] == 'discr' and [e.get('n') for e in src['place']['p'] if 'f' in e][-1:] == ['entry']:
                        some_targets += [x for v, x in tt['targets'] if v == 1]
            cut_st = {(b, x) for b, t in stamps for x in U.succ(b)}
            if some_targets:
                r2 = U.reach_from(some_targets, cut_edges=cut_st)
                if any(r in r2 for r in U.return_blocks()):
                    ok2 = False
            else:
                ok2 = False
        rep.oblige('R18.3', W.name, ok=not bad and ok2, nontrivial=True)
        if bad or not ok2:
            rep.violation('R18.3', vkey('R18.3', W.name, 'stamp-on-write', ''), W.loc(W.span),
                          'a write that transferred bytes can return Ok without the modification time having been '
                          'stamped from the clock')

    # ---------------- R18.4
    RN = facts.fns.get(DATA + '::renamed')
    if RN is None:
        rep.machinery('ANCHOR-MISSING DirFileEntryData::renamed')
    else:
        d = Deps(RN)
        clones = [b for b, t in RN.calls() if (t.get('callee') or '').endswith('Clone::clone')]
        written = fields_written(RN)
        built = [s for bi in RN.reachable() for s in RN.blocks[bi]['stmts']
                 if s['k'] == 'assign' and s['rv']['k'] == 'agg' and s['rv'].get('adt') == DATA]
        ok = bool(clones) and written <= {'name'} and not built and any(('callsite', c) in d.of_local(0) for c in clones)
        if not ok and clones and len(built) == 1 and written <= {'name'}:
            # struct-update form `Self { name: new_name, ..self.clone() }`: every other field is taken, under its own
            # name, from the clone (or from *self)
            clone_locals = {RN.blocks[c]['term']['dest']['l'] for c in clones}
            rv = built[0]['rv']
            good = True
            for fname, o in zip(rv.get('fields') or [], rv['ops']):
                if fname == 'name':
                    good = good and ('param', 2) in d.of_operand(o)
                    continue
                p = op_place(o)
                names = [e.get('n') for e in p['p'] if 'f' in e] if p is not None else []
                root_ok = p is not None and (p['l'] in clone_locals or p['l'] == 1 or
                                             any(('local', c) in d.of_local(p['l']) for c in clone_locals))
                good = good and root_ok and names[-1:] == [fname]
            ok = good and bool(rv.get('fields'))
            if ok:
                built = []
        rep.oblige('R18.4', RN.name, ok=ok, nontrivial=True,
                   sample={'fn': RN.name, 'fields_assigned': sorted(written), 'rebuilt_field_by_field': bool(built)})
        if not ok:
            rep.violation('R18.4', vkey('R18.4', RN.name, 'keeps-body', ''), RN.loc(RN.span),
                          'the renamed entry is not a clone of the old entry with only the name replaced (fields assigned: '
                          '%s%s): timestamps / size / cluster of a renamed file can change' % (
                              sorted(written), ', rebuilt field by field' if built else ''))
    RI = facts.fns.get('fatfs::dir::Dir::rename_internal')
    if RI is not None and RN is not None:
        d = Deps(RI)
        rn = [b for b, t in RI.calls() if t.get('callee') == RN.name]
        we = [(b, t) for b, t in RI.calls() if (t.get('callee') or '').endswith('Dir::write_entry')]
        ok = bool(rn) and bool(we) and all(any(('callsite', r) in d.of_operand(t['args'][2]) for r in rn) for b, t in we)
        rep.oblige('R18.4.flow', RI.name, ok=ok, nontrivial=True)
        if not ok:
            rep.violation('R18.4', vkey('R18.4', RI.name, 'uses-renamed', ''), RI.loc(RI.span),
                          'rename does not write the renamed copy of the old entry')

    # ---------------- R18.5
    for short in ('set_created', 'set_accessed', 'set_modified'):
        E = facts.fns.get('%s::%s' % (EDITOR, short))
        Dd = facts.fns.get('%s::%s' % (DATA, short))
        if E is None or Dd is None:
            rep.machinery('ANCHOR-MISSING %s' % short)
            continue
        need = fields_written(Dd)
        d = Deps(E)
        covered = set()
        setcalls = [b for b, t in E.calls() if t.get('callee') == Dd.name]
        guarded = False
        for bi in E.reachable():
            t = E.blocks[bi]['term']
            if t['k'] != 'switch':
                continue
            if not any(edge_dominates(E, {(bi, x)}, sc) for x in E.succ(bi) for sc in setcalls):
                continue
            guarded = True
            toks = d.of_operand(t['discr'])
            covered |= {tk[1] for tk in toks if tk[0] == 'field'}
            for tk in toks:
                if tk[0] == 'call':
                    c = facts.fns.get(tk[1])
                    if c is not None and c.crate == 'fatfs':
                        covered |= fields_read(facts, c)
        missing = need - covered if guarded else set()
        rep.oblige('R18.5', E.name, ok=not missing, nontrivial=True,
                   sample={'setter': E.name, 'stored_fields': sorted(need), 'fields_compared': sorted(covered & need)})
        if missing:
            rep.violation('R18.5', vkey('R18.5', E.name, 'unchanged-test', ''), E.loc(E.span),
                          'the "value unchanged" test of %s does not look at %s: a new value that differs only there is '
                          'silently dropped' % (E.name, sorted(missing)))


# ---------------------------------------------------------------------------------------------------------------
# R18.5b the editor's "unchanged" test compares every component that the setter stores

def _adt_of_ref_operand(fn, o):
    p = op_place(o)
    if p is None:
        return None
    from analyses import place_prefix_type
    ty = place_prefix_type(fn, p, len(p['p']))
    for _ in range(3):
        if ty is not None and ty.get('k') in ('ref', 'ptr'):
            ty = fn.types[ty['to']]
    if ty is not None and ty.get('k') == 'adt':
        return ty.get('path')
    # a value of a generic parameter type (the body of a helper generic in `T` that was made transparent): the type of what
    # was moved into it - through `&x`, plain moves and results of calls whose declared type is concrete
    l = p['l']
    for _ in range(8):
        defs = [s['rv'] for bi in fn.reachable() for s in fn.blocks[bi]['stmts']
                if s['k'] == 'assign' and not s['lhs']['p'] and s['lhs']['l'] == l]
        if not defs:
            calls = [t for b_, t in fn.calls() if not t['dest']['p'] and t['dest']['l'] == l]
            cf = getattr(fn, 'facts_ref', None).fns.get(calls[0].get('callee') or '') if len(calls) == 1 and getattr(fn, 'facts_ref', None) else None
            if cf is not None:
                rty = cf.local_ty(0)
                if rty is not None and rty.get('k') == 'adt':
                    return rty.get('path')
            break
        if len(defs) != 1:
            break
        rv = defs[0]
        q = rv['p'] if rv['k'] == 'ref' else (op_place(rv['a']) if rv['k'] == 'use' else None)
        if q is None:
            break
        ty = place_prefix_type(fn, q, len(q['p']))
        for _i in range(3):
            if ty is not None and ty.get('k') in ('ref', 'ptr'):
                ty = fn.types[ty['to']]
        if ty is not None and ty.get('k') == 'adt':
            return ty.get('path')
        if q['p']:
            break
        l = q['l']
    return None


def _encode_component(fn, defs, o, depth=0):
    """'date' / 'time.0' / 'time.1' when the operand is (a copy of) the result of Date::encode / a projection of the
    result of Time::encode; None otherwise"""
    p = op_place(o)
    if p is None or depth > 8:
        return None
    for bi in fn.reachable():
        t = fn.blocks[bi]['term']
        if t['k'] == 'call' and t['dest']['l'] == p['l'] and not t['dest']['p']:
            c = t.get('callee') or ''
            if c.endswith('time::Date::encode') and not p['p']:
                return 'date'
            if c.endswith('time::Time::encode'):
                idx = [e['f'] for e in p['p'] if 'f' in e]
                if len(idx) == 1 and idx[0] in (0, 1):
                    return 'time.%d' % idx[0]
            return None
    rv = defs.get(p['l'])
    if rv is not None and rv['k'] in ('use', 'cast') and not p['p']:
        return _encode_component(fn, defs, rv['a'], depth + 1)
    return None


WHOLE = {'fatfs::time::DateTime': {'date', 'time.0', 'time.1'}, 'fatfs::time::Date': {'date'},
         'fatfs::time::Time': {'time.0', 'time.1'}}


def run_unchanged_test(ctx, rep):
    facts = ctx.facts
    for short in ('set_created', 'set_accessed', 'set_modified'):
        E = facts.fns.get('%s::%s' % (EDITOR, short))
        Dd = facts.fns.get('%s::%s' % (DATA, short))
        if E is None or Dd is None:
            continue
        ddefs = _single_defs(Dd)
        need = set()
        for bi in Dd.reachable():
            for s in Dd.blocks[bi]['stmts']:
                if s['k'] == 'assign' and s['lhs']['p'] and s['rv']['k'] in ('use', 'cast'):
                    c = _encode_component(Dd, ddefs, s['rv']['a'])
                    if c:
                        need.add(c)
            t = Dd.blocks[bi]['term']
            if t['k'] == 'call' and t['dest']['p'] and (t.get('callee') or '').endswith('time::Date::encode'):
                need.add('date')
        edefs = _single_defs(E)
        covered = set()
        ncmp = 0
        for bi in E.reachable():
            t = E.blocks[bi]['term']
            if t['k'] == 'call' and (t.get('callee') or '') in ('core::cmp::PartialEq::eq', 'core::cmp::PartialEq::ne') and \
                    len(t['args']) == 2:
                ncmp += 1
                a, b = (_adt_of_ref_operand(E, x) for x in t['args'])
                if a and a == b and a in WHOLE:
                    eq = facts.fns.get('<%s as core::cmp::PartialEq>::eq' % a)
                    if eq is None or (eq.span.get('expn') or '').startswith('derive'):
                        covered |= WHOLE[a]
            for s in E.blocks[bi]['stmts']:
                if s['k'] == 'assign' and s['rv']['k'] == 'binop' and s['rv']['op'] in ('Eq', 'Ne'):
                    ncmp += 1
                    ca, cb = _encode_component(E, edefs, s['rv']['a']), _encode_component(E, edefs, s['rv']['b'])
                    if ca and ca == cb:
                        covered.add(ca)
        missing = need - covered
        ok = not missing or ncmp == 0  # no test at all: the setter always stores (nothing can be dropped)
        rep.oblige('R18.5b', E.name, ok=ok, nontrivial=True,
                   sample={'setter': E.name, 'components_stored': sorted(need), 'components_compared': sorted(covered)})
        if not ok:
            rep.violation('R18.5b', vkey('R18.5b', E.name, 'unchanged-test', ''), E.loc(E.span),
                          'the "value unchanged" test of %s compares %s but the setter stores %s: a new value that differs only '
                          'in %s is silently dropped' % (E.name, sorted(covered) or 'nothing recognisable', sorted(need), sorted(missing)))


# ---------------------------------------------------------------------------------------------------------------
# R18.6 the DOS date / time words are cut at the bit positions the FAT specification gives

SPEC_BITS = {
    'fatfs::time::Time::decode': {'hour': (11, 5), 'min': (5, 6), 'sec': (0, 5)},
    'fatfs::time::Date::decode': {'year': (9, 7), 'month': (5, 4), 'day': (0, 5)},
}
ENC_SHIFTS = {'fatfs::time::Time::encode': {'hour': 11, 'min': 5}, 'fatfs::time::Date::encode': {'year': 9, 'month': 5}}


def _single_defs(fn):
    defs, multi = {}, set()
    for bi in fn.reachable():
        for s in fn.blocks[bi]['stmts']:
            if s['k'] == 'assign' and not s['lhs']['p']:
                l = s['lhs']['l']
                if l in defs:
                    multi.add(l)
                defs[l] = s['rv']
    for l in multi:
        defs.pop(l, None)
    return defs


def bitfield_of(fn, defs, deps, o, word_param=1, depth=0):
    """(shift, mask or None) with which the value `o` is cut out of parameter `word_param`, following copies, casts,
    checked-arithmetic temporaries, tuple fields and the arithmetic applied afterwards (x2, + 1980); None = unknown"""
    shift, mask = 0, None
    cur = o
    for _ in range(40):
        p = op_place(cur)
        if p is None:
            return None
        if p['l'] == word_param and not p['p']:
            return shift, mask
        rv = defs.get(p['l'])
        if rv is None:
            return None
        if p['p']:
            # projection of a tuple / checked-op pair: `(tmp.0)`
            idx = [e for e in p['p'] if 'f' in e]
            if rv['k'] == 'agg' and idx and isinstance(idx[-1]['f'], int) and idx[-1]['f'] < len(rv['ops']):
                cur = rv['ops'][idx[-1]['f']]
                continue
            if rv['k'] == 'binop':
                pass  # `.0` of a checked operation: fall through to the binop itself
            else:
                return None
        k = rv['k']
        if k in ('use', 'cast'):
            cur = rv['a']
            continue
        if k == 'binop':
            op = rv['op'].replace('WithOverflow', '').replace('Unchecked', '')
            a, b = rv['a'], rv['b']
            ca, cb = op_const(a), op_const(b)
            if op == 'BitAnd' and (ca or cb):
                # walking from the result inwards: a mask met after a shift was applied BEFORE it: (x & m) >> s
                m = (cb or ca).get('val') >> shift
                mask = m if mask is None else (mask & m)
                cur = a if cb else b
                continue
            if op == 'Shr' and cb:
                shift += cb.get('val')
                cur = a
                continue
            if op in ('Mul', 'Add', 'Sub', 'Div'):
                # arithmetic on the extracted field: follow the operand that comes from the word
                fa = ('param', word_param) in deps.of_operand(a)
                fb = ('param', word_param) in deps.of_operand(b)
                if fa == fb:
                    return None
                cur = a if fa else b
                continue
            return None
        if k == 'agg' and len(rv['ops']) == 1:
            cur = rv['ops'][0]
            continue
        return None
    return None


def run_bit_layout(ctx, rep):
    facts = ctx.facts
    for name, spec in SPEC_BITS.items():
        fn = facts.fns.get(name)
        if fn is None:
            rep.machinery('ANCHOR-MISSING ' + name)
            continue
        defs = _single_defs(fn)
        deps = Deps(fn)
        got = {}
        for bi in fn.reachable():
            for s in fn.blocks[bi]['stmts']:
                if s['k'] == 'assign' and s['rv']['k'] == 'agg' and s['rv'].get('fields') and \
                        set(spec) <= set(s['rv']['fields']):
                    for fname, o in zip(s['rv']['fields'], s['rv']['ops']):
                        if fname in spec:
                            got[fname] = bitfield_of(fn, defs, deps, o)
        if not got:
            # built through the checked constructor: arguments of `new`
            for b, t in fn.calls():
                if (t.get('callee') or '').endswith(('Time::new', 'Date::new')) and len(t['args']) >= 3:
                    for fname, o in zip(list(spec), t['args']):
                        got[fname] = bitfield_of(fn, defs, deps, o)
        probs = []
        for fname, (lo, width) in spec.items():
            g = got.get(fname)
            if g is None:
                probs.append('%s: extraction not recognised' % fname)
                continue
            sh, m = g
            if m is None:
                w = 16 - sh
            elif m & (m + 1) == 0:
                w = min(m.bit_length(), 16 - sh)
            else:
                w = None
            if sh != lo or w != width:
                probs.append('%s is taken from bits %s (shift %d, mask %s), the specification says bits %d..%d' % (
                    fname, '%d..%d' % (sh, sh + w - 1) if w else '?', sh, hex(m) if m is not None else 'none', lo, lo + width - 1))
        rep.oblige('R18.6', name, ok=not probs, nontrivial=True, sample={'fn': name, 'fields': {k: str(v) for k, v in got.items()}})
        if probs:
            rep.violation('R18.6', vkey('R18.6', name, 'bit-layout', ''), fn.loc(fn.span),
                          'DOS date/time decoding does not follow the on-disk bit layout: ' + '; '.join(probs))
    for name, spec in ENC_SHIFTS.items():
        fn = facts.fns.get(name)
        if fn is None:
            rep.machinery('ANCHOR-MISSING ' + name)
            continue
        deps = Deps(fn)
        shifts = {}
        for bi in fn.reachable():
            for s in fn.blocks[bi]['stmts']:
                if s['k'] == 'assign' and s['rv']['k'] == 'binop' and s['rv']['op'].startswith('Shl'):
                    c = op_const(s['rv']['b'])
                    toks = deps.of_operand(s['rv']['a'])
                    for fname in spec:
                        if ('field', fname) in toks and c is not None:
                            shifts[fname] = c.get('val')
        ok = shifts == spec
        rep.oblige('R18.6', name, ok=ok, nontrivial=True, sample={'fn': name, 'shifts': shifts})
        if not ok:
            rep.violation('R18.6', vkey('R18.6', name, 'bit-layout', ''), fn.loc(fn.span),
                          'DOS date/time encoding shifts %s differ from the on-disk layout %s' % (shifts, spec))


# ---------------------------------------------------------------------------------------------------------------
# R18.7 every value packed into a DOS date / time word fits the bits it is given (no carry into the neighbouring field)

CTOR_OF = {'fatfs::time::Time::encode': 'fatfs::time::Time::new', 'fatfs::time::Date::encode': 'fatfs::time::Date::new'}
HI_RES_MAX = 199  # FAT specification: DIR_CrtTimeTenth counts 10 ms units, valid range 0..199


def ctor_invariants(facts, ctor_name):
    """{(adt path, field): interval} that the checked constructor establishes: the ranges of its parameters at the point
    where the value is built (after its asserts), read off the interval analysis of the constructor"""
    from intervals import Analysis, FnCtx
    C = facts.fns.get(ctor_name)
    if C is None:
        return None
    an = Analysis(facts, C, FnCtx({}, {}, set()), {}, 0)
    out = {}
    for bi in C.reachable():
        st0 = an.in_state.get(bi)
        if st0 is None:
            continue
        for s in C.blocks[bi]['stmts']:
            if s['k'] == 'assign' and s['rv']['k'] == 'agg' and s['rv'].get('ak') == 'adt' and s['rv'].get('fields'):
                st, _ = an.state_before_term(bi)
                for fname, o in zip(s['rv']['fields'], s['rv']['ops']):
                    iv = an.read_operand(st, o)
                    if iv is not None:
                        out[(s['rv']['adt'], fname)] = iv
    return out


def _interval_of_local_at_end(an, fn, local):
    """interval of a local in the state before the terminator of the last block that defines it"""
    from model import place_key
    best = None
    for bi in fn.reachable():
        if any(s['k'] == 'assign' and s['lhs']['l'] == local and not s['lhs']['p'] for s in fn.blocks[bi]['stmts']):
            st, _ = an.state_before_term(bi)
            if st is not None:
                v = st.get((local, ()))
                best = v if best is None or v is None else (min(best[0], v[0]), max(best[1], v[1]))
                if v is None:
                    return None
    return best


def run_field_ranges(ctx, rep):
    from intervals import Analysis, FnCtx
    facts = ctx.facts
    for enc, ctor in CTOR_OF.items():
        E = facts.fns.get(enc)
        inv = ctor_invariants(facts, ctor)
        if E is None or inv is None:
            rep.machinery('ANCHOR-MISSING %s / %s' % (enc, ctor))
            continue
        an = Analysis(facts, E, FnCtx({}, dict(inv), set()), {}, 0)
        defs = _single_defs(E)
        # leaves of the BitOr tree that builds the 16-bit word
        ors = [(bi, s) for bi in E.reachable() for s in E.blocks[bi]['stmts']
               if s['k'] == 'assign' and s['rv']['k'] == 'binop' and s['rv']['op'] == 'BitOr']
        used_as_operand = set()
        for _, s in ors:
            for o in (s['rv']['a'], s['rv']['b']):
                p = op_place(o)
                if p is not None and not p['p']:
                    used_as_operand.add(p['l'])
        roots = [s for _, s in ors if s['lhs']['l'] not in used_as_operand and not s['lhs']['p']]
        probs = []
        leaves = []

        def walk(o):
            p = op_place(o)
            if p is None or p['p']:
                return
            rv = defs.get(p['l'])
            if rv is not None and rv['k'] == 'binop' and rv['op'] == 'BitOr':
                walk(rv['a'])
                walk(rv['b'])
                return
            if rv is not None and rv['k'] == 'use' and op_place(rv['a']) is not None and not op_place(rv['a'])['p']:
                walk(rv['a'])
                return
            if rv is not None and rv['k'] == 'binop' and rv['op'].startswith('Shl') and op_const(rv['b']) is not None:
                q = op_place(rv['a'])
                iv = _interval_of_local_at_end(an, E, q['l']) if q is not None and not q['p'] else None
                leaves.append((op_const(rv['b'])['val'], iv))
                return
            leaves.append((0, _interval_of_local_at_end(an, E, p['l'])))

        for r in roots:
            walk(r['rv']['a'])
            walk(r['rv']['b'])
        leaves.sort(key=lambda x: x[0])
        for i, (sh, iv) in enumerate(leaves):
            top = leaves[i + 1][0] if i + 1 < len(leaves) else 16
            room = (1 << (top - sh)) - 1
            if iv is None or iv[0] < 0 or iv[1] > room:
                probs.append('the value placed at bit %d ranges over %s but only %d bits (0..%d) are free below the next field' %
                             (sh, iv, top - sh, room))
        if len(leaves) < 3:
            probs.append('the packed word was not recognised as an OR of three bit fields')
        # narrowing casts (the 10 ms byte)
        for bi in E.reachable():
            st0 = an.in_state.get(bi)
            for si, s in enumerate(E.blocks[bi]['stmts']):
                if s['k'] == 'assign' and s['rv']['k'] == 'cast':
                    src_t, dst_t = E.ty(s['rv']['from']) if 'from' in s['rv'] else None, E.ty(s['rv']['to']) if 'to' in s['rv'] else None
                    if not src_t or not dst_t or src_t.get('k') != 'int' or dst_t.get('k') != 'int' or dst_t['bits'] >= src_t['bits']:
                        continue
                    q = op_place(s['rv']['a'])
                    iv = _interval_of_local_at_end(an, E, q['l']) if q is not None and not q['p'] else None
                    if iv is None or iv[0] < 0 or iv[1] > HI_RES_MAX:
                        probs.append('the sub-second byte ranges over %s; the on-disk field counts 10 ms units within two seconds, '
                                     '0..%d (a larger value decodes as a later second)' % (iv, HI_RES_MAX))
        rep.oblige('R18.7', enc, ok=not probs, nontrivial=True,
                   sample={'fn': enc, 'fields': [(sh, str(iv)) for sh, iv in leaves],
                           'invariant_from': ctor, 'invariant': {k[1]: str(v) for k, v in inv.items()}})
        if probs:
            rep.violation('R18.7', vkey('R18.7', enc, 'field-range', ''), E.loc(E.span),
                          'under the ranges that %s establishes, %s' % (ctor.rsplit('::', 2)[-2] + '::new', '; '.join(probs)))


_run_18 = run


def run(ctx, rep):
    _run_18(ctx, rep)
    run_field_ranges(ctx, rep)
    run_unchanged_test(ctx, rep)
