"""C11 - writes stay inside the volume and inside what the operation may change (DESIGN.md section 4, R11.1-R11.3).

R11.1 closed, classified set of raw device write sites: the seek that positions each of them has its offset
      provenance in one allowed class (CLUSTER / SLICE / ENTRY / STATUS / FSINFO)
R11.2 every raw device write is dominated by the Ok edge of a seek on the same handle
R11.3 clipping: File::write never crosses the cluster end, DiskSlice read/write never cross the slice end,
      DiskSlice::seek rejects offsets beyond the slice
(the allocator's bounds - hint clamp, padding entries - are rules R10.4 of rules/c10.py; the truncate order is R3.8)
"""
from analyses import Deps, Must, edge_dominates, switch_source, nonzero_targets, zero_targets, error_blocks
from core import vkey
from model import op_const, op_place, place_key
from rules.c12 import raw_write_sites, guard_live_region
from rules.c09 import borrow_sites

FORMAT = 'fatfs::fs::format_volume'
DS_WRITE = '<fatfs::fs::DiskSlice as fatfs::io::Write>::write'
DS_READ = '<fatfs::fs::DiskSlice as fatfs::io::Read>::read'
DS_SEEK = '<fatfs::fs::DiskSlice as fatfs::io::Seek>::seek'
F_WRITE = '<fatfs::file::File as fatfs::io::Write>::write'


def classify_offset(toks):
    calls = {tk[1].rsplit('::', 1)[-1] for tk in toks if tk[0] == 'call'}
    fields = {tk[1] for tk in toks if tk[0] == 'field'}
    consts = {tk[1] for tk in toks if tk[0] == 'const'}
    if 'offset_from_cluster' in calls:
        return 'CLUSTER'
    if ({'offset_from_sector', 'bytes_from_sectors'} & calls) and ('fs_info_sector' in fields or 'fs_info_sector' in calls) and \
            not ({'offset_from_cluster', 'sectors_from_clusters', 'backup_boot_sector', 'reserved_sectors'} & calls) and \
            not ({'backup_boot_sector', 'reserved_sectors'} & fields):
        return 'FSINFO'  # sector number from the BPB field (directly or through its getter), converted to bytes
    if 'pos' in fields and not calls - {'borrow_mut', 'deref_mut'}:
        return 'ENTRY'
    if {0x25, 0x41} <= consts and not (calls - {'fat_type', 'eq', 'borrow_mut', 'deref_mut', 'status_flags', 'get', 'encode'}):
        return 'STATUS'
    if {'begin', 'offset'} <= fields:
        return 'SLICE'
    return None


def run(ctx, rep):
    facts, eff = ctx.facts, ctx.effects
    fat = [f for f in facts.fns.values() if f.crate == 'fatfs']
    scope = fat + [f for f in facts.fns.values() if '::controls::' in f.name and '_r11_' in f.name]
    classes = {}
    n = 0
    for fn in scope:
        if fn.name == FORMAT:
            continue
        is_control = fn.crate != 'fatfs'
        sites = raw_write_sites(facts, eff, fn)
        if fn.name == DS_WRITE:
            sites = [(b, t) for b, t in fn.calls() if (t.get('callee') or '').endswith(('io::Write::write_all', 'io::Write::write'))]
        if not sites:
            continue
        if fn.impl_trait == 'fatfs::io::Write' and fn.self_ty and 'FsIoAdapter' in fn.self_ty:
            # a pass-through stream: positioning is done by its user through the adapter's Seek impl, which must forward
            sk = facts.fns.get('<fatfs::fs::FsIoAdapter as fatfs::io::Seek>::seek')
            ok = sk is not None and any((t.get('callee') or '').endswith('io::Seek::seek') for b, t in sk.calls())
            rep.oblige('R11.2.adapter', fn.name, ok=ok, nontrivial=True)
            if not ok:
                rep.violation('R11.2', vkey('R11.2', fn.name, 'adapter-seek', ''), fn.loc(fn.span),
                              'the FS adapter writes to the device but its Seek implementation does not forward to the '
                              'device')
            classes.setdefault('PASS-THROUGH', []).append(fn.name)
            continue
        d = Deps(fn)
        d_exp = None
        seeks = [(b, t) for b, t in fn.calls() if (t.get('callee') or '').endswith('io::Seek::seek')]
        for x, tt in sites:
            n += 1
            # R11.2 dominated by a seek's Ok edge
            m = Must(facts, lambda f, b, t, names: (t.get('callee') or '').endswith('io::Seek::seek'))
            cut = m.crossing_edges(fn, set())
            dominated = x not in fn.reach_from([0], cut_edges=cut) and bool(cut)
            # the closest dominating seek
            cls = None
            cands = []
            for sb, st in seeks:
                lab = m._labels(fn).get(sb)
                edges = lab['ok'] if lab and lab['status'] == 'labelled' else {(sb, st['ret'])}
                if edge_dominates(fn, edges, x) or (any(sb in body and x in body for body in fn.loops().values())):
                    cands.append((sb, st))
            # the seek that positions *this* write is the last one on the way: an earlier dominating seek (e.g. the one for the
            # primary copy of a sector that is then written a second time elsewhere) says nothing about where this write lands
            closest = [c_ for c_ in cands if not any(c2[0] != c_[0] and c2[0] in fn.reach_from([c_[0]]) and
                                                     c_[0] not in fn.reach_from([c2[0]]) for c2 in cands)]
            for sb, st in (closest or cands):
                c = classify_offset(d.of_operand(st['args'][1]))
                if c:
                    cls = c
            ok = dominated and cls is not None
            classes.setdefault(cls, []).append(fn.name)
            rep.oblige('R11.1', '%s|bb%d' % (fn.name, x), ok=ok, nontrivial=True,
                       sample={'fn': fn.name, 'write': tt['span']['snip'][:60], 'at': fn.loc(tt['span']),
                               'seek_before': dominated, 'offset_class': cls})
            if not dominated:
                rep.violation('R11.2', vkey('R11.2', fn.name, tt.get('callee') or '?', tt['span']['snip']),
                              fn.loc(tt['span']), 'device write in %s is not preceded (on every path) by a successful seek '
                              'on the same handle: it lands wherever the previous operation left the position' % fn.name,
                              control=is_control)
            elif cls is None:
                rep.violation('R11.1', vkey('R11.1', fn.name, tt.get('callee') or '?', tt['span']['snip']),
                              fn.loc(tt['span']), 'device write in %s is positioned by a seek whose offset is in none of the '
                              'allowed classes (cluster of the operation, bounded slice, entry position, status byte, '
                              'FS-information sector)' % fn.name, control=is_control)
    rep.notes.append('write-site offset classes: %s' % {k: sorted(set(v)) for k, v in classes.items()})
    for need in ('CLUSTER', 'SLICE', 'ENTRY', 'STATUS', 'FSINFO'):
        if need not in classes:
            rep.machinery('FLOOR no device-write site of class %s (confirmed on the pinned tree)' % need)

    # ---------------- R11.3 clipping
    W = facts.fns.get(F_WRITE)
    if W is None:
        rep.machinery('ANCHOR-MISSING ' + F_WRITE)
    else:
        d = Deps(W)
        ok = False
        for b, t in W.calls():
            if (t.get('callee') or '').endswith('io::Write::write') and eff.fn_reaches_dev(W.name, b, 'W'):
                toks = d.of_operand(t['args'][1])
                calls = {tk[1].rsplit('::', 1)[-1] for tk in toks if tk[0] == 'call'}
                if 'cluster_size' in calls and 'min' in calls and ('op', 'Rem') in toks and ('op', 'Sub') in toks:
                    ok = True
        rep.oblige('R11.3', F_WRITE, ok=ok, nontrivial=True)
        if not ok:
            rep.violation('R11.3', vkey('R11.3', F_WRITE, 'cluster-clip', ''), W.loc(W.span),
                          'the length File::write hands to the device is not clipped to the rest of the current cluster '
                          '(min with cluster_size - offset % cluster_size): data would spill into the next physical cluster')
    for name, what in ((DS_WRITE, 'write'), (DS_READ, 'read')):
        fn = facts.fns.get(name)
        if fn is None:
            rep.machinery('ANCHOR-MISSING ' + name)
            continue
        d = Deps(fn)
        ok = False
        for b, t in fn.calls():
            c = t.get('callee') or ''
            if c.endswith(('io::Write::write_all', 'io::Write::write', 'io::Read::read')) and len(t['args']) > 1:
                toks = d.of_operand(t['args'][1])
                calls = {tk[1].rsplit('::', 1)[-1] for tk in toks if tk[0] == 'call'}
                fields = {tk[1] for tk in toks if tk[0] == 'field'}
                if 'min' in calls and {'size', 'offset'} <= fields and (('op', 'Sub') in toks or 'saturating_sub' in calls):
                    ok = True
        rep.oblige('R11.3', name, ok=ok, nontrivial=True)
        if not ok:
            rep.violation('R11.3', vkey('R11.3', name, 'slice-clip', ''), fn.loc(fn.span),
                          'DiskSlice::%s does not clip the transfer to size - offset: a table / root-directory access could '
                          'run past the end of its region' % what)
    S = facts.fns.get(DS_SEEK)
    if S is None:
        rep.machinery('ANCHOR-MISSING ' + DS_SEEK)
    else:
        d = Deps(S)
        ok = False
        eb = error_blocks(S)
        for bi in S.reachable():
            t = S.blocks[bi]['term']
            if t['k'] != 'switch':
                continue
            src = switch_source(S, bi)
            if src and src['kind'] == 'binop' and src['op'] in ('Gt', 'Ge', 'Lt', 'Le'):
                toks = d.of_operand(src['a']) | d.of_operand(src['b'])
                if ('field', 'size') in toks:
                    beyond = nonzero_targets(t) if src['op'] in ('Gt', 'Ge') and ('field', 'size') in d.of_operand(src['b']) else \
                        zero_targets(t)
                    # the arm on which the offset is beyond the size leads to an error exit, the assignment is on the other
                    assigns = [b2 for b2 in S.reachable() for s in S.blocks[b2]['stmts']
                               if s['k'] == 'assign' and s['lhs']['p'] and [e.get('n') for e in s['lhs']['p'] if 'f' in e][-1:] == ['offset']]
                    if all(not edge_dominates(S, {(bi, x) for x in beyond}, a) for a in assigns) and assigns and \
                            src['op'] in ('Gt', 'Le'):
                        ok = True
        rep.oblige('R11.3', DS_SEEK, ok=ok, nontrivial=True)
        if not ok:
            rep.violation('R11.3', vkey('R11.3', DS_SEEK, 'seek-bound', ''), S.loc(S.span),
                          'DiskSlice::seek accepts an offset beyond the slice size')
    rep.counts['R11.sites'] = n


# ---------------------------------------------------------------------------------------------
# R11.4  the cursor of a DiskSlice moves by what was actually transferred

def run_slice_cursor(ctx, rep):
    """DiskSlice::read adds the count the device returned (a short read must not skip bytes: `read_exact` continues at
    the cursor); DiskSlice::write adds the clipped length and hands exactly that many bytes to EVERY mirror with
    `write_all` (a short write to one copy would leave the copies different)."""
    from rules.c02 import origin, single_def
    facts, eff = ctx.facts, ctx.effects
    R = facts.fns.get(DS_READ)
    if R is None:
        rep.machinery('ANCHOR-MISSING ' + DS_READ)
    else:
        d = Deps(R)
        devb = {b for b, t in R.calls() if (t.get('callee') or '').endswith('io::Read::read')}
        defs = single_def(R)
        ok = None
        for bi in sorted(R.reachable()):
            for s in R.blocks[bi]['stmts']:
                if s['k'] != 'assign' or not s['lhs']['p'] or [e.get('n') for e in s['lhs']['p'] if 'f' in e][-1:] != ['offset']:
                    continue
                toks = d.of_operand(s['rv']['a']) if s['rv']['k'] in ('use', 'cast') else set()
                this = False
                for bj in R.reachable():
                    for s2 in R.blocks[bj]['stmts']:
                        if s2['k'] == 'assign' and s2['rv']['k'] == 'binop' and s2['rv']['op'].startswith('Add') and \
                                ('local', s2['lhs']['l']) in toks | {('local', s['lhs']['l'])}:
                            for x in (s2['rv']['a'], s2['rv']['b']):
                                if origin(R, defs, x, devb, through_casts=True) == 'device-count':
                                    this = True
                ok = this if ok is None else (ok and this)
        rep.oblige('R11.4', DS_READ, ok=bool(ok), nontrivial=True,
                   sample={'fn': DS_READ, 'rule': 'offset += count returned by the device read'})
        if ok is None:
            rep.machinery('ANCHOR DiskSlice::read: no store to `offset` found')
        elif not ok:
            rep.violation('R11.4', vkey('R11.4', DS_READ, 'cursor-advance', ''), R.loc(R.span),
                          'DiskSlice::read does not advance its cursor by the count the device returned: after a short read '
                          '(legal for any storage) read_exact continues at the wrong position, so a table entry that straddles '
                          'the boundary is decoded from the wrong bytes')
    W = facts.fns.get(DS_WRITE)
    if W is None:
        rep.machinery('ANCHOR-MISSING ' + DS_WRITE)
    else:
        d = Deps(W)
        raw = [b for b, t in W.calls() if (t.get('callee') or '').endswith('io::Write::write')]
        allw = [b for b, t in W.calls() if (t.get('callee') or '').endswith('io::Write::write_all')]
        loops = W.loops()
        in_loop = lambda b: any(b in body for body in loops.values())
        ok = bool(allw) and not raw and all(in_loop(b) for b in allw)
        # the count returned / added to the cursor is the clipped length, not something a device call returned
        for bi in W.reachable():
            for s in W.blocks[bi]['stmts']:
                if s['k'] == 'assign' and s['lhs']['p'] and [e.get('n') for e in s['lhs']['p'] if 'f' in e][-1:] == ['offset']:
                    toks = d.of_operand(s['rv']['a']) if s['rv']['k'] in ('use', 'cast') else set()
                    if any(tk[0] == 'call' and tk[1].endswith(('io::Write::write', 'io::Read::read')) for tk in toks):
                        ok = False
        rep.oblige('R11.4', DS_WRITE, ok=ok, nontrivial=True,
                   sample={'fn': DS_WRITE, 'write_all_sites': len(allw), 'raw_write_sites': len(raw),
                           'rule': 'every mirror receives exactly the clipped length (write_all inside the mirror loop)'})
        if not ok:
            rep.violation('R11.4', vkey('R11.4', DS_WRITE, 'exact-mirror-transfer', ''), W.loc(W.span),
                          'DiskSlice::write does not hand exactly the clipped length to every mirror with write_all (raw write '
                          'sites: %d): a short write to one copy leaves the table copies different while the caller is told the '
                          'bytes were written' % len(raw))


_run_11 = run


def run(ctx, rep):
    _run_11(ctx, rep)
    run_slice_cursor(ctx, rep)


# ---------------------------------------------------------------------------------------------
# R11.5  every stream wrapper reports the count its inner stream reported, and hands the caller's buffer through

PASS_THROUGH = ('<fatfs::dir::DirRawStream as fatfs::io::Read>::read', '<fatfs::dir::DirRawStream as fatfs::io::Write>::write',
                '<fatfs::fs::FsIoAdapter as fatfs::io::Read>::read', '<fatfs::fs::FsIoAdapter as fatfs::io::Write>::write',
                '<fatfs::io::StdIoWrapper as fatfs::io::Read>::read', '<fatfs::io::StdIoWrapper as fatfs::io::Write>::write',
                '<fatfs::file::File as fatfs::io::Read>::read', '<fatfs::file::File as fatfs::io::Write>::write',
                DS_READ)
INNER = ('fatfs::io::Read::read', 'fatfs::io::Write::write', 'std::io::Read::read', 'std::io::Write::write')


def run_pass_through(ctx, rep):
    """`read_exact` / `write_all` (and every caller that advances a cursor) trust the count a stream returns. For each
    Read::read / Write::write implementation of the crate: every value returned in `Ok(..)` originates in the count that the
    inner stream's read / write returned on that path (or is the constant 0 of an early exit with nothing to transfer)."""
    from rules.c02 import origin, single_def
    facts = ctx.facts
    for name in PASS_THROUGH:
        fn = facts.fns.get(name)
        if fn is None:
            if 'StdIoWrapper' in name and ctx.config == 'nostd':
                continue
            rep.machinery('ANCHOR-MISSING ' + name)
            continue
        devb = {b for b, t in fn.calls() if (t.get('callee') or '') in INNER}
        defs = single_def(fn)
        bad = []
        n_ok = 0
        for bi in fn.reachable():
            t = fn.blocks[bi]['term']
            if t['k'] == 'call' and place_key(t['dest']) == (0, ()):
                callee = t.get('callee') or ''
                if bi in devb or callee.endswith(('FromResidual::from_residual', 'Result::map_err', 'Result::map')):
                    n_ok += bi in devb
                    continue
                bad.append((bi, 'the result comes from %s' % callee))
            for s in fn.blocks[bi]['stmts']:
                if s['k'] == 'assign' and place_key(s['lhs']) == (0, ()) and s['rv']['k'] == 'agg' and s['rv'].get('variant') == 'Ok':
                    o = s['rv']['ops'][0]
                    c = op_const(o)
                    if c is not None and c.get('val') == 0:
                        continue
                    if origin(fn, defs, o, devb, through_casts=True) == 'device-count':
                        n_ok += 1
                        continue
                    bad.append((bi, 'Ok(%s) is not the count the inner stream returned' % s['span']['snip'][:40]))
        ok = not bad and bool(devb)
        rep.oblige('R11.5', name, ok=ok, nontrivial=True,
                   sample={'fn': name, 'inner_calls': len(devb), 'returns_checked': n_ok})
        if not devb:
            rep.machinery('ANCHOR %s: no inner read / write call' % name)
        elif bad:
            rep.violation('R11.5', vkey('R11.5', name, 'returned-count', ''), fn.loc(fn.blocks[bad[0][0]]['term']['span']),
                          '%s: %s - callers (read_exact, write_all, cursor updates) would skip or repeat bytes after a short '
                          'transfer' % (name, bad[0][1]))


_run_11b = run


def run(ctx, rep):
    _run_11b(ctx, rep)
    run_pass_through(ctx, rep)


# ---------------------------------------------------------------------------------------------
# R11.6  the FS-information sector is rewritten at unmount (flush_fs_info, 512 bytes at bpb.fs_info_sector): that region is the
#        volume's FS-information sector only because its signatures were verified when it was read at mount - so the value
#        kept for write-back is the successfully decoded sector, never made-up contents standing in for a failed read

def run_fsinfo_provenance(ctx, rep):
    facts = ctx.facts
    NEW = 'fatfs::fs::FileSystem::new'
    fn = facts.fns.get(NEW)
    if fn is None:
        rep.machinery('ANCHOR-MISSING ' + NEW)
        return
    reads = [b for b, t in fn.calls() if (t.get('callee') or '').endswith('FsInfoSector::deserialize')]
    if not reads:
        rep.machinery('ANCHOR-MISSING FsInfoSector::deserialize call in ' + NEW)
        return
    after = fn.reach_from(reads)
    made_up = []
    for bi in sorted(fn.reachable()):
        t = fn.blocks[bi]['term']
        if t['k'] == 'call' and not t['dest']['p']:
            ty = fn.local_ty(t['dest']['l'])
            if ty is not None and (ty.get('path') or '').endswith('::FsInfoSector') and \
                    not (t.get('callee') or '').endswith('FsInfoSector::deserialize'):
                made_up.append((bi, t['span']))
        for s in fn.blocks[bi]['stmts']:
            if s['k'] == 'assign' and s['rv']['k'] == 'agg' and (s['rv'].get('adt') or '').endswith('::FsInfoSector'):
                made_up.append((bi, s['span']))
    bad = [(bi, sp) for bi, sp in made_up if bi in after]
    rep.oblige('R11.6', NEW, ok=not bad, nontrivial=True,
               sample={'fn': NEW, 'fsinfo_reads': len(reads), 'constructed_elsewhere': len(made_up)})
    if bad:
        rep.violation('R11.6', vkey('R11.6', NEW, 'made-up-fsinfo', ''), fn.loc(bad[0][1]),
                      'FileSystem::new can continue with FS-information contents it constructed itself after the sector was read '
                      '(`%s`): unmount later writes 512 bytes at bpb.fs_info_sector although nothing verified that this sector '
                      'is an FS-information sector (with BPB_FSInfo = 0 that is the boot sector)' % bad[0][1]['snip'][:70])


_run_11c = run


def run(ctx, rep):
    _run_11c(ctx, rep)
    run_fsinfo_provenance(ctx, rep)


# ---------------------------------------------------------------------------------------------
# R11.7  the FS adapter marks the volume dirty after every write - a seek into the boot sector - so the device position is
#        undefined after it: only the bounded slice, which positions the device before *each* write, may be built on it.
#        Code that writes several pieces after one seek (the entry codecs, the LE helpers) is never instantiated on the raw
#        adapter.

RAW_ADAPTER_USERS = ('<fatfs::fs::DiskSlice as ', 'fatfs::fs::DiskSlice::', '<fatfs::fs::FsIoAdapter as ', 'fatfs::fs::fat_slice',
                     'fatfs::io::Write::write_all', 'fatfs::io::Read::read_exact')


def run_raw_adapter_users(ctx, rep):
    facts = ctx.facts
    seen = {}
    for i in facts.instances:
        if i['crate'] != 'fatfs':
            continue
        a = i['args'].lstrip('[')
        if a.startswith('fatfs::fs::FsIoAdapter'):
            seen.setdefault(i['fn'], i['args'][:80])
    n = 0
    for name, args in sorted(seen.items()):
        f = facts.fns.get(name)
        if f is not None and f.crate == 'fatfs-inlined':
            continue
        n += 1
        ok = name.startswith(RAW_ADAPTER_USERS) or (f is not None and (f.self_ty or '').endswith(('fs::DiskSlice', 'fs::FsIoAdapter')))
        if not ok and f is not None:
            # a function that only builds a slice on the adapter (a renamed `fat_slice`, a geometry helper): it must not transfer
            ok = not any((t.get('callee') or '').rsplit('::', 1)[-1] in ('write', 'write_all', 'write_u8', 'write_u16_le', 'write_u32_le',
                                                                        'serialize') for b, t in f.calls())
        rep.oblige('R11.7', name, ok=ok, nontrivial=True, sample={'instance': name, 'stream': args})
        if not ok:
            rep.violation('R11.7', vkey('R11.7', name, 'raw-adapter', ''), f.loc(f.span) if f is not None else name,
                          '%s is instantiated on the raw FS adapter: the adapter moves the device (it rewrites the status byte) after '
                          'a write, so everything written after the first piece lands behind the status byte in the boot sector' % name)
    rep.counts['R11.7'] = n


_run_11d = run


def run(ctx, rep):
    _run_11d(ctx, rep)
    run_raw_adapter_users(ctx, rep)
