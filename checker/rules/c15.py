"""C15 - names: total validation, lossless long names, case-insensitive lookup (DESIGN.md section 4, N1-N6).

N1  validate-first: from create_file / create_dir / rename no unguarded device write happens before the Ok edge of
    a name validator (two-state protocol over the mono call graph)
N3  the accepted character set and length bounds equal the documented long-name set exactly (partition walk)
N4  buffer capacity constants
N5  both operands of every name comparison go through the case-folding function
N6  reader/writer agreement: the decoder accepts exactly the sequence numbers a valid name can need
"""
from analyses import Deps
from core import vkey
from decision import diff_tables, fmt_rows
from protocol import A, B, Protocol
from rules import dtables
from rules.c13 import guarded_blocks
from rules.dtables import AnchorMissing

NAME_ERRORS = ('InvalidFileNameLength', 'UnsupportedFileNameCharacter')
ENTRY_POINTS = ('fatfs::dir::Dir::create_file', 'fatfs::dir::Dir::create_dir', 'fatfs::dir::Dir::rename')
LONG_SPECIALS = "$%'-_@~`!(){}. +,;=[]^#&"


def validators(facts):
    """functions that construct one of the two public name errors"""
    out = set()
    for fn in facts.fns.values():
        if fn.crate != 'fatfs' and '::controls::' not in fn.name:
            continue
        for bi in fn.reachable():
            for s in fn.blocks[bi]['stmts']:
                if s['k'] == 'assign' and s['rv']['k'] == 'agg' and s['rv'].get('adt') == 'fatfs::error::Error' and \
                        s['rv'].get('variant') in NAME_ERRORS:
                    out.add(fn.name)
    return out


def spec_long_table():
    ok = set(range(ord('a'), ord('z') + 1)) | set(range(ord('A'), ord('Z') + 1)) | set(range(ord('0'), ord('9') + 1))
    ok |= {ord(c) for c in LONG_SPECIALS}
    rows = []
    for c in range(0, 0x80):
        o = frozenset(['accept'] if c in ok else ['reject'])
        if rows and rows[-1][2] == o:
            rows[-1] = (rows[-1][0], c, o)
        else:
            rows.append((c, c, o))
    rows.append((0x80, 0xD7FF, frozenset(['accept'])))
    rows.append((0xE000, 0xFFFF, frozenset(['accept'])))
    rows.append((0x10000, 0x10FFFF, frozenset(['reject'])))
    return rows


def run(ctx, rep):
    facts, eff = ctx.facts, ctx.effects
    from rules import allpanics
    allpanics.run_scope(ctx, rep, 'C15', 'N2', 'on the name path')
    # ---------------- N1
    vals = validators(facts)
    if not [v for v in vals if v.startswith('fatfs::')]:
        rep.machinery('ANCHOR-MISSING no function constructs the name errors %s' % (NAME_ERRORS, ))
        return
    gcache = {}
    proto = Protocol(facts, lambda n: n in vals, lambda fn: guarded_blocks(fn, gcache))
    entries = {}
    for i in facts.instances:
        if i['fn'] in ENTRY_POINTS or ('::controls::' in i['fn'] and 'control_n1_' in i['fn']):
            entries[i['id']] = i['fn']
    found = {n for n in entries.values()}
    for need in ENTRY_POINTS:
        if need not in found:
            rep.machinery('ANCHOR-MISSING entry point ' + need)
    proto.solve(entries.keys())
    for iid, name in sorted(entries.items()):
        is_control = '::controls::' in name
        bad = proto.act.get(iid, False)
        ch = proto.chain(iid) if bad else []
        rep.oblige('N1', '%s#%d' % (name, iid), ok=not bad, nontrivial=True,
                   sample={'entry': name, 'instance': facts.instances[iid]['args'][:60],
                           'states_at_ok_exit': sorted(proto.out.get(iid, ())),
                           'verdict': 'no unguarded device write reachable before a validator\'s Ok edge'})
        if bad:
            last = [c for c in ch if c[1]]
            where = last[0][1] if last else name
            # key on the first frame inside fatfs that performs / reaches the write
            frames = [c for c in ch if c[0].startswith(('fatfs::', '<fatfs::'))]
            kf = frames[1][0] if len(frames) > 1 else name
            rep.violation('N1', vkey('N1', name, kf, ''), where,
                          '%s can write to the volume before the new name has been validated (a call failing with a '
                          'name error would leave a side effect)' % name,
                          ['chain: ' + ' -> '.join('%s%s' % (c[0], (' @' + c[1]) if c[1] else '') for c in ch)],
                          control=is_control)

    # ---------------- N3
    try:
        fn, rows, consts = dtables.name_char_table(facts)
        got = []
        for a, b, o in rows:
            o2 = frozenset('accept' if x == 'LOOP' else ('reject' if str(x).startswith('reject:Unsupported') else x)
                           for x in o)
            got.append((a, b, o2))
        df = diff_tables(got, spec_long_table())
        rep.oblige('N3.chars', fn.name, ok=not df, nontrivial=True,
                   sample={'fn': fn.name, 'domain': 'all 0x110000 code points (surrogates excluded)',
                           'cut_constants': len(consts), 'table': fmt_rows(rows, True)[:12]})
        if df:
            rep.violation('N3', vkey('N3', fn.name, 'charset', ''), fn.loc(fn.span),
                          'the set of accepted name characters differs from the documented long-name set',
                          ['U+%04X..U+%04X: code gives %s, documented set says %s' % (a, b, sorted(g) if g else g,
                                                                                    sorted(w) if w else w)
                           for a, b, g, w in df[:6]])
        fn, rows, consts = dtables.name_len_table(facts)
        want = [(0, 255, frozenset(['accept'])), (256, (1 << 64) - 1, frozenset(['reject:InvalidFileNameLength']))]
        df = diff_tables(rows, want)
        # the empty name is rejected by a separate is_empty() test
        has_empty = any((t.get('callee') or '') == 'str::is_empty' for b, t in fn.calls())
        rep.oblige('N3.len', fn.name, ok=not df and has_empty, nontrivial=True,
                   sample={'fn': fn.name, 'table': fmt_rows(rows), 'is_empty_test': has_empty})
        if df or not has_empty:
            rep.violation('N3', vkey('N3', fn.name, 'length', ''), fn.loc(fn.span),
                          'the accepted name lengths are not exactly 1..=255 bytes',
                          ['len %d..%d: %s, expected %s' % (a, b, sorted(g) if g else g, sorted(w) if w else w)
                           for a, b, g, w in df[:4]] + ([] if has_empty else ['no is_empty() rejection']))
    except AnchorMissing as e:
        rep.machinery('ANCHOR-MISSING %s' % e)

    # ---------------- N6 reader/writer agreement on the number of long-name slots
    if ctx.config != 'nostd':
        try:
            fn, rows, consts = dtables.lfn_index_table(facts)
            maxlen = facts.consts.get('fatfs::dir::MAX_LONG_NAME_LEN', {}).get('val')
            part = facts.consts.get('fatfs::dir_entry::LFN_PART_LEN', {}).get('val')
            if not maxlen or not part:
                rep.machinery('ANCHOR-MISSING MAX_LONG_NAME_LEN / LFN_PART_LEN')
            else:
                need = (maxlen + part - 1) // part
                acc = [(a, b) for a, b, o in rows if 'accept' in o]
                rej_only = [(a, b) for a, b, o in rows if o == frozenset(['reject'])]
                ok = acc == [(1, need)]
                rep.oblige('N6', fn.name, ok=ok, nontrivial=True,
                           sample={'fn': fn.name, 'accepted_sequence_numbers': acc, 'needed_for_255_units': [1, need],
                                   'table': fmt_rows(rows)})
                if not ok:
                    rep.violation('N6', vkey('N6', fn.name, 'index-range', ''), fn.loc(fn.span),
                                  'the long-name decoder accepts sequence numbers %s but a valid name of up to %d units '
                                  'needs exactly 1..=%d: such names are written but not read back (or over-long runs '
                                  'are accepted)' % (acc, maxlen, need))
        except AnchorMissing as e:
            rep.machinery('ANCHOR-MISSING %s' % e)

    # ---------------- N4 capacity
    if ctx.config == 'noalloc':
        buf = None
        for fname, adt in facts.api['adts'].items():
            if fname == 'fatfs::dir::LfnBuffer':
                for f in adt['variants'][0]['fields']:
                    t = facts.api['types'][f['ty']]
                    if t['k'] == 'array':
                        buf = t.get('len')
                        if buf is None:
                            import re
                            m = re.search(r';\s*([A-Za-z_][A-Za-z0-9_:]*)\]$', t['s'])
                            if m:
                                for cn, cv in facts.consts.items():
                                    if cn.endswith('::' + m.group(1).split('::')[-1]):
                                        buf = cv['val']
        maxlen = facts.consts.get('fatfs::dir::MAX_LONG_NAME_LEN', {}).get('val')
        maxent = facts.consts.get('fatfs::dir::MAX_LONG_DIR_ENTRIES', {}).get('val')
        part = facts.consts.get('fatfs::dir_entry::LFN_PART_LEN', {}).get('val')
        ok = buf is not None and maxlen is not None and buf >= maxlen and buf >= (maxent or 0) * (part or 0)
        rep.oblige('N4', 'LfnBuffer', ok=ok, nontrivial=True,
                   sample={'buffer_len': buf, 'max_name': maxlen, 'max_entries_x_part': (maxent or 0) * (part or 0)})
        if not ok:
            rep.violation('N4', vkey('N4', 'fatfs::dir::LfnBuffer', 'capacity', ''), 'src/dir.rs',
                          'the fixed long-name buffer holds %s units but names of %s units / %s x %s slot units must fit'
                          % (buf, maxlen, maxent, part))

    # ---------------- N5 symmetric folding
    for name in ('fatfs::dir_entry::DirEntry::eq_name_lfn', 'fatfs::dir_entry::ShortName::eq_ignore_case'):
        fn = facts.fns.get(name)
        if fn is None:
            if name.endswith('eq_name_lfn') and ctx.config == 'nostd':
                continue
            rep.machinery('ANCHOR-MISSING ' + name)
            continue
        n = 0
        bodies = [fn] + [f2 for n2, f2 in facts.fns.items() if n2.startswith(name + '::{closure')]
        for fb, bi in [(fb, bi) for fb in bodies for bi in fb.reachable()]:
            blk = fb.blocks[bi]
            for s in blk['stmts']:
                if s['k'] == 'assign':
                    from model import operands_of_rvalue, op_const
                    for o in operands_of_rvalue(s['rv']):
                        c = op_const(o)
                        if c and (c.get('fn') or '').endswith('char_to_uppercase'):
                            n += 1
            t = blk['term']
            if t['k'] == 'call':
                if (t.get('callee') or '').endswith('char_to_uppercase'):
                    n += 1
                for a in t['args']:
                    from model import op_const
                    c = op_const(a)
                    if c and (c.get('fn') or '').endswith('char_to_uppercase'):
                        n += 1
        ok = n >= 2
        rep.oblige('N5', name, ok=ok)
        if not ok:
            rep.violation('N5', vkey('N5', name, 'fold-both', ''), fn.loc(fn.span),
                          '%s applies the case-folding function to only %d operand stream(s)' % (name, n))

    # ---------------- N7 number of long-name slots = ceil(units / 13)
    GN = facts.fns.get('fatfs::dir::LfnEntriesGenerator::new')
    # (the build without `lfn` has a stub generator that yields nothing: no long-name slots exist there)
    if GN is not None and 'fatfs::dir::MAX_LONG_DIR_ENTRIES' in facts.consts:
        from rules.siblings import arith_fingerprint
        ops, calls_ = arith_fingerprint(GN)
        part = facts.consts.get('fatfs::dir_entry::LFN_PART_LEN', {}).get('val', 13)
        dg = Deps(GN)
        # the value stored in `num`
        num_ok = False
        for bi in GN.reachable():
            for s_ in GN.blocks[bi]['stmts']:
                if s_['k'] == 'assign' and s_['rv']['k'] == 'agg' and 'num' in (s_['rv'].get('fields') or []):
                    o = s_['rv']['ops'][s_['rv']['fields'].index('num')]
                    tk = dg.of_operand(o)
                    num_ok = ('const', part) in tk and any(t_[0] == 'call' and t_[1].endswith('::len') for t_ in tk)
        ok = num_ok and calls_.get('div_ceil', 0) == 1 and not [k for k in ops if k[0] in ('Add', 'Sub', 'Div', 'Mul', 'Rem')]
        rep.oblige('N7', GN.name, ok=ok, nontrivial=True,
                   sample={'fn': GN.name, 'arithmetic': sorted(map(str, ops.items())), 'ceil_div': calls_.get('div_ceil', 0)})
        if not ok:
            rep.violation('N7', vkey('N7', GN.name, 'slot-count', ''), GN.loc(GN.span),
                          'the number of long-name slots (and with it the sequence numbers) is not the name length divided '
                          'by %d rounded up (arithmetic found: %s): names whose length is a multiple of %d get a sequence '
                          'that readers reject' % (part, sorted(ops.elements()) + sorted(calls_.elements()), part))

    # ---------------- N5b equality needs both sequences exhausted
    EQ = facts.fns.get('fatfs::dir_entry::DirEntry::eq_name_lfn')
    if EQ is not None:
        seq_equality_rule(rep, EQ)

    # ---------------- N5f the short name is always consulted: `eq_name` answers from the long-name comparison only when
    # that comparison said `equal`; every other path to its return crosses ShortName::eq_ignore_case, whose result is
    # the answer (an entry listed under its 8.3 name - any OEM bytes, any length in bytes - is found by that name).
    # Seed C15-Q: a byte-length "fast path" (`name.len() > 12 => false`) in front of the short-name comparison
    EN = facts.fns.get('fatfs::dir_entry::DirEntry::eq_name')
    if EN is None:
        rep.machinery('ANCHOR-MISSING DirEntry::eq_name')
    else:
        from analyses import switch_source, nonzero_targets, path_to
        sn = [b for b, t in EN.calls() if (t.get('callee') or '').endswith('ShortName::eq_ignore_case')]
        rets = [b for b in EN.reachable() if EN.blocks[b]['term']['k'] == 'return']
        cut_edges = set()
        for bi in EN.reachable():
            tt = EN.blocks[bi]['term']
            if tt['k'] != 'switch':
                continue
            src = switch_source(EN, bi)
            if src and src['kind'] == 'call' and (src['term'].get('callee') or '').endswith('DirEntry::eq_name_lfn'):
                cut_edges |= {(bi, x) for x in nonzero_targets(tt)}
        ok = bool(sn) and bool(rets)
        path = path_to(EN, 0, rets, cut_blocks=sn, cut_edges=cut_edges) if ok else None
        flows = any(tk[0] == 'call' and tk[1].endswith('ShortName::eq_ignore_case') for tk in Deps(EN).of_local(0))
        ok = ok and path is None and flows
        rep.oblige('N5f', EN.name, ok=ok, nontrivial=True,
                   sample={'fn': EN.name, 'short_name_calls': len(sn), 'lfn_true_edges': len(cut_edges)})
        if not ok:
            rep.violation('N5', vkey('N5', EN.name, 'short-name-skipped', ''),
                          EN.loc(EN.span),
                          'eq_name can answer without comparing the short name although the long-name comparison did not '
                          'say `equal` (path %s): an entry is listed under a name that open / remove / rename / the '
                          'existence check do not find' % (path,))


def seq_equality_rule(rep, fn):
    """a loop that compares two sequences element by element may only report `equal` after it has seen the end of
    BOTH: every path to a possibly-true result crosses the None edge of a `next()` on the stored-name iterator and on
    the requested-name iterator (or the result *is* that exhaustion test)"""
    from analyses import switch_source
    from model import op_const, op_place

    defs = {}
    multi = set()
    for bi in fn.reachable():
        for s in fn.blocks[bi]['stmts']:
            if s['k'] == 'assign' and not s['lhs']['p']:
                l = s['lhs']['l']
                if l in defs:
                    multi.add(l)
                defs[l] = ('stmt', s['rv'], bi)
        t = fn.blocks[bi]['term']
        if t['k'] == 'call' and not t['dest']['p']:
            l = t['dest']['l']
            if l in defs:
                multi.add(l)
            defs[l] = ('call', t, bi)

    def origin(local, depth=0):
        """'S' (stored long name), 'Q' (requested name, parameter 2) or None; an iterator made from an *element* of a
        sequence (something that came out of next()) is neither"""
        if depth > 25:
            return None
        if local == 2:
            return 'Q'
        if local in multi or local not in defs:
            return None
        d = defs[local]
        if d[0] == 'call':
            c = d[1].get('callee') or ''
            if c.endswith('long_file_name_as_ucs2_units'):
                return 'S'
            if c.endswith('Iterator::next'):
                return None
            for a in d[1]['args'][:1]:
                p = op_place(a)
                if p is not None:
                    return origin(p['l'], depth + 1)
            return None
        rv = d[1]
        if rv['k'] in ('use', 'cast'):
            p = op_place(rv['a'])
            return origin(p['l'], depth + 1) if p is not None else None
        if rv['k'] in ('ref', 'rawptr'):
            return origin(rv['p']['l'], depth + 1)
        return None

    nexts = {'S': [], 'Q': []}
    alls = {'S': [], 'Q': []}
    for b, t in fn.calls():
        if (t.get('callee') or '').endswith('Iterator::next') and t['args']:
            p = op_place(t['args'][0])
            o = origin(p['l']) if p is not None else None
            if o:
                nexts[o].append((b, t))
        if (t.get('callee') or '').endswith('Iterator::all') and t['args']:
            # `seq.all(|x| ..)` answers true only after it has walked the whole sequence
            p = op_place(t['args'][0])
            o = origin(p['l']) if p is not None else None
            if o:
                alls[o].append((b, t))
    uses_eq = any((t.get('callee') or '').endswith(('Iterator::eq', 'Iterator::eq_by', 'Iterator::cmp')) for b, t in fn.calls())
    if uses_eq and not (nexts['S'] or nexts['Q']):
        rep.oblige('N5b', fn.name, ok=True, sample={'fn': fn.name, 'how': 'compares with Iterator::eq'})
        return
    if not (nexts['S'] or alls['S']) or not (nexts['Q'] or alls['Q']):
        rep.oblige('N5b', fn.name, ok=False, nontrivial=True)
        rep.violation('N5b', vkey('N5b', fn.name, 'no-lockstep', ''), fn.loc(fn.span),
                      '%s does not walk both the stored and the requested name (stored: %d next() sites, requested: %d)'
                      % (fn.name, len(nexts['S']), len(nexts['Q'])))
        return
    # exhaustion edges and exhaustion-encoding results per sequence
    exhaust = {'S': set(), 'Q': set()}
    encodes = {}
    for cls, lst in nexts.items():
        for b, t in lst:
            D = t['dest']['l']
            for bi in fn.reachable():
                tt = fn.blocks[bi]['term']
                if tt['k'] == 'switch':
                    src = switch_source(fn, bi)
                    if src and src['kind'] == 'discr' and src['place']['l'] == D:
                        exhaust[cls] |= {(bi, x) for v, x in tt['targets'] if v == 0}
                        if not any(v == 0 for v, _ in tt['targets']):
                            exhaust[cls].add((bi, tt['otherwise']))
                if tt['k'] == 'call' and (tt.get('callee') or '').endswith('Option::is_none') and tt['args']:
                    pa = op_place(tt['args'][0])
                    src_l = pa['l'] if pa is not None else None
                    # the argument is (a reference to) the result of this next()
                    seen = 0
                    while src_l is not None and src_l != D and seen < 6:
                        dd = defs.get(src_l)
                        seen += 1
                        if dd and dd[0] == 'stmt' and dd[1]['k'] in ('ref', 'use'):
                            src_l = dd[1]['p']['l'] if dd[1]['k'] == 'ref' else (op_place(dd[1]['a']) or {}).get('l')
                        else:
                            src_l = None
                    if src_l == D:
                        encodes[(bi, tt['dest']['l'])] = cls
    from analyses import nonzero_targets
    for cls, lst in alls.items():
        for b, t in lst:
            D = t['dest']['l']
            for bi in fn.reachable():
                tt = fn.blocks[bi]['term']
                if tt['k'] != 'switch':
                    continue
                dp = op_place(tt['discr'])
                src_l = dp['l'] if dp is not None and not dp['p'] else None
                seen = 0
                while src_l is not None and src_l != D and seen < 6:
                    dd = defs.get(src_l)
                    seen += 1
                    src_l = (op_place(dd[1]['a']) or {}).get('l') if dd and dd[0] == 'stmt' and dd[1]['k'] == 'use' else None
                if src_l == D:
                    # every arm but the `true` one is cut: only `all(..) == true` has seen the end
                    exhaust[cls] |= {(bi, x) for x in nonzero_targets(tt)}
    problems = []
    n_true = 0
    for bi in sorted(fn.reachable()):
        cands = []
        for s in fn.blocks[bi]['stmts']:
            if s['k'] == 'assign' and s['lhs']['l'] == 0 and not s['lhs']['p']:
                c = op_const(s['rv']['a']) if s['rv']['k'] == 'use' else None
                if c is not None and c.get('val') == 0:
                    continue  # `false`
                cands.append(None)
        tt = fn.blocks[bi]['term']
        if tt['k'] == 'call' and tt['dest']['l'] == 0 and not tt['dest']['p']:
            cands.append(encodes.get((bi, 0)))
        for enc in cands:
            n_true += 1
            for cls in ('S', 'Q'):
                if enc == cls:
                    continue
                reach = fn.reach_from([0], cut_edges=exhaust[cls])
                if bi in reach:
                    problems.append('a result that can be `true` (bb%d) is reachable without having seen the end of the %s name'
                                    % (bi, 'stored' if cls == 'S' else 'requested'))
    ok = not problems and n_true > 0
    rep.oblige('N5b', fn.name, ok=ok, nontrivial=True, sample={'fn': fn.name, 'true-capable results': n_true})
    if not ok:
        rep.violation('N5b', vkey('N5b', fn.name, 'both-exhausted', ''), fn.loc(fn.span),
                      '%s can report two names as equal when one is only a prefix of the other: %s' % (
                          fn.name, '; '.join(sorted(set(problems))) or 'no result that can be true was found'))


# ---------------------------------------------------------------------------------------------
# N8  lengths are compared only with lengths of the same unit (UTF-8 bytes / UTF-16 units / chars)
from model import op_place, op_const  # noqa: E402

def _len_unit(fn, t):
    """unit of the count a call returns, or None"""
    callee = t.get('callee') or ''
    if callee in ('str::len', 'alloc::string::String::len'):
        return 'utf8-bytes'
    if callee.endswith('::LfnBuffer::len'):
        return 'utf16-units'
    if callee in ('[T]::len', 'core::slice::<impl [T]>::len', 'alloc::vec::Vec::len') and t['args']:
        p = op_place(t['args'][0])
        ty = fn.local_ty(p['l']) if p is not None and not p['p'] else None
        for _ in range(3):
            if ty is not None and ty.get('k') in ('ref', 'ptr'):
                ty = fn.types[ty['to']]
        el = None
        if ty is not None and ty.get('k') in ('slice', 'array'):
            el = fn.types[ty['of']]
        elif ty is not None and ty.get('k') == 'adt' and ty.get('path', '').endswith('::Vec') and ty.get('args'):
            el = fn.types[ty['args'][0]]
        if el is not None and el.get('k') == 'int' and el.get('bits') == 16 and not el.get('signed'):
            return 'utf16-units'
        return None
    if callee == 'core::iter::traits::iterator::Iterator::count' and t['args']:
        p = op_place(t['args'][0])
        ty = fn.local_ty(p['l']) if p is not None and not p['p'] else None
        path = (ty or {}).get('path', '')
        if path.endswith('::Chars'):
            return 'chars'
        if path.endswith('::EncodeUtf16'):
            return 'utf16-units'
    return None


def unit_tags(fn):
    """local -> unit of the length it holds (tags flow through copies, casts and +/- constants)"""
    tag = {}
    conflict = set()

    def settag(l, u):
        if u is None or l in conflict:
            return False
        if l in tag and tag[l] != u:
            conflict.add(l)
            tag.pop(l)
            return True
        if l not in tag:
            tag[l] = u
            return True
        return False

    for bi in fn.reachable():
        t = fn.blocks[bi]['term']
        if t['k'] == 'call' and not t['dest']['p']:
            settag(t['dest']['l'], _len_unit(fn, t))
    if not tag:
        return tag
    changed = True
    rounds = 0
    while changed and rounds < 20:
        changed = False
        rounds += 1
        for bi in fn.reachable():
            for s in fn.blocks[bi]['stmts']:
                if s['k'] != 'assign' or s['lhs']['p']:
                    continue
                rv = s['rv']
                u = None
                if rv['k'] in ('use', 'cast'):
                    p = op_place(rv['a'])
                    if p is not None:
                        u = tag.get(p['l']) if not p['p'] or p['p'] == [{'f': 0, 'n': '0'}] else None
                        if p['p'] and not u:
                            # `.0` of a checked-arithmetic pair
                            if len(p['p']) == 1 and 'f' in p['p'][0] and p['p'][0].get('f') == 0:
                                u = tag.get(p['l'])
                elif rv['k'] == 'binop' and rv['op'].replace('WithOverflow', '') in ('Add', 'Sub'):
                    pa, pb = op_place(rv['a']), op_place(rv['b'])
                    ca, cb = op_const(rv['a']), op_const(rv['b'])
                    if pa is not None and not pa['p'] and cb is not None:
                        u = tag.get(pa['l'])
                    elif pb is not None and not pb['p'] and ca is not None and rv['op'].startswith('Add'):
                        u = tag.get(pb['l'])
                if settag(s['lhs']['l'], u):
                    changed = True
    return tag


def length_units(ctx, rep):
    """N8: a name exists in three encodings (UTF-8 in the API, UTF-16 on disk, chars in between); a count in one unit
    compared with (or added to / subtracted from) a count in another is meaningless for non-ASCII names.  Tags flow
    through copies, casts and +/- constants only, so a tagged value *is* such a count."""
    facts = ctx.facts
    n = nb = 0
    part = facts.consts.get('fatfs::dir_entry::LFN_PART_LEN', {}).get('val')
    for fn in facts.fns.values():
        is_control = fn.crate == 'vf_witness' and '::controls::control_n8' in fn.name
        if fn.crate != 'fatfs' and not is_control:
            continue
        tag = unit_tags(fn)
        if not tag:
            continue
        for bi in fn.reachable():
            for s in fn.blocks[bi]['stmts']:
                if s['k'] != 'assign' or s['rv']['k'] != 'binop':
                    continue
                op = s['rv']['op'].replace('WithOverflow', '')
                if op not in ('Eq', 'Ne', 'Lt', 'Le', 'Gt', 'Ge', 'Add', 'Sub'):
                    continue
                pa, pb = op_place(s['rv']['a']), op_place(s['rv']['b'])
                if pa is None or pb is None or pa['p'] or pb['p']:
                    continue
                ua, ub = tag.get(pa['l']), tag.get(pb['l'])
                if ua is None or ub is None:
                    continue
                ok = ua == ub
                if is_control:
                    if not ok:
                        rep.control('N8')
                    continue
                n += 1
                rep.oblige('N8', '%s|bb%d' % (fn.name, bi), ok=ok, nontrivial=True,
                           sample={'fn': fn.name, 'at': fn.loc(s['span']), 'units': [ua, ub]})
                if not ok:
                    rep.violation('N8', vkey('N8', fn.name, op, s['span']['snip']), fn.loc(s['span']),
                                  '%s combines a length in %s with a length in %s (`%s`): the two only agree for ASCII names, so '
                                  'a name with a non-ASCII character is treated differently from how it was stored' %
                                  (fn.name, ua, ub, s['span']['snip'][:80]))
        # N8b: a long-name slot holds LFN_PART_LEN UTF-16 units, so a count that is divided by (rounded up to, multiplied
        # from) that constant must be a count of UTF-16 units
        if part is None:
            continue
        for bi in fn.reachable():
            for s in fn.blocks[bi]['stmts']:
                if s['k'] != 'assign' or s['rv']['k'] != 'binop' or s['rv']['op'] not in ('Div', 'Rem'):
                    continue
                pa, cb = op_place(s['rv']['a']), op_const(s['rv']['b'])
                if pa is None or pa['p'] or cb is None or cb.get('val') != part or tag.get(pa['l']) is None:
                    continue
                ua = tag[pa['l']]
                ok = ua == 'utf16-units'
                if is_control:
                    continue
                nb += 1
                rep.oblige('N8b', '%s|bb%d' % (fn.name, bi), ok=ok, nontrivial=True,
                           sample={'fn': fn.name, 'at': fn.loc(s['span']), 'unit': ua})
                if not ok:
                    rep.violation('N8b', vkey('N8b', fn.name, 'slots', s['span']['snip']), fn.loc(s['span']),
                                  '%s derives a number of long-name slots from a length in %s (`%s`): a slot holds %d UTF-16 units, '
                                  'so the count is wrong for every name with a non-ASCII character' %
                                  (fn.name, ua, s['span']['snip'][:80], part))
        # the same through `x.div_ceil(LFN_PART_LEN)`
        for bi, t in fn.calls():
            if (t.get('callee') or '').rsplit('::', 1)[-1] == 'div_ceil' and len(t['args']) == 2:
                pa, cb = op_place(t['args'][0]), op_const(t['args'][1])
                if pa is None or pa['p'] or cb is None or cb.get('val') != part or tag.get(pa['l']) is None or is_control:
                    continue
                ua = tag[pa['l']]
                nb += 1
                rep.oblige('N8b', '%s|bb%d' % (fn.name, bi), ok=ua == 'utf16-units', nontrivial=True,
                           sample={'fn': fn.name, 'at': fn.loc(t['span']), 'unit': ua})
                if ua != 'utf16-units':
                    rep.violation('N8b', vkey('N8b', fn.name, 'slots', t['span']['snip']), fn.loc(t['span']),
                                  '%s derives a number of long-name slots from a length in %s (`%s`): a slot holds %d UTF-16 units, '
                                  'so the count is wrong for every name with a non-ASCII character' %
                                  (fn.name, ua, t['span']['snip'][:80], part))
    rep.counts['N8.pairs'] = n
    rep.counts['N8b.sites'] = nb
    rep.oblige('N8.scan', 'fatfs', ok=True)


_run_n = run


def run(ctx, rep):
    _run_n(ctx, rep)
    length_units(ctx, rep)


# ---------------------------------------------------------------------------------------------
# N5c  the case fold of a character is used in full (an upper-case expansion can be several characters)

def fold_not_truncated(ctx, rep):
    """`char_to_uppercase` returns an iterator (`ß` folds to `SS`). Taking only its first item (`.next()` outside a loop
    over it, `.nth(0)`, `.last()`) compares a prefix of the expansion: names that differ are matched and equal names are
    not. Not decided: whether the expansions are compared as one stream or per character (a value property)."""
    facts = ctx.facts
    n = 0
    for fn in facts.fns.values():
        if fn.crate != 'fatfs':
            continue
        folds = [(b, t) for b, t in fn.calls() if (t.get('callee') or '').endswith('dir_entry::char_to_uppercase')]
        if not folds:
            continue
        d = Deps(fn)
        loops = fn.loops()
        in_loop = set()
        for body in loops.values():
            in_loop |= set(body)
        for fb, ft in folds:
            n += 1
            bad = None
            for b, t in fn.calls():
                callee = t.get('callee') or ''
                short = callee.rsplit('::', 1)[-1]
                if not callee.startswith('core::iter::') or short not in ('next', 'nth', 'last', 'next_back', 'nth_back'):
                    continue
                if not t['args'] or ('callsite', fb) not in d.of_operand(t['args'][0]):
                    continue
                if short == 'next' and b in in_loop:
                    continue
                bad = (b, t)
            rep.oblige('N5c', '%s|bb%d' % (fn.name, fb), ok=bad is None, nontrivial=True,
                       sample={'fn': fn.name, 'at': fn.loc(ft['span']), 'rule': 'the fold iterator is not cut to one item'})
            if bad:
                rep.violation('N5c', vkey('N5c', fn.name, 'truncated-fold', ''), fn.loc(bad[1]['span']),
                              '%s takes only one item of the case-folded expansion of a character (`%s`): characters whose '
                              'upper-case form is several characters are compared by a prefix of it' % (fn.name, bad[1]['span']['snip'][:60]))
    rep.counts['N5c.sites'] = n


_run_n8 = run


def run(ctx, rep):
    _run_n8(ctx, rep)
    fold_not_truncated(ctx, rep)


# ---------------------------------------------------------------------------------------------
# N9  one name per operation: the string that is validated, looked up for existence, turned into the 8.3 alias and stored
#     in the long-name slots is the same string

def _single_defs(fn):
    defs, multi = {}, set()
    for bi in fn.reachable():
        for s in fn.blocks[bi]['stmts']:
            if s['k'] == 'assign' and not s['lhs']['p']:
                l = s['lhs']['l']
                if l in defs:
                    multi.add(l)
                defs[l] = ('stmt', s['rv'])
        t = fn.blocks[bi]['term']
        if t['k'] == 'call' and not t['dest']['p']:
            l = t['dest']['l']
            if l in defs:
                multi.add(l)
            defs[l] = ('call', t)
    for l in multi:
        defs.pop(l)
    return defs


def _identity_param(facts, callee, cache, depth=0):
    """index (0-based) of the parameter a function hands back unchanged as its (Ok) result, or None"""
    if callee in cache:
        return cache[callee]
    cache[callee] = None
    fn = facts.fns.get(callee)
    if fn is None or depth > 3:
        return None
    defs = _single_defs(fn)
    roots = set()
    for bi in fn.reachable():
        for s in fn.blocks[bi]['stmts']:
            if s['k'] != 'assign' or s['lhs']['l'] != 0:
                continue
            rv = s['rv']
            if rv['k'] == 'agg' and rv.get('ak') == 'adt' and rv.get('variant') in ('Err', 'None'):
                continue
            if rv['k'] == 'agg' and rv.get('ak') == 'adt' and rv.get('variant') in ('Ok', 'Some') and len(rv['ops']) == 1:
                roots.add(_name_root(facts, fn, defs, rv['ops'][0], cache, depth + 1))  # (looks through one-field wrappers)
            elif rv['k'] == 'use':
                roots.add(_name_root(facts, fn, defs, rv['a'], cache, depth + 1))
            else:
                roots.add(None)
        t = fn.blocks[bi]['term']
        if t['k'] == 'call' and t['dest']['l'] == 0 and not (t.get('callee') or '').endswith('FromResidual::from_residual'):
            roots.add(None)
    if len(roots) == 1:
        r = next(iter(roots))
        if r is not None and r[0] == 'param':
            cache[callee] = r[1] - 1
    return cache[callee]


def _name_root(facts, fn, defs, o, cache, depth=0):
    """('param', i) / ('local', l): where a string operand comes from, through copies, reborrows, `?` and functions that
    return their argument unchanged"""
    p = op_place(o)
    if p is None:
        return None
    l = p['l']
    for _ in range(40):
        if 1 <= l <= fn.argc:
            return ('param', l)
        d = defs.get(l)
        if d is None:
            return ('local', l)
        if d[0] == 'stmt':
            rv = d[1]
            q = None
            if rv['k'] in ('use', 'cast'):
                q = op_place(rv['a'])
                if q is None and op_const(rv['a']) is not None:
                    return ('const', l)
            elif rv['k'] == 'ref':
                q = rv['p']
            if q is None and rv['k'] == 'agg' and rv.get('ak') == 'adt' and len(rv.get('ops') or []) == 1 and \
                    (rv.get('adt') or '').startswith('fatfs::'):
                q = op_place(rv['ops'][0])  # a one-field wrapper built around the value
                if q is not None and not q['p']:
                    l = q['l']
                    continue
                q = None
            if q is None:
                return ('local', l)
            proj = [e for e in q['p'] if 'deref' not in e and e != {'deref': True}]
            proj = [e for e in proj if not (isinstance(e, dict) and list(e.keys()) == ['deref'])]
            if proj:
                if 1 <= q['l'] <= fn.argc and all('f' in e for e in proj) and len(proj) == 1:
                    return ('param', q['l'])  # the field of a one-field wrapper the caller passed (`name.0` of a `ValidName(&str)`)
                src = defs.get(q['l'])
                base_l = q['l']
                for _hop in range(6):  # the struct value may have been moved a few times (`g = move tmp`)
                    if src is not None and src[0] == 'stmt' and src[1]['k'] == 'use' and op_place(src[1]['a']) is not None and \
                            not op_place(src[1]['a'])['p']:
                        base_l = op_place(src[1]['a'])['l']
                        if 1 <= base_l <= fn.argc and all('f' in e for e in proj) and len(proj) == 1:
                            return ('param', base_l)  # a moved copy of a one-field wrapper parameter
                        src = defs.get(base_l)
                    elif src is not None and src[0] == 'stmt' and src[1]['k'] == 'ref' and not src[1]['p']['p']:
                        src = defs.get(src[1]['p']['l'])  # the environment of an inlined closure: `&closure`
                    else:
                        break
                names = [e.get('n') if e.get('n') is not None else str(e.get('f')) for e in proj if 'f' in e]
                # a field of a struct value built in this function (`g = Geometry { n: x, .. }; .. g.n`): what was put there
                is_clo = src is not None and src[0] == 'stmt' and src[1]['k'] == 'agg' and src[1].get('ak') == 'closure' and \
                    len(names) == 1 and len(proj) == 1 and (names[0] or '').isdigit() and int(names[0]) < len(src[1].get('ops') or [])
                if is_clo or (src is not None and src[0] == 'stmt' and src[1]['k'] == 'agg' and src[1].get('ak') == 'adt' and
                              len(names) == 1 and len(proj) == 1 and names[0] in (src[1].get('fields') or [])):
                    o2 = src[1]['ops'][int(names[0])] if is_clo else src[1]['ops'][src[1]['fields'].index(names[0])]
                    q2 = op_place(o2)
                    if q2 is None:
                        return ('const', l) if op_const(o2) is not None else ('local', l)
                    if q2['p']:
                        return ('local', l)
                    l = q2['l']
                    continue
                # payload of `?`: (x as Continue).0 / (x as Ok).0 where x is the result of an identity function
                if src is not None and src[0] == 'call' and names == ['0']:
                    t = src[1]
                    callee = t.get('callee') or ''
                    if callee.endswith('Try::branch'):
                        inner = op_place(t['args'][0])
                        src2 = defs.get(inner['l']) if inner is not None and not inner['p'] else None
                        if src2 is not None and src2[0] == 'call':
                            t = src2[1]
                            callee = t.get('callee') or ''
                        else:
                            return ('local', l)
                    ip = _identity_param(facts, callee, cache, depth + 1)
                    if ip is not None and ip < len(t['args']):
                        q2 = op_place(t['args'][ip])
                        if q2 is None:
                            return ('local', l)
                        l = q2['l']
                        continue
                return ('local', l)
            l = q['l']
            continue
        t = d[1]
        ip = _identity_param(facts, t.get('callee') or '', cache, depth + 1)
        if ip is not None and ip < len(t['args']):
            q2 = op_place(t['args'][ip])
            if q2 is None:
                return ('local', l)
            l = q2['l']
            continue
        return ('local', l)
    return ('local', l)


NAME_SINKS = (('::Dir::encode_lfn_utf16', 0, 'is stored in the long-name slots'),
              ('::ShortNameGenerator::new', 0, 'is turned into the 8.3 alias'),
              ('::Dir::find_entry', 1, 'is looked up for existence'),
              ('::DirEntry::eq_name', 1, 'is compared with the stored names'))
CHECK_EXIST = 'fatfs::dir::Dir::check_for_existence'
WRITE_ENTRY = 'fatfs::dir::Dir::write_entry'
FIND_ENTRY = 'fatfs::dir::Dir::find_entry'


def one_name(ctx, rep):
    facts = ctx.facts
    cache = {}
    n = 0
    for fname in (CHECK_EXIST, WRITE_ENTRY, FIND_ENTRY):
        fn = facts.fns.get(fname)
        if fn is None:
            continue
        defs = _single_defs(fn)
        for b, t in fn.calls():
            callee = t.get('callee') or ''
            for suffix, ix, what in NAME_SINKS:
                if not callee.endswith(suffix) or ix >= len(t['args']):
                    continue
                r = _name_root(facts, fn, defs, t['args'][ix], cache)
                ok = r is not None and r[0] == 'param'
                n += 1
                rep.oblige('N9', '%s|%s' % (fn.name, suffix), ok=ok, nontrivial=True,
                           sample={'fn': fn.name, 'at': fn.loc(t['span']), 'sink': suffix.strip(':'), 'origin': list(r) if r else None})
                if not ok:
                    rep.violation('N9', vkey('N9', fn.name, suffix, ''), fn.loc(t['span']),
                                  'the name that %s in %s is not the name the caller passed (it is derived inside the function: `%s`), '
                                  'so the existence check, the alias and the stored long name can be about different strings' %
                                  (what, fn.name, t['span']['snip'][:70]))
    # callers: the existence check and the write are about the same string
    m = 0
    for fn in facts.fns.values():
        if fn.crate != 'fatfs':
            continue
        chk = [(b, t) for b, t in fn.calls() if (t.get('callee') or '') == CHECK_EXIST]
        wr = [(b, t) for b, t in fn.calls() if (t.get('callee') or '') == WRITE_ENTRY]
        if not chk or not wr:
            continue
        defs = _single_defs(fn)
        roots_c = {_name_root(facts, fn, defs, t['args'][1], cache) for b, t in chk if len(t['args']) > 1}
        for b, t in wr:
            if len(t['args']) < 2:
                continue
            r = _name_root(facts, fn, defs, t['args'][1], cache)
            if r is None or r[0] == 'const':
                continue  # a literal name (the dot entries of a new directory)
            ok = r in roots_c
            m += 1
            rep.oblige('N9.pair', '%s|bb%d' % (fn.name, b), ok=ok, nontrivial=True,
                       sample={'fn': fn.name, 'at': fn.loc(t['span']), 'written': list(r) if r else None})
            if not ok:
                rep.violation('N9', vkey('N9', fn.name, 'pair', ''), fn.loc(t['span']),
                              '%s checks one string for existence and writes an entry under another (`%s`)' %
                              (fn.name, t['span']['snip'][:70]))
    rep.counts['N9.sinks'] = n
    rep.counts['N9.pairs'] = m


_run_n9 = run


def run(ctx, rep):
    _run_n9(ctx, rep)
    one_name(ctx, rep)


# ---------------------------------------------------------------------------------------------
# N5d  with Unicode folding the length of a name is not invariant under case conversion (`ß` -> `SS`): where two names are
#      compared by their folded characters, no comparison of their raw lengths decides the answer

def fold_length_shortcut(ctx, rep):
    facts = ctx.facts
    fold = facts.fns.get('fatfs::dir_entry::char_to_uppercase')
    if fold is None:
        return
    expanding = any((t.get('callee') or '').endswith('::to_uppercase') for b, t in fold.calls())
    if not expanding:
        rep.counts['N5d.not-expanding'] = 1  # ASCII folding keeps the length: a length test is sound in this build
        return
    n = 0
    for fn in facts.fns.values():
        if fn.crate != 'fatfs':
            continue
        if not any((t.get('callee') or '').endswith('dir_entry::char_to_uppercase') for b, t in fn.calls()) and \
                not any(tk == ('fnref', 'fatfs::dir_entry::char_to_uppercase') for l in Deps(fn).direct.values() for tk in l):
            continue
        n += 1
        tag = unit_tags(fn)
        bad = None
        for bi in sorted(fn.reachable()):
            for s in fn.blocks[bi]['stmts']:
                if s['k'] != 'assign' or s['rv']['k'] != 'binop' or s['rv']['op'] not in ('Eq', 'Ne', 'Lt', 'Le', 'Gt', 'Ge'):
                    continue
                pa, pb = op_place(s['rv']['a']), op_place(s['rv']['b'])
                if pa is None or pb is None or pa['p'] or pb['p']:
                    continue
                if tag.get(pa['l']) and tag.get(pb['l']):
                    bad = s
        rep.oblige('N5d', fn.name, ok=bad is None, nontrivial=True, sample={'fn': fn.name, 'rule': 'no raw-length comparison next to a folded comparison'})
        if bad is not None:
            rep.violation('N5d', vkey('N5d', fn.name, 'length-shortcut', ''), fn.loc(bad['span']),
                          '%s compares names by their case-folded characters but also compares their raw lengths (`%s`): folding can '
                          'change the length (`ß` folds to `SS`), so names that match after folding are rejected' %
                          (fn.name, bad['span']['snip'][:70]))
    rep.counts['N5d.fns'] = n


_run_n5d = run


def run(ctx, rep):
    _run_n5d(ctx, rep)
    fold_length_shortcut(ctx, rep)


# ---------------------------------------------------------------------------------------------
# N5e  with Unicode folding the requested name is folded as one *stream* (`name.chars().flat_map(fold)`): folding a single
#      character of it and comparing that with the fold of a single stored character pairs the two names position by
#      position, which is wrong as soon as one fold is longer than the other (`ß` / `SS`)

def fold_per_character(ctx, rep):
    facts = ctx.facts
    fold = facts.fns.get('fatfs::dir_entry::char_to_uppercase')
    if fold is None or not any((t.get('callee') or '').endswith('::to_uppercase') for b, t in fold.calls()):
        return
    fn = facts.fns.get('fatfs::dir_entry::DirEntry::eq_name_lfn')
    if fn is None:
        return
    defs = _single_defs(fn)

    def from_name(l, depth=0):
        """does the local hold (an iterator over / a reference to) the requested name (parameter 2)?"""
        if depth > 20:
            return False
        if l == 2:
            return True
        d = defs.get(l)
        if d is None:
            return False
        if d[0] == 'call':
            c = d[1].get('callee') or ''
            if c.endswith('Iterator::next'):
                return False
            p = op_place(d[1]['args'][0]) if d[1]['args'] else None
            return p is not None and from_name(p['l'], depth + 1)
        rv = d[1]
        if rv['k'] in ('use', 'cast'):
            p = op_place(rv['a'])
            return p is not None and from_name(p['l'], depth + 1)
        if rv['k'] in ('ref', 'rawptr'):
            return from_name(rv['p']['l'], depth + 1)
        return False

    def element_of_name(l, depth=0):
        """is the local a character handed out by `next()` on an iterator over the requested name?"""
        if depth > 12:
            return False
        d = defs.get(l)
        if d is None:
            return False
        if d[0] == 'stmt' and d[1]['k'] in ('use', 'cast'):
            p = op_place(d[1]['a'])
            if p is None:
                return False
            if p['p']:
                src = defs.get(p['l'])
                # a match guard sees its bindings by reference: `*(&(r as Some).0)`
                if src is not None and src[0] == 'stmt' and src[1]['k'] == 'ref' and all('deref' in e for e in p['p']):
                    p = src[1]['p']
                    if not p['p']:
                        return element_of_name(p['l'], depth + 1)
                    src = defs.get(p['l'])
                if src is not None and src[0] == 'call' and (src[1].get('callee') or '').endswith('Iterator::next') and src[1]['args']:
                    q = op_place(src[1]['args'][0])
                    return q is not None and from_name(q['l'])
                # a tuple `(decode_result, other_iter.next())` matched as a whole
                if src is not None and src[0] == 'stmt' and src[1]['k'] == 'agg' and src[1].get('ak') == 'tuple':
                    idx = [e.get('f') for e in p['p'] if 'f' in e][:1]
                    if idx and idx[0] < len(src[1]['ops']):
                        q = op_place(src[1]['ops'][idx[0]])
                        if q is not None and not q['p']:
                            s2 = defs.get(q['l'])
                            if s2 is not None and s2[0] == 'call' and (s2[1].get('callee') or '').endswith('Iterator::next') and s2[1]['args']:
                                q2 = op_place(s2[1]['args'][0])
                                return q2 is not None and from_name(q2['l'])
                return False
            return element_of_name(p['l'], depth + 1)
        return False

    bad = None
    n = 0
    for b, t in fn.calls():
        if (t.get('callee') or '').endswith('dir_entry::char_to_uppercase') and t['args']:
            n += 1
            p = op_place(t['args'][0])
            if p is not None and not p['p'] and element_of_name(p['l']):
                bad = t
    rep.oblige('N5e', fn.name, ok=bad is None, nontrivial=True, sample={'fn': fn.name, 'direct_fold_calls': n})
    if bad is not None:
        rep.violation('N5e', vkey('N5e', fn.name, 'per-character-fold', ''), fn.loc(bad['span']),
                      '%s folds one character of the requested name at a time (`%s`) and so compares the names position by position: '
                      'a character whose upper-case form is longer (`ß` -> `SS`) never matches its expanded spelling' %
                      (fn.name, bad['span']['snip'][:60]))


_run_n5e = run


def run(ctx, rep):
    _run_n5e(ctx, rep)
    fold_per_character(ctx, rep)
