"""C15 - names: total validation, lossless long names, case-insensitive lookup (DESIGN.md section 4, N1-N6).

N1  validate-first: from create_file / create_dir / rename no unguarded device write happens before the Ok edge of
    a name validator (two-state protocol over the mono call graph)
N3  the accepted character set and length bounds equal the documented long-name set exactly (partition walk)
N4  buffer capacity constants
N5  both operands of every name comparison go through the case-folding function
N6  reader/writer agreement: the decoder accepts exactly the sequence numbers a valid name can need
"""
from analyses import Deps
from core import vkey
from decision import diff_tables, fmt_rows
from protocol import A, B, Protocol
from rules import dtables
from rules.c13 import guarded_blocks
from rules.dtables import AnchorMissing

NAME_ERRORS = ('InvalidFileNameLength', 'UnsupportedFileNameCharacter')
ENTRY_POINTS = ('fatfs::dir::Dir::create_file', 'fatfs::dir::Dir::create_dir', 'fatfs::dir::Dir::rename')
LONG_SPECIALS = "$%'-_@~`!(){}. +,;=[]^#&"


def validators(facts):
    """functions that construct one of the two public name errors"""
    out = set()
    for fn in facts.fns.values():
        if fn.crate != 'fatfs' and '::controls::' not in fn.name:
            continue
        for bi in fn.reachable():
            for s in fn.blocks[bi]['stmts']:
                if s['k'] == 'assign' and s['rv']['k'] == 'agg' and s['rv'].get('adt') == 'fatfs::error::Error' and \
                        s['rv'].get('variant') in NAME_ERRORS:
                    out.add(fn.name)
    return out


def spec_long_table():
    ok = set(range(ord('a'), ord('z') + 1)) | set(range(ord('A'), ord('Z') + 1)) | set(range(ord('0'), ord('9') + 1))
    ok |= {ord(c) for c in LONG_SPECIALS}
    rows = []
    for c in range(0, 0x80):
        o = frozenset(['accept'] if c in ok else ['reject'])
        if rows and rows[-1][2] == o:
            rows[-1] = (rows[-1][0], c, o)
        else:
            rows.append((c, c, o))
    rows.append((0x80, 0xD7FF, frozenset(['accept'])))
    rows.append((0xE000, 0xFFFF, frozenset(['accept'])))
    rows.append((0x10000, 0x10FFFF, frozenset(['reject'])))
    return rows


def run(ctx, rep):
    facts, eff = ctx.facts, ctx.effects
    from rules import allpanics
    allpanics.run_scope(ctx, rep, 'C15', 'N2', 'on the name path')
    # ---------------- N1
    vals = validators(facts)
    if not [v for v in vals if v.startswith('fatfs::')]:
        rep.machinery('ANCHOR-MISSING no function constructs the name errors %s' % (NAME_ERRORS, ))
        return
    gcache = {}
    proto = Protocol(facts, lambda n: n in vals, lambda fn: guarded_blocks(fn, gcache))
    entries = {}
    for i in facts.instances:
        if i['fn'] in ENTRY_POINTS or ('::controls::' in i['fn'] and 'control_n1_' in i['fn']):
            entries[i['id']] = i['fn']
    found = {n for n in entries.values()}
    for need in ENTRY_POINTS:
        if need not in found:
            rep.machinery('ANCHOR-MISSING entry point ' + need)
    proto.solve(entries.keys())
    for iid, name in sorted(entries.items()):
        is_control = '::controls::' in name
        bad = proto.act.get(iid, False)
        ch = proto.chain(iid) if bad else []
        rep.oblige('N1', '%s#%d' % (name, iid), ok=not bad, nontrivial=True,
                   sample={'entry': name, 'instance': facts.instances[iid]['args'][:60],
                           'states_at_ok_exit': sorted(proto.out.get(iid, ())),
                           'verdict': 'no unguarded device write reachable before a validator\'s Ok edge'})
        if bad:
            last = [c for c in ch if c[1]]
            where = last[0][1] if last else name
            # key on the first frame inside fatfs that performs / reaches the write
            frames = [c for c in ch if c[0].startswith(('fatfs::', '<fatfs::'))]
            kf = frames[1][0] if len(frames) > 1 else name
            rep.violation('N1', vkey('N1', name, kf, ''), where,
                          '%s can write to the volume before the new name has been validated (a call failing with a '
                          'name error would leave a side effect)' % name,
                          ['chain: ' + ' -> '.join('%s%s' % (c[0], (' @' + c[1]) if c[1] else '') for c in ch)],
                          control=is_control)

    # ---------------- N3
    try:
        fn, rows, consts = dtables.name_char_table(facts)
        got = []
        for a, b, o in rows:
            o2 = frozenset('accept' if x == 'LOOP' else ('reject' if str(x).startswith('reject:Unsupported') else x)
                           for x in o)
            got.append((a, b, o2))
        df = diff_tables(got, spec_long_table())
        rep.oblige('N3.chars', fn.name, ok=not df, nontrivial=True,
                   sample={'fn': fn.name, 'domain': 'all 0x110000 code points (surrogates excluded)',
                           'cut_constants': len(consts), 'table': fmt_rows(rows, True)[:12]})
        if df:
            rep.violation('N3', vkey('N3', fn.name, 'charset', ''), fn.loc(fn.span),
                          'the set of accepted name characters differs from the documented long-name set',
                          ['U+%04X..U+%04X: code gives %s, documented set says %s' % (a, b, sorted(g) if g else g,
                                                                                    sorted(w) if w else w)
                           for a, b, g, w in df[:6]])
        fn, rows, consts = dtables.name_len_table(facts)
        want = [(0, 255, frozenset(['accept'])), (256, (1 << 64) - 1, frozenset(['reject:InvalidFileNameLength']))]
        df = diff_tables(rows, want)
        # the empty name is rejected by a separate is_empty() test
        has_empty = any((t.get('callee') or '') == 'str::is_empty' for b, t in fn.calls())
        rep.oblige('N3.len', fn.name, ok=not df and has_empty, nontrivial=True,
                   sample={'fn': fn.name, 'table': fmt_rows(rows), 'is_empty_test': has_empty})
        if df or not has_empty:
            rep.violation('N3', vkey('N3', fn.name, 'length', ''), fn.loc(fn.span),
                          'the accepted name lengths are not exactly 1..=255 bytes',
                          ['len %d..%d: %s, expected %s' % (a, b, sorted(g) if g else g, sorted(w) if w else w)
                           for a, b, g, w in df[:4]] + ([] if has_empty else ['no is_empty() rejection']))
    except AnchorMissing as e:
        rep.machinery('ANCHOR-MISSING %s' % e)

    # ---------------- N6 reader/writer agreement on the number of long-name slots
    if ctx.config != 'nostd':
        try:
            fn, rows, consts = dtables.lfn_index_table(facts)
            maxlen = facts.consts.get('fatfs::dir::MAX_LONG_NAME_LEN', {}).get('val')
            part = facts.consts.get('fatfs::dir_entry::LFN_PART_LEN', {}).get('val')
            if not maxlen or not part:
                rep.machinery('ANCHOR-MISSING MAX_LONG_NAME_LEN / LFN_PART_LEN')
            else:
                need = (maxlen + part - 1) // part
                acc = [(a, b) for a, b, o in rows if 'accept' in o]
                rej_only = [(a, b) for a, b, o in rows if o == frozenset(['reject'])]
                ok = acc == [(1, need)]
                rep.oblige('N6', fn.name, ok=ok, nontrivial=True,
                           sample={'fn': fn.name, 'accepted_sequence_numbers': acc, 'needed_for_255_units': [1, need],
                                   'table': fmt_rows(rows)})
                if not ok:
                    rep.violation('N6', vkey('N6', fn.name, 'index-range', ''), fn.loc(fn.span),
                                  'the long-name decoder accepts sequence numbers %s but a valid name of up to %d units '
                                  'needs exactly 1..=%d: such names are written but not read back (or over-long runs '
                                  'are accepted)' % (acc, maxlen, need))
        except AnchorMissing as e:
            rep.machinery('ANCHOR-MISSING %s' % e)

    # ---------------- N4 capacity
    if ctx.config == 'noalloc':
        buf = None
        for fname, adt in facts.api['adts'].items():
            if fname == 'fatfs::dir::LfnBuffer':
                for f in adt['variants'][0]['fields']:
                    t = facts.api['types'][f['ty']]
                    if t['k'] == 'array':
                        buf = t.get('len')
                        if buf is None:
                            import re
                            m = re.search(r';\s*([A-Za-z_][A-Za-z0-9_:]*)\]$', t['s'])
                            if m:
                                for cn, cv in facts.consts.items():
                                    if cn.endswith('::' + m.group(1).split('::')[-1]):
                                        buf = cv['val']
        maxlen = facts.consts.get('fatfs::dir::MAX_LONG_NAME_LEN', {}).get('val')
        maxent = facts.consts.get('fatfs::dir::MAX_LONG_DIR_ENTRIES', {}).get('val')
        part = facts.consts.get('fatfs::dir_entry::LFN_PART_LEN', {}).get('val')
        ok = buf is not None and maxlen is not None and buf >= maxlen and buf >= (maxent or 0) * (part or 0)
        rep.oblige('N4', 'LfnBuffer', ok=ok, nontrivial=True,
                   sample={'buffer_len': buf, 'max_name': maxlen, 'max_entries_x_part': (maxent or 0) * (part or 0)})
        if not ok:
            rep.violation('N4', vkey('N4', 'fatfs::dir::LfnBuffer', 'capacity', ''), 'src/dir.rs',
                          'the fixed long-name buffer holds %s units but names of %s units / %s x %s slot units must fit'
                          % (buf, maxlen, maxent, part))

    # ---------------- N5 symmetric folding
    for name in ('fatfs::dir_entry::DirEntry::eq_name_lfn', 'fatfs::dir_entry::ShortName::eq_ignore_case'):
        fn = facts.fns.get(name)
        if fn is None:
            if name.endswith('eq_name_lfn') and ctx.config == 'nostd':
                continue
            rep.machinery('ANCHOR-MISSING ' + name)
            continue
        n = 0
        bodies = [fn] + [f2 for n2, f2 in facts.fns.items() if n2.startswith(name + '::{closure')]
        for fb, bi in [(fb, bi) for fb in bodies for bi in fb.reachable()]:
            blk = fb.blocks[bi]
            for s in blk['stmts']:
                if s['k'] == 'assign':
                    from model import operands_of_rvalue, op_const
                    for o in operands_of_rvalue(s['rv']):
                        c = op_const(o)
                        if c and (c.get('fn') or '').endswith('char_to_uppercase'):
                            n += 1
            t = blk['term']
            if t['k'] == 'call':
                if (t.get('callee') or '').endswith('char_to_uppercase'):
                    n += 1
                for a in t['args']:
                    from model import op_const
                    c = op_const(a)
                    if c and (c.get('fn') or '').endswith('char_to_uppercase'):
                        n += 1
        ok = n >= 2
        rep.oblige('N5', name, ok=ok)
        if not ok:
            rep.violation('N5', vkey('N5', name, 'fold-both', ''), fn.loc(fn.span),
                          '%s applies the case-folding function to only %d operand stream(s)' % (name, n))

    # ---------------- N7 number of long-name slots = ceil(units / 13)
    GN = facts.fns.get('fatfs::dir::LfnEntriesGenerator::new')
    # (the build without `lfn` has a stub generator that yields nothing: no long-name slots exist there)
    if GN is not None and 'fatfs::dir::MAX_LONG_DIR_ENTRIES' in facts.consts:
        from rules.siblings import arith_fingerprint
        ops, calls_ = arith_fingerprint(GN)
        part = facts.consts.get('fatfs::dir_entry::LFN_PART_LEN', {}).get('val', 13)
        dg = Deps(GN)
        # the value stored in `num`
        num_ok = False
        for bi in GN.reachable():
            for s_ in GN.blocks[bi]['stmts']:
                if s_['k'] == 'assign' and s_['rv']['k'] == 'agg' and 'num' in (s_['rv'].get('fields') or []):
                    o = s_['rv']['ops'][s_['rv']['fields'].index('num')]
                    tk = dg.of_operand(o)
                    num_ok = ('const', part) in tk and any(t_[0] == 'call' and t_[1].endswith('::len') for t_ in tk)
        ok = num_ok and calls_.get('div_ceil', 0) == 1 and not [k for k in ops if k[0] in ('Add', 'Sub', 'Div', 'Mul', 'Rem')]
        rep.oblige('N7', GN.name, ok=ok, nontrivial=True,
                   sample={'fn': GN.name, 'arithmetic': sorted(map(str, ops.items())), 'ceil_div': calls_.get('div_ceil', 0)})
        if not ok:
            rep.violation('N7', vkey('N7', GN.name, 'slot-count', ''), GN.loc(GN.span),
                          'the number of long-name slots (and with it the sequence numbers) is not the name length divided '
                          'by %d rounded up (arithmetic found: %s): names whose length is a multiple of %d get a sequence '
                          'that readers reject' % (part, sorted(ops.elements()) + sorted(calls_.elements()), part))

    # ---------------- N5b equality needs both sequences exhausted
    EQ = facts.fns.get('fatfs::dir_entry::DirEntry::eq_name_lfn')
    if EQ is not None:
        seq_equality_rule(rep, EQ)


def seq_equality_rule(rep, fn):
    """a loop that compares two sequences element by element may only report `equal` after it has seen the end of
    BOTH: every path to a possibly-true result crosses the None edge of a `next()` on the stored-name iterator and on
    the requested-name iterator (or the result *is* that exhaustion test)"""
    from analyses import switch_source
    from model import op_const, op_place

    defs = {}
    multi = set()
    for bi in fn.reachable():
        for s in fn.blocks[bi]['stmts']:
            if s['k'] == 'assign' and not s['lhs']['p']:
                l = s['lhs']['l']
                if l in defs:
                    multi.add(l)
                defs[l] = ('stmt', s['rv'], bi)
        t = fn.blocks[bi]['term']
        if t['k'] == 'call' and not t['dest']['p']:
            l = t['dest']['l']
            if l in defs:
                multi.add(l)
            defs[l] = ('call', t, bi)

    def origin(local, depth=0):
        """'S' (stored long name), 'Q' (requested name, parameter 2) or None; an iterator made from an *element* of a
        sequence (something that came out of next()) is neither"""
        if depth > 25:
            return None
        if local == 2:
            return 'Q'
        if local in multi or local not in defs:
            return None
        d = defs[local]
        if d[0] == 'call':
            c = d[1].get('callee') or ''
            if c.endswith('long_file_name_as_ucs2_units'):
                return 'S'
            if c.endswith('Iterator::next'):
                return None
            for a in d[1]['args'][:1]:
                p = op_place(a)
                if p is not None:
                    return origin(p['l'], depth + 1)
            return None
        rv = d[1]
        if rv['k'] in ('use', 'cast'):
            p = op_place(rv['a'])
            return origin(p['l'], depth + 1) if p is not None else None
        if rv['k'] in ('ref', 'rawptr'):
            return origin(rv['p']['l'], depth + 1)
        return None

    nexts = {'S': [], 'Q': []}
    for b, t in fn.calls():
        if (t.get('callee') or '').endswith('Iterator::next') and t['args']:
            p = op_place(t['args'][0])
            o = origin(p['l']) if p is not None else None
            if o:
                nexts[o].append((b, t))
    uses_eq = any((t.get('callee') or '').endswith(('Iterator::eq', 'Iterator::eq_by', 'Iterator::cmp')) for b, t in fn.calls())
    if uses_eq and not (nexts['S'] or nexts['Q']):
        rep.oblige('N5b', fn.name, ok=True, sample={'fn': fn.name, 'how': 'compares with Iterator::eq'})
        return
    if not nexts['S'] or not nexts['Q']:
        rep.oblige('N5b', fn.name, ok=False, nontrivial=True)
        rep.violation('N5b', vkey('N5b', fn.name, 'no-lockstep', ''), fn.loc(fn.span),
                      '%s does not walk both the stored and the requested name (stored: %d next() sites, requested: %d)'
                      % (fn.name, len(nexts['S']), len(nexts['Q'])))
        return
    # exhaustion edges and exhaustion-encoding results per sequence
    exhaust = {'S': set(), 'Q': set()}
    encodes = {}
    for cls, lst in nexts.items():
        for b, t in lst:
            D = t['dest']['l']
            for bi in fn.reachable():
                tt = fn.blocks[bi]['term']
                if tt['k'] == 'switch':
                    src = switch_source(fn, bi)
                    if src and src['kind'] == 'discr' and src['place']['l'] == D:
                        exhaust[cls] |= {(bi, x) for v, x in tt['targets'] if v == 0}
                        if not any(v == 0 for v, _ in tt['targets']):
                            exhaust[cls].add((bi, tt['otherwise']))
                if tt['k'] == 'call' and (tt.get('callee') or '').endswith('Option::is_none') and tt['args']:
                    pa = op_place(tt['args'][0])
                    src_l = pa['l'] if pa is not None else None
                    # the argument is (a reference to) the result of this next()
                    seen = 0
                    while src_l is not None and src_l != D and seen < 6:
                        dd = defs.get(src_l)
                        seen += 1
                        if dd and dd[0] == 'stmt' and dd[1]['k'] in ('ref', 'use'):
                            src_l = dd[1]['p']['l'] if dd[1]['k'] == 'ref' else (op_place(dd[1]['a']) or {}).get('l')
                        else:
                            src_l = None
                    if src_l == D:
                        encodes[(bi, tt['dest']['l'])] = cls
    problems = []
    n_true = 0
    for bi in sorted(fn.reachable()):
        cands = []
        for s in fn.blocks[bi]['stmts']:
            if s['k'] == 'assign' and s['lhs']['l'] == 0 and not s['lhs']['p']:
                c = op_const(s['rv']['a']) if s['rv']['k'] == 'use' else None
                if c is not None and c.get('val') == 0:
                    continue  # `false`
                cands.append(None)
        tt = fn.blocks[bi]['term']
        if tt['k'] == 'call' and tt['dest']['l'] == 0 and not tt['dest']['p']:
            cands.append(encodes.get((bi, 0)))
        for enc in cands:
            n_true += 1
            for cls in ('S', 'Q'):
                if enc == cls:
                    continue
                reach = fn.reach_from([0], cut_edges=exhaust[cls])
                if bi in reach:
                    problems.append('a result that can be `true` (bb%d) is reachable without having seen the end of the %s name'
                                    % (bi, 'stored' if cls == 'S' else 'requested'))
    ok = not problems and n_true > 0
    rep.oblige('N5b', fn.name, ok=ok, nontrivial=True, sample={'fn': fn.name, 'true-capable results': n_true})
    if not ok:
        rep.violation('N5b', vkey('N5b', fn.name, 'both-exhausted', ''), fn.loc(fn.span),
                      '%s can report two names as equal when one is only a prefix of the other: %s' % (
                          fn.name, '; '.join(sorted(set(problems))) or 'no result that can be true was found'))


# ---------------------------------------------------------------------------------------------
# N8  lengths are compared only with lengths of the same unit (UTF-8 bytes / UTF-16 units / chars)
from model import op_place, op_const  # noqa: E402

def _len_unit(fn, t):
    """unit of the count a call returns, or None"""
    callee = t.get('callee') or ''
    if callee in ('str::len', 'alloc::string::String::len'):
        return 'utf8-bytes'
    if callee.endswith('::LfnBuffer::len'):
        return 'utf16-units'
    if callee in ('[T]::len', 'core::slice::<impl [T]>::len', 'alloc::vec::Vec::len') and t['args']:
        p = op_place(t['args'][0])
        ty = fn.local_ty(p['l']) if p is not None and not p['p'] else None
        for _ in range(3):
            if ty is not None and ty.get('k') in ('ref', 'ptr'):
                ty = fn.types[ty['to']]
        el = None
        if ty is not None and ty.get('k') in ('slice', 'array'):
            el = fn.types[ty['of']]
        elif ty is not None and ty.get('k') == 'adt' and ty.get('path', '').endswith('::Vec') and ty.get('args'):
            el = fn.types[ty['args'][0]]
        if el is not None and el.get('k') == 'int' and el.get('bits') == 16 and not el.get('signed'):
            return 'utf16-units'
        return None
    if callee == 'core::iter::traits::iterator::Iterator::count' and t['args']:
        p = op_place(t['args'][0])
        ty = fn.local_ty(p['l']) if p is not None and not p['p'] else None
        path = (ty or {}).get('path', '')
        if path.endswith('::Chars'):
            return 'chars'
        if path.endswith('::EncodeUtf16'):
            return 'utf16-units'
    return None


def length_units(ctx, rep):
    """N8: a name exists in three encodings (UTF-8 in the API, UTF-16 on disk, chars in between); a count in one unit
    compared with (or added to / subtracted from) a count in another is meaningless for non-ASCII names.  Tags flow
    through copies, casts and +/- constants only, so a tagged value *is* such a count."""
    facts = ctx.facts
    n = 0
    for fn in facts.fns.values():
        is_control = fn.crate == 'vf_witness' and '::controls::control_n8' in fn.name
        if fn.crate != 'fatfs' and not is_control:
            continue
        tag = {}
        conflict = set()

        def settag(l, u):
            if u is None or l in conflict:
                return False
            if l in tag and tag[l] != u:
                conflict.add(l)
                tag.pop(l)
                return True
            if l not in tag:
                tag[l] = u
                return True
            return False

        for bi in fn.reachable():
            t = fn.blocks[bi]['term']
            if t['k'] == 'call' and not t['dest']['p']:
                settag(t['dest']['l'], _len_unit(fn, t))
        if not tag:
            continue
        changed = True
        rounds = 0
        while changed and rounds < 20:
            changed = False
            rounds += 1
            for bi in fn.reachable():
                for s in fn.blocks[bi]['stmts']:
                    if s['k'] != 'assign' or s['lhs']['p']:
                        continue
                    rv = s['rv']
                    u = None
                    if rv['k'] in ('use', 'cast'):
                        p = op_place(rv['a'])
                        if p is not None:
                            u = tag.get(p['l']) if not p['p'] or p['p'] == [{'f': 0, 'n': '0'}] else None
                            if p['p'] and not u:
                                # `.0` of a checked-arithmetic pair
                                if len(p['p']) == 1 and 'f' in p['p'][0] and p['p'][0].get('f') == 0:
                                    u = tag.get(p['l'])
                    elif rv['k'] == 'binop' and rv['op'].replace('WithOverflow', '') in ('Add', 'Sub'):
                        pa, pb = op_place(rv['a']), op_place(rv['b'])
                        ca, cb = op_const(rv['a']), op_const(rv['b'])
                        if pa is not None and not pa['p'] and cb is not None:
                            u = tag.get(pa['l'])
                        elif pb is not None and not pb['p'] and ca is not None and rv['op'].startswith('Add'):
                            u = tag.get(pb['l'])
                    if settag(s['lhs']['l'], u):
                        changed = True
        for bi in fn.reachable():
            for s in fn.blocks[bi]['stmts']:
                if s['k'] != 'assign' or s['rv']['k'] != 'binop':
                    continue
                op = s['rv']['op'].replace('WithOverflow', '')
                if op not in ('Eq', 'Ne', 'Lt', 'Le', 'Gt', 'Ge', 'Add', 'Sub'):
                    continue
                pa, pb = op_place(s['rv']['a']), op_place(s['rv']['b'])
                if pa is None or pb is None or pa['p'] or pb['p']:
                    continue
                ua, ub = tag.get(pa['l']), tag.get(pb['l'])
                if ua is None or ub is None:
                    continue
                ok = ua == ub
                if is_control:
                    if not ok:
                        rep.control('N8')
                    continue
                n += 1
                rep.oblige('N8', '%s|bb%d' % (fn.name, bi), ok=ok, nontrivial=True,
                           sample={'fn': fn.name, 'at': fn.loc(s['span']), 'units': [ua, ub]})
                if not ok:
                    rep.violation('N8', vkey('N8', fn.name, op, s['span']['snip']), fn.loc(s['span']),
                                  '%s combines a length in %s with a length in %s (`%s`): the two only agree for ASCII names, so '
                                  'a name with a non-ASCII character is treated differently from how it was stored' %
                                  (fn.name, ua, ub, s['span']['snip'][:80]))
    rep.counts['N8.pairs'] = n
    rep.oblige('N8.scan', 'fatfs', ok=True)


_run_n = run


def run(ctx, rep):
    _run_n(ctx, rep)
    length_units(ctx, rep)


# ---------------------------------------------------------------------------------------------
# N5c  the case fold of a character is used in full (an upper-case expansion can be several characters)

def fold_not_truncated(ctx, rep):
    """`char_to_uppercase` returns an iterator (`ß` folds to `SS`). Taking only its first item (`.next()` outside a loop
    over it, `.nth(0)`, `.last()`) compares a prefix of the expansion: names that differ are matched and equal names are
    not. Not decided: whether the expansions are compared as one stream or per character (a value property)."""
    facts = ctx.facts
    n = 0
    for fn in facts.fns.values():
        if fn.crate != 'fatfs':
            continue
        folds = [(b, t) for b, t in fn.calls() if (t.get('callee') or '').endswith('dir_entry::char_to_uppercase')]
        if not folds:
            continue
        d = Deps(fn)
        loops = fn.loops()
        in_loop = set()
        for body in loops.values():
            in_loop |= set(body)
        for fb, ft in folds:
            n += 1
            bad = None
            for b, t in fn.calls():
                callee = t.get('callee') or ''
                short = callee.rsplit('::', 1)[-1]
                if not callee.startswith('core::iter::') or short not in ('next', 'nth', 'last', 'next_back', 'nth_back'):
                    continue
                if not t['args'] or ('callsite', fb) not in d.of_operand(t['args'][0]):
                    continue
                if short == 'next' and b in in_loop:
                    continue
                bad = (b, t)
            rep.oblige('N5c', '%s|bb%d' % (fn.name, fb), ok=bad is None, nontrivial=True,
                       sample={'fn': fn.name, 'at': fn.loc(ft['span']), 'rule': 'the fold iterator is not cut to one item'})
            if bad:
                rep.violation('N5c', vkey('N5c', fn.name, 'truncated-fold', ''), fn.loc(bad[1]['span']),
                              '%s takes only one item of the case-folded expansion of a character (`%s`): characters whose '
                              'upper-case form is several characters are compared by a prefix of it' % (fn.name, bad[1]['span']['snip'][:60]))
    rep.counts['N5c.sites'] = n


_run_n8 = run


def run(ctx, rep):
    _run_n8(ctx, rep)
    fold_not_truncated(ctx, rep)
