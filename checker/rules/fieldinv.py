"""Store-hull invariants of private integer fields (A13b).

For a field of a fatfs struct that code outside the crate cannot write (the struct or the field is not `pub`) every value
the field ever holds was put there by a statement of the crate: an aggregate construction of the struct or a store to the
field. The hull of the ranges of all those stored values - each computed by the interval analysis of the storing function,
with no assumption about its parameters - is therefore an invariant of the field. A second round recomputes the hull
assuming the first (sound: the first is already valid) and usually tightens it (`self.n -= 1` under `self.n != 0`).

Handled kinds: integer fields and `Option<integer>` fields (the invariant is about the payload of `Some`).
A field is skipped (no invariant, the type range stays) when a mutable reference to the field itself is taken anywhere
(it could be written through the pointer), or when a stored value cannot be evaluated.

The result is handed to every panic inventory next to the validated-BPB ranges and the DiskSlice invariant; the
evidence lists the fields whose invariant was actually used."""
from analyses import place_prefix_type
from intervals import Analysis, FnCtx, type_range, join
from model import op_const, op_place, place_key


def _int_kind(facts_types, ty):
    if ty is None:
        return None
    if ty.get('k') == 'int':
        return 'int'
    if ty.get('k') == 'adt' and ty.get('path') == 'core::option::Option' and ty.get('args'):
        inner = facts_types[ty['args'][0]]
        if inner is not None and inner.get('k') == 'int':
            return 'opt'
    return None


def candidates(facts):
    """{(adt, field): (kind, payload type)}"""
    out = {}
    types = facts.api['types']
    for path, a in facts.api['adts'].items():
        if not path.startswith('fatfs::') or a.get('kind') != 'struct' or len(a.get('variants', [])) != 1:
            continue
        for f in a['variants'][0]['fields']:
            if a.get('pub', True) and f.get('pub', True):
                continue  # code outside the crate can write it
            ty = types[f['ty']]
            kind = _int_kind(types, ty)
            if kind is None:
                continue
            pty = ty if kind == 'int' else types[ty['args'][0]]
            out[(path, f['name'])] = (kind, pty)
    return out


def _owner_field(fn, p):
    """(adt path, field name) when the place ends in a field of an adt"""
    if not p['p'] or 'f' not in p['p'][-1]:
        return None
    owner = place_prefix_type(fn, p, len(p['p']) - 1)
    if owner is None or owner.get('k') != 'adt':
        return None
    return (owner['path'], p['p'][-1].get('n'))


def _copies_same_field(fn, o, key, depth=0):
    """is the operand a plain copy of the same field of (another instance of) the same struct (`Clone`, `..*self`)?  Such a
    store keeps whatever holds for the field"""
    p = op_place(o)
    if p is None or depth > 6:
        return False
    if p['p']:
        return _owner_field(fn, p) == key
    defs = [s['rv'] for bi in fn.reachable() for s in fn.blocks[bi]['stmts']
            if s['k'] == 'assign' and not s['lhs']['p'] and s['lhs']['l'] == p['l']]
    if len(defs) == 1 and defs[0]['k'] == 'use':
        return _copies_same_field(fn, defs[0]['a'], key, depth + 1)
    if len(defs) == 1 and defs[0]['k'] == 'ref' and not defs[0].get('mut'):
        rp = defs[0]['p']
        if rp['p'] and all('deref' in e for e in rp['p']):
            return _copies_same_field(fn, {'c': {'l': rp['l'], 'p': []}}, key, depth + 1)  # `&*r`
        return _owner_field(fn, rp) == key  # `&self.f` handed to Clone::clone
    if not defs:
        # `Clone::clone(&self.f)` of a derived Clone
        calls = [t for b, t in fn.calls() if not t['dest']['p'] and t['dest']['l'] == p['l']]
        if len(calls) == 1 and calls[0].get('callee') in ('core::clone::Clone::clone', ) and calls[0]['args']:
            return _copies_same_field(fn, calls[0]['args'][0], key, depth + 1)
    return False


def _state_after(an, b, upto):
    """abstract state after the first `upto` statements of block b (None when the block is unreachable)"""
    if b not in an.in_state:
        return None
    st, rel = an.in_state[b]
    st, rel = dict(st), dict(rel)
    for s in an.fn.blocks[b]['stmts'][:upto]:
        if s['k'] == 'assign':
            an.assign(st, rel, s['lhs'], s['rv'], b)
    return st


def infer(facts, base_fields, rounds=2):
    """({key: interval}, detail lines).  key = (adt, field) for integers, (adt, field, 'some') for Option payloads"""
    cands = candidates(facts)
    detail = []
    # store sites and disqualifying borrows
    sites = {k: [] for k in cands}
    dropped = {}
    for fn in facts.fns.values():
        if fn.crate != 'fatfs':
            continue
        for bi in fn.reachable():
            for si, s in enumerate(fn.blocks[bi]['stmts']):
                if s['k'] != 'assign':
                    continue
                rv = s['rv']
                if s['lhs']['p']:
                    k = _owner_field(fn, s['lhs'])
                    if k in cands and not (rv['k'] == 'use' and _copies_same_field(fn, rv['a'], k)):
                        sites[k].append((fn, bi, si, 'store', None))
                if rv['k'] == 'ref' and rv.get('mut'):
                    k = _owner_field(fn, rv['p'])
                    if k in cands:
                        dropped[k] = 'a mutable reference to the field is taken in %s' % fn.name
                if rv['k'] == 'rawptr':
                    k = _owner_field(fn, rv['p'])
                    if k in cands:
                        dropped[k] = 'a raw pointer to the field is taken in %s' % fn.name
                if rv['k'] == 'agg' and rv.get('ak') == 'adt':
                    for fname, o in zip(rv.get('fields') or [], rv.get('ops') or []):
                        k = (rv.get('adt'), fname)
                        if k in cands and not _copies_same_field(fn, o, k):
                            sites[k].append((fn, bi, si, 'agg', o))
    live = {k for k in cands if k not in dropped and sites[k]}
    result = {}
    assumed = dict(base_fields or {})
    for rnd in range(rounds):
        hull = {}
        bad = {}
        by_fn = {}
        for k in live:
            for site in sites[k]:
                by_fn.setdefault(site[0].name, []).append((k, site))
        for fname, lst in by_fn.items():
            fn = facts.fns[fname]
            try:
                an = Analysis(facts, fn, FnCtx({}, dict(assumed), set()), {}, 0)
            except Exception as e:  # the engine could not analyse the function: no invariant for the fields it stores
                for k, site in lst:
                    bad[k] = 'interval analysis of %s failed (%s)' % (fname, type(e).__name__)
                continue
            for k, (f_, bi, si, how, o) in lst:
                kind, pty = cands[k]
                trng = type_range(pty)
                if how == 'store':
                    st = _state_after(an, bi, si + 1)
                    if st is None:
                        continue  # unreachable store
                    lhs = fn.blocks[bi]['stmts'][si]['lhs']
                    if kind == 'int':
                        v = an.read_place(st, lhs)
                    else:
                        v = st.get(('some', place_key(lhs)))
                        if v is None:
                            v = trng
                else:
                    st = _state_after(an, bi, si)
                    if st is None:
                        continue
                    if kind == 'int':
                        v = an.read_operand(st, o)
                    else:
                        p0 = op_place(o)
                        v = st.get(('some', place_key(p0))) if p0 is not None else None
                        if v is None and p0 is not None:
                            v = an.option_field_invariant(p0)
                        if v is None:
                            c = op_const(o)
                            v = trng
                if v is None:
                    v = trng
                if v[0] > v[1]:
                    continue  # empty payload: `None`
                v = (max(v[0], trng[0]), min(v[1], trng[1])) if trng else v
                hull[k] = v if k not in hull else join(hull[k], v)
        new = {}
        for k in live:
            if k in bad:
                dropped[k] = bad[k]
                continue
            kind, pty = cands[k]
            trng = type_range(pty)
            h = hull.get(k)
            if h is None:
                # only `None` / unreachable stores: the payload set is empty; any read is vacuous - keep the type range
                continue
            if trng is not None and (h[0] > trng[0] or h[1] < trng[1]):
                new[k if kind == 'int' else k + ('some', )] = h
        result = new
        assumed = dict(base_fields or {})
        assumed.update(result)
    for k, v in sorted(result.items()):
        detail.append('%s.%s%s in [%d, %d] (hull of %d store sites)' % (k[0], k[1], ' (Some payload)' if len(k) == 3 else '', v[0], v[1],
                                                                    len(sites[(k[0], k[1])])))
    for k, why in sorted(dropped.items()):
        detail.append('%s.%s: no invariant - %s' % (k[0], k[1], why))
    return result, detail


def run(ctx, rep):
    from rules.c17 import validated_bpb_fields
    facts = ctx.facts
    base = validated_bpb_fields(facts, with_struct_invariants=False)
    inv, detail = infer(facts, base)
    rep.oblige('INV.fields', 'fatfs', ok=True, nontrivial=bool(inv),
               sample={'invariants': ['%s.%s%s=[%d,%d]' % (k[0].rsplit('::', 1)[-1], k[1], '?' if len(k) == 3 else '', v[0], v[1])
                                      for k, v in sorted(inv.items())][:40]})
    rep.counts['INV.fields'] = len(inv)
    rep.notes.append('A13b store-hull field invariants: ' + '; '.join(detail[:60]))
