"""FAT width is a function of the cluster count (shared by C04, C06, C07, C08): the decision table of
FatType::from_clusters over all 2^32 cluster counts must equal the specification
(< 4085 -> FAT12, < 65525 -> FAT16, else FAT32), and min/max_clusters must agree with it."""
from core import vkey
from decision import diff_tables, fmt_rows
from rules import dtables
from rules.dtables import AnchorMissing

SPEC = [(0, 4084, frozenset(['Fat12'])), (4085, 65524, frozenset(['Fat16'])), (65525, 0xFFFFFFFF, frozenset(['Fat32']))]


def run(ctx, rep):
    facts = ctx.facts
    try:
        fn, rows, consts = dtables.from_clusters_table(facts)
    except AnchorMissing as e:
        rep.machinery('ANCHOR-MISSING %s' % e)
        return
    df = diff_tables(rows, SPEC)
    rep.oblige('FT1', fn.name, ok=not df, nontrivial=True,
               sample={'fn': fn.name, 'domain': 'all u32 cluster counts', 'cut_constants': consts, 'table': fmt_rows(rows)})
    if df:
        rep.violation('FT1', vkey('FT1', fn.name, 'width-table', ''), fn.loc(fn.span),
                      'FAT width selection differs from the specification (FAT12 < 4085 <= FAT16 < 65525 <= FAT32)',
                      ['cluster counts %d..%d give %s, specification says %s' % (a, b, sorted(g) if g else g, sorted(w))
                       for a, b, g, w in df[:4]])
    # constants used by the formatter's range checks
    for name, val in (('fatfs::fs::FatType::FAT16_MIN_CLUSTERS', 4085), ('fatfs::fs::FatType::FAT32_MIN_CLUSTERS', 65525)):
        c = facts.consts.get(name)
        if c is None:
            continue
        rep.oblige('FT1.const', name, ok=c['val'] == val)
        if c['val'] != val:
            rep.violation('FT1', vkey('FT1', name, 'const', ''), name, '%s is %d, specification says %d' % (name, c['val'], val))
    # FT2: the width a volume is mounted with is the width of the geometry's own cluster count: the operand of
    # FatType::from_clusters in FileSystem::new is the unmodified result of BiosParameterBlock::total_clusters
    from model import op_place
    from rules.c15 import _single_defs, _name_root
    NEW = 'fatfs::fs::FileSystem::new'
    fnew = facts.fns.get(NEW)
    if fnew is None:
        rep.machinery('ANCHOR-MISSING ' + NEW)
        return
    defs = _single_defs(fnew)
    sites = [(b, t) for b, t in fnew.calls() if (t.get('callee') or '') == 'fatfs::fs::FatType::from_clusters']
    n = 0
    for b, t in sites:
        r = _name_root(facts, fnew, defs, t['args'][0], {})
        src = defs.get(r[1]) if r and r[0] == 'local' else None
        ok = src is not None and src[0] == 'call' and (src[1].get('callee') or '').endswith('BiosParameterBlock::total_clusters')
        n += 1
        rep.oblige('FT2', '%s|bb%d' % (NEW, b), ok=ok, nontrivial=True, sample={'fn': NEW, 'at': fnew.loc(t['span'])})
        if not ok:
            rep.violation('FT2', vkey('FT2', NEW, 'width-operand', ''), fnew.loc(t['span']),
                          'the FAT width a volume is mounted with is not computed from the cluster count of its geometry '
                          '(BiosParameterBlock::total_clusters) but from a derived value (`%s`): a volume whose count is adjusted '
                          'across 4085 / 65525 is read with the wrong entry width' % t['span']['snip'][:70])
    if not sites:
        # the width may be taken from a helper of the BPB; then that helper is the site
        rep.note('FT2: FileSystem::new does not call FatType::from_clusters itself') if hasattr(rep, 'note') else None
    rep.counts['FT2.sites'] = n
