"""Panic-site inventory and discharge (A8) shared by C07 (mount path), C17 (decode path), C15 (name path),
C05 (accounting closures) and C20 (widening sites).

A *site* is a MIR Assert (arithmetic overflow, division/remainder by zero, bounds check) or a call to a panicking
library function (panic!/assert!/unreachable!, Option/Result::unwrap/expect, range indexing of slices/str,
copy_from_slice). Sites are collected by a context-sensitive interval analysis started at root instances: each
function is analysed with the argument ranges and validated-field invariants that hold at the call site, so a site
is discharged only if it is safe in every context in which it was reached."""
import json
import os
import re

from core import VERIF, norm_snip, vkey
from intervals import Analysis, FnCtx, fmt

PANIC_CALLS = [
    (re.compile(r'^core::panicking::(panic|panic_fmt|panic_nounwind|panic_explicit|unreachable_display|panic_display|'
                r'assert_failed|assert_failed_inner|panic_bounds_check|panic_const::.*)$'), 'panic'),
    (re.compile(r'^core::option::Option::(unwrap|expect)$'), 'unwrap'),
    (re.compile(r'^core::result::Result::(unwrap|expect|unwrap_err|expect_err)$'), 'unwrap'),
    (re.compile(r'^core::option::(unwrap_failed|expect_failed)$'), 'panic'),
    (re.compile(r'^core::result::unwrap_failed$'), 'panic'),
    (re.compile(r'^(core::ops::index::Index::index|core::ops::index::IndexMut::index_mut)$'), 'index'),
    (re.compile(r'^\[T\]::(copy_from_slice|clone_from_slice|split_at|split_at_mut|swap)$'), 'slice-op'),
    (re.compile(r'^core::slice::index::.*$'), 'index'),
    (re.compile(r'^core::str::.*(slice_error_fail).*$'), 'panic'),
]


def panic_kind(callee):
    for rx, k in PANIC_CALLS:
        if rx.match(callee or ''):
            return k
    return None


class Collector:
    """accumulates per-site verdicts over all contexts"""

    def __init__(self, facts):
        self.facts = facts
        self.sites = {}  # (fn name, blk) -> {'verdicts': [...], 'kind':..., 'why': [...]}
        self.fn_contexts = {}
        self._deps = {}

    def collect(self, an):
        fn = an.fn
        if fn.crate != 'fatfs' and '::controls::' not in fn.name:
            return
        self.fn_contexts[fn.name] = self.fn_contexts.get(fn.name, 0) + 1
        for b in sorted(fn.reachable()):
            t = fn.blocks[b]['term']
            if t['k'] == 'assert':
                v, why = an.check_assert(b)
                self._add(fn, b, t, 'assert:' + t['msg']['kind'] + (':' + t['msg'].get('op', '') if t['msg'].get('op') else ''),
                          v, why, an)
            elif t['k'] == 'call':
                pk = panic_kind(t.get('callee'))
                if pk is None:
                    continue
                if b not in an.in_state:
                    self._add(fn, b, t, 'call:' + pk, 'unreachable', 'block not reachable under the computed ranges', an)
                    continue
                v, why = self.check_call(an, b, t, pk)
                self._add(fn, b, t, 'call:' + pk, v, why, an)

    def check_call(self, an, b, t, pk):
        fn = an.fn
        st, rel = an.state_before_term(b)
        callee = t.get('callee') or ''
        if pk == 'index':
            # slice[range] / str[range]
            from model import op_place, place_key
            if len(t['args']) == 2:
                base_len = an.len_of_ref_operand(st, t['args'][0])
                bp = op_place(t['args'][0])
                tt = an.ty_of_place(bp) if bp is not None else None
                for _ in range(3):
                    if tt is not None and tt['k'] in ('ref', 'ptr'):
                        tt = fn.types[tt['to']]
                if tt is not None and tt['k'] == 'str':
                    return 'fail', 'str range: byte offsets must be char boundaries'
                rinfo = an.range_operand(st, t['args'][1], b, base_len, want_ops=True)
                if rinfo is not None:
                    lo, hi, lo_op, hi_op = rinfo
                    if lo is not None and hi is not None:
                        ordered = lo[1] <= hi[0]
                        if not ordered and lo_op is not None and hi_op is not None:
                            lh, ll = an.linear_of_operand(st, hi_op), an.linear_of_operand(st, lo_op)
                            if lh is not None and ll is not None:
                                d = dict(lh[0])
                                for sk, c in ll[0].items():
                                    d[sk] = d.get(sk, 0) - c
                                if all(c >= 0 for c in d.values()) and lh[1] - ll[1] >= 0:
                                    ordered = True  # end = start + (non-negative unsigned terms)
                            if an.known_le(st, lo_op, hi_op):
                                ordered = True
                        if hi_op is None and lo_op is not None:
                            # x.. : start <= len
                            ordered = True
                            within = lo[1] <= base_len[0] or self.le_len(an, st, lo_op, t['args'][0])
                        else:
                            within = hi[1] <= base_len[0] or (hi_op is not None and self.le_len(an, st, hi_op, t['args'][0]))
                        if ordered and within:
                            return 'ok', 'range %s..%s within len %s' % (fmt(lo), fmt(hi), fmt(base_len))
                        return 'fail', 'range %s..%s not provably within len %s' % (fmt(lo), fmt(hi), fmt(base_len))
            return 'fail', 'range / index expression not understood'
        if pk == 'unwrap':
            from model import op_place, place_key
            p0 = op_place(t['args'][0]) if t['args'] else None
            if p0 is not None and ('issome', place_key(p0)) in st:
                return 'ok', 'the value is Some by construction (digit below the radix)'
            return 'fail', 'unwrap/expect on a value not known to be Some/Ok'
        if pk == 'slice-op':
            if callee.endswith('copy_from_slice') and len(t['args']) == 2:
                a = an.len_of_ref_operand(st, t['args'][0])
                b2 = an.len_of_ref_operand(st, t['args'][1])
                if a[0] == a[1] == b2[0] == b2[1]:
                    return 'ok', 'both slices have length %d' % a[0]
                from model import op_place, place_key
                k1 = [st.get(('lensym', kk)) for kk in an.keys_of(t['args'][0])]
                k2 = [st.get(('lensym', kk)) for kk in an.keys_of(t['args'][1])]
                if any(x is not None and x in k2 for x in k1):
                    return 'ok', 'both slices have the same symbolic length'
                return 'fail', 'slice lengths %s and %s not known to be equal' % (fmt(a), fmt(b2))
            if callee.endswith(('split_at', 'split_at_mut')) and len(t['args']) == 2:
                ln = an.len_of_ref_operand(st, t['args'][0])
                mid = an.read_operand(st, t['args'][1])
                if ln is not None and mid is not None and mid[1] <= ln[0]:
                    return 'ok', 'split point %s <= len %s' % (fmt(mid), fmt(ln))
                if self.le_len(an, st, t['args'][1], t['args'][0]):
                    return 'ok', 'split point is known not to exceed the length of this slice'
                return 'fail', 'split point %s not provably within len %s' % (fmt(mid), fmt(ln))
            return 'fail', 'slice lengths not known to match'
        return 'fail', 'explicit panic reachable'

    def le_len(self, an, st, idx_op, slice_op):
        """is idx known to be <= len(slice) symbolically (idx <= L where L = slice.len())?"""
        from model import op_place, place_key
        sp = op_place(slice_op)
        if sp is None:
            return False
        root = an.root_of_ref(place_key(sp))
        roots = {root, place_key(sp)}
        if root[1] and root[1][-1] == ('deref', ):
            roots.add((root[0], root[1][:-1]))
            roots.add(an.root_of_ref((root[0], root[1][:-1])))
        for k2, v in st.items():
            if k2 and k2[0] == 'lenof' and v in roots:
                L = k2[1]
                for x in an.keys_of(idx_op):
                    if ('le', x, L) in st or ('lt', x, L) in st:
                        return True
        return False

    def _add(self, fn, b, t, kind, verdict, why, an):
        key = (fn.name, b)
        e = self.sites.setdefault(key, {'kind': kind, 'verdicts': [], 'why': [], 'span': t['span'], 'fn': fn,
                                        'callee': t.get('callee'), 'used_inv': set()})
        if 'toks' not in e:
            from analyses import Deps
            d = self._deps.get(fn.name)
            if d is None:
                d = self._deps[fn.name] = Deps(fn)
            toks = set()
            ops = t['msg']['ops'] if t['k'] == 'assert' else t.get('args', [])
            for o in ops:
                toks |= d.of_operand(o)
            e['toks'] = toks
        e['verdicts'].append(verdict)
        st0 = an.in_state.get(b, ({}, {}))[0]
        fl = an.flags(st0)
        e['flags'] = fl if 'flags' not in e else (e['flags'] & fl)
        if why not in e['why']:
            e['why'].append(why)
        e['used_inv'] |= set(an.ctx.used)


def load_discharge_table():
    """entries are matched by function, site kind and the *provenance* of the site's operands (callees, fields and
    constants they depend on) - not by source text, so renaming a local or reformatting does not re-open an entry"""
    path = os.path.join(VERIF, 'tables', 'discharge.json')
    if not os.path.exists(path):
        return []
    return json.load(open(path))


def _same_owner(entry_fn, fname, site_fn):
    """is `fname` a function of the same type (any impl of it) or, for free functions, of the same module as the
    function a table entry names?  An expression moved into a helper keeps its discharge entry."""
    eb = entry_fn.split('::{closure')[0]
    fb = fname.split('::{closure')[0]
    st = getattr(site_fn, 'self_ty', None)
    if st is None and site_fn is not None and '::{closure' in fname:
        # a closure: owner of the enclosing function
        m = re.match(r'^<(.+?) as ', fb)
        st = m.group(1) if m else None
    if st:
        return eb.startswith('<%s as ' % st) or eb.startswith(st + '::') or (eb.startswith('<') and eb[1:].startswith(st + '<'))
    if eb.startswith('<') or fb.startswith('<'):
        return False
    return eb.rsplit('::', 1)[0] == fb.rsplit('::', 1)[0] and eb.count('::') == fb.count('::')


def _module_of(name):
    """crate::module of a function name ('<fatfs::fs::DiskSlice as fatfs::io::Write>::write' -> 'fatfs::fs')"""
    n = name
    if n.startswith('<'):
        n = n[1:]
    return '::'.join(n.split('::')[:2])


def _alias_names(fname, site):
    """names under which a site's function may be listed: a closure of a helper that was inlined (rules/..inline.py) is
    also a closure of the functions the helper was inlined into"""
    out = [fname]
    facts = getattr(site.get('fn'), 'facts_ref', None)
    inl = getattr(facts, 'inlined', None) if facts is not None else None
    if inl and '::{closure' in fname:
        base, _, rest = fname.partition('::{closure')
        seen = set()
        work = [base]
        while work:
            b = work.pop()
            for caller, _blk in inl.get(b, ()):
                if caller not in seen:
                    seen.add(caller)
                    work.append(caller)
        for c in sorted(seen):
            out.append(c + '::{closure' + rest)
            # closure numbering differs between the helper and its new home: any closure of the caller
            out.append(c + '::{closure#*}')
    return out


def table_lookup(table, fname, site, config=None):
    for nm in _alias_names(fname, site):
        if nm.endswith('::{closure#*}'):
            pref = nm[:-len('#*}')]
            for e0 in table:
                if e0['fn'].startswith(pref):
                    e = _table_lookup(table, e0['fn'], site, config, exact=True)
                    if e is not None:
                        return e
            continue
        e = _table_lookup(table, nm, site, config, exact=True)
        if e is not None:
            return e
    return _table_lookup(table, fname, site, config, exact=False)


def _table_lookup(table, fname, site, config, exact):
    for e in table:
        if e['kind'] != site['kind']:
            continue
        if exact:
            if e['fn'] != fname:
                continue
        elif e['fn'] == fname or e.get('exact_fn'):
            continue
        elif not _same_owner(e['fn'], fname, site.get('fn')):
            # an expression moved to another type of the same module (a value computed once and cached in a new struct)
            # keeps its entry when the entry pins the expression down by at least two provenance tokens
            m0 = e.get('match') or {}
            npins = sum(len(m0.get(k_, [])) for k_ in ('calls', 'fields', 'consts', 'names', 'params'))
            if npins < 2 or _module_of(e['fn']) != _module_of(fname):
                continue
        if config is not None and 'configs' in e and config not in e['configs']:
            continue
        m = e.get('match') or {}
        toks = site.get('toks', set())
        ok = True
        for c in m.get('calls', []):
            from analyses import has_call
            ok = ok and has_call(toks, c)
        for f in m.get('fields', []):
            ok = ok and ('field', f) in toks
        for c in m.get('consts', []):
            ok = ok and ('const', c) in toks
        if m.get('params'):
            sfn = site.get('fn')
            names = set()
            if sfn is not None and hasattr(sfn, 'locals'):
                names = {sfn.locals[tk[1]].get('name') for tk in toks if tk[0] in ('param', 'local') and tk[1] <= sfn.argc}
            ok = ok and set(m['params']) <= names
        if m.get('names'):
            sfn = site.get('fn')
            have = set()
            if sfn is not None and hasattr(sfn, 'locals'):
                have = {sfn.locals[tk[1]].get('name') for tk in toks if tk[0] in ('param', 'local') and tk[1] < len(sfn.locals)}
            ok = ok and set(m['names']) <= have
        if 'expn' in m:
            ok = ok and site['span'].get('expn') == m['expn']
        if 'snip_contains' in m:
            ok = ok and m['snip_contains'] in site['span']['snip']
        for c in m.get('not_consts', []):
            ok = ok and ('const', c) not in toks
        for f in m.get('not_fields', []):
            ok = ok and ('field', f) not in toks
        for c in m.get('not_calls', []):
            ok = ok and not any(tk[0] == 'call' and tk[1].endswith(c) for tk in toks)
        if ok:
            return e
    return None


def entry_anchor_holds(facts, a):
    from intervals import relation_anchor_holds
    return relation_anchor_holds(facts, {'establisher': a['fn'], 'anchor': a})


def load_relations():
    path = os.path.join(VERIF, 'tables', 'relations.json')
    return json.load(open(path)) if os.path.exists(path) else []


def run_inventory(facts, root_insts, base_fields=None, root_params=None):
    """analyse every root instance; returns the Collector"""
    col = Collector(facts)
    facts.relations = load_relations()
    summaries = {}
    for iid in root_insts:
        fn = facts.fns.get(facts.instances[iid]['fn'])
        if fn is None:
            continue
        used = set()
        Analysis(facts, fn, FnCtx(dict(root_params or {}), dict(base_fields or {}), used), summaries, 0, inst=iid,
                 collector=col)
    return col


PURE_OBSERVERS = ('core::cmp::PartialEq::eq', 'core::cmp::PartialEq::ne', 'core::cmp::PartialOrd::lt', 'core::cmp::PartialOrd::le',
                  'core::cmp::PartialOrd::gt', 'core::cmp::PartialOrd::ge', 'core::option::Option::is_some',
                  'core::option::Option::is_none', 'core::result::Result::is_ok', 'core::result::Result::is_err',
                  'core::result::Result::ok', 'core::result::Result::err', 'core::option::Option::ok_or',
                  'core::convert::From::from', 'core::convert::Into::into', 'core::option::Option::map_or',
                  'core::option::Option::unwrap_or', 'core::cmp::Ord::min', 'core::cmp::Ord::max')


def inside_debug_assert(fn, b):
    """is the checked operation at block b part of the condition of a `debug_assert!` and of nothing else?  Its result (followed
    through temporaries) is never stored, never passed to a call, and only decides switches one of whose arms is the
    assertion's own panic call."""
    from model import op_place
    t = fn.blocks[b]['term']
    if t['k'] != 'assert':
        return False
    cp = op_place(t.get('cond')) if t.get('cond') is not None else None
    if cp is None:
        return False
    return feeds_only_debug_assert(fn, {cp['l']}, skip_assert_blk=b)


def feeds_only_debug_assert(fn, start_locals, skip_assert_blk=None):
    """do the given locals (followed forward through temporaries, shared references and side-effect-free observers such as
    `==`, `is_some`, `ok`) end up nowhere but in the condition of a `debug_assert!`?"""
    from model import op_place, operands_of_rvalue
    b = skip_assert_blk
    cp = {'l': next(iter(start_locals))}
    S = set(start_locals)
    switches = set()
    changed = True
    while changed:
        changed = False
        for bi in fn.reachable():
            for s in fn.blocks[bi]['stmts']:
                if s['k'] != 'assign':
                    continue
                uses = False
                for o in operands_of_rvalue(s['rv']):
                    p = op_place(o)
                    if p is not None and p['l'] in S:
                        uses = True
                if s['rv']['k'] in ('ref', 'rawptr', 'discr') and s['rv']['p']['l'] in S:
                    if s['rv']['k'] == 'rawptr' or s['rv'].get('mut') or s['lhs']['p']:
                        return False
                    if s['lhs']['l'] not in S:
                        S.add(s['lhs']['l'])
                        changed = True
                if uses:
                    if s['lhs']['p']:
                        return False
                    if s['lhs']['l'] not in S:
                        S.add(s['lhs']['l'])
                        changed = True
            tt = fn.blocks[bi]['term']
            if tt['k'] == 'call':
                for a in tt['args']:
                    p = op_place(a)
                    if p is not None and p['l'] in S:
                        if tt.get('callee') in PURE_OBSERVERS and not tt['dest']['p']:
                            if tt['dest']['l'] not in S:
                                S.add(tt['dest']['l'])
                                changed = True
                        elif (tt.get('callee') or '').startswith('core::panicking::') and \
                                (tt['span'].get('expn') or '').startswith('debug_assert'):
                            pass  # the assertion's own failure report (`assert_failed(kind, &left, &right, ..)`)
                        else:
                            return False
            elif tt['k'] == 'switch':
                p = op_place(tt['discr'])
                if p is not None and p['l'] in S:
                    switches.add(bi)
            elif tt['k'] == 'assert' and bi != b:
                p = op_place(tt.get('cond')) if tt.get('cond') is not None else None
                if p is not None and p['l'] in S and (b is None or p['l'] != cp['l']):
                    return False
    if not switches or 0 in S:
        return False
    for sw in switches:
        hit = False
        for x in fn.succ(sw):
            cur = x
            for _ in range(4):
                tx = fn.blocks[cur]['term']
                if tx['k'] == 'call' and panic_kind(tx.get('callee')) and (tx['span'].get('expn') or '').startswith('debug_assert'):
                    hit = True
                    break
                if tx['k'] == 'goto' and not fn.blocks[cur]['stmts']:
                    cur = fn.succ(cur)[0]
                    continue
                break
        if not hit:
            return False
    return True


def classify(site):
    vs = site['verdicts']
    if all(v == 'unreachable' for v in vs):
        return 'unreachable'
    if all(v in ('ok', 'unreachable') for v in vs):
        return 'ok'
    return 'fail'


def report_sites(rep, rule, col, table, scope_pred=lambda fn, site: True, prop_note=''):
    """one obligation per site; undischarged sites not in the manual table are violations"""
    classes = {'auto': 0, 'auto-with-invariant': 0, 'unreachable': 0, 'D3': 0, 'D4': 0, 'U': 0}
    debug_asserts = []
    for (fname, b), site in sorted(col.sites.items(), key=lambda x: (x[0][0], x[0][1])):
        fn = site['fn']
        if not scope_pred(fn, site):
            continue
        if site['span'].get('expn') in ('trace', 'debug', 'info', 'warn', 'error', 'log'):
            continue
        is_control = fn.crate != 'fatfs'
        c = classify(site)
        snip = site['span']['snip']
        ent = table_lookup(table, fname, site, getattr(col.facts, 'config', None))
        how = None
        if c == 'ok':
            how = 'auto-with-invariant' if site['used_inv'] else 'auto'
        elif c == 'unreachable':
            how = 'unreachable'
        elif ent is not None and all(f in site.get('flags', set()) for f in ent.get('requires_flags', [])) and \
                all(entry_anchor_holds(col.facts, a) for a in ent.get('anchors', [])):
            how = 'D3' if ent.get('requires_flags') or ent.get('anchors') else 'D4'
        else:
            how = 'U'
        if how == 'U' and site['kind'].startswith('assert:') and inside_debug_assert(fn, b):
            # arithmetic inside the condition of a `debug_assert!`: compiled out together with the assertion
            debug_asserts.append('%s  %s (inside the condition)' % (fn.loc(site['span']), snip[:80]))
            classes['debug-assert-not-proved'] = classes.get('debug-assert-not-proved', 0) + 1
            continue
        if how == 'U' and site['kind'] == 'call:panic' and (site['span'].get('expn') or '').startswith('debug_assert'):
            # a `debug_assert!` the analysis cannot prove: the developer's own run-time check, absent from release
            # builds (unlike an overflow check, nothing misbehaves when it is compiled out). Listed, not a violation.
            debug_asserts.append('%s  %s' % (fn.loc(site['span']), snip[:90]))
            classes['debug-assert-not-proved'] = classes.get('debug-assert-not-proved', 0) + 1
            continue
        classes[how] += 1
        ok = how != 'U'
        rep.oblige(rule, '%s|bb%d|%s' % (fname, b, site['kind']), ok=ok, nontrivial=(how != 'unreachable'),
                   sample={'fn': fname, 'at': fn.loc(site['span']), 'site': site['kind'], 'expr': snip[:70],
                           'discharge': how, 'why': site['why'][:2] if how not in ('D3', 'D4') else [ent['reason']]})
        if not ok:
            rep.violation(rule, vkey(rule, fname, site['kind'], snip), fn.loc(site['span']),
                          'possible panic (%s) in %s %s: %s' % (site['kind'], fname, prop_note, '; '.join(site['why'][:2])),
                          ['expression: ' + snip[:120], 'contexts analysed: %d, verdicts: %s' % (
                              len(site['verdicts']), sorted(set(site['verdicts'])))], control=is_control)
    if debug_asserts:
        rep.notes.append('%s: debug_assert! sites that the analysis does not prove (debug builds only; not counted as '
                         'violations): %s' % (rule, '; '.join(sorted(set(debug_asserts))[:8])))
    return classes
