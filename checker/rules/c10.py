"""C10 - FAT copies and reserved table bits (DESIGN.md section 4, R10.1-R10.4).

R10.1 every table writer runs on a DiskSlice (the mirrored, bounded view built by fat_slice)
R10.2 slice geometry: with mirroring all `fats` copies starting at the first FAT; without, exactly the active copy
R10.3 the replicated write: one seek + write per mirror, offset advancing by the slice size, cursor moved once
R10.4 reserved entries / bits: FAT32 set merges the old top nibble (X4), format_fat writes entries 0/1 and marks the
      padding entries, the allocator's hint is clamped to the valid cluster range (strictly below total + 2)
"""
from analyses import Deps, edge_dominates, nonzero_targets, switch_source, zero_targets
from core import vkey
from model import op_const, op_place, place_key

FAT_SLICE = 'fatfs::fs::fat_slice'
DS_WRITE = '<fatfs::fs::DiskSlice as fatfs::io::Write>::write'
TABLE_WRITERS = ('fatfs::table::write_fat', )


def arm_blocks(fn, sw, targets):
    """blocks reachable from the entry when only the given targets of switch `sw` may be taken"""
    cut = {(sw, x) for x in fn.succ(sw) if x not in targets}
    return fn.reach_from([0], cut_edges=cut)


DS_CTORS = ('DiskSlice::from_sectors', 'DiskSlice::new')


def _mirroring_switch(FS):
    """block of the switch that tests mirroring_enabled() itself (possibly negated / copied), or bit 7 of the extended flags
    tested inline - not something merely derived from it such as active_fat()"""
    for bi in FS.reachable():
        t = FS.blocks[bi]['term']
        if t['k'] != 'switch':
            continue
        src = switch_source(FS, bi)
        hit = False
        if src and src['kind'] == 'call' and (src.get('callee') or '').endswith('::mirroring_enabled'):
            hit = True
        elif src and src['kind'] == 'unop':
            pu = op_place(src['a'])
            for b2, t2 in FS.calls():
                if pu is not None and t2['dest']['l'] == pu['l'] and (t2.get('callee') or '').endswith('::mirroring_enabled'):
                    hit = True
        elif src and src['kind'] == 'binop' and src['op'] in ('Eq', 'Ne'):
            d0 = Deps(FS, _summary_depth=3)
            tk0 = d0.of_operand(src['a']) | d0.of_operand(src['b'])
            hit = ('field', 'extended_flags') in tk0 and ('const', 0x80) in tk0 and ('op', 'BitAnd') in tk0
        if hit:
            return bi
    return None


def _field_read_of(fn, o, adt):
    """name of the field of struct `adt` that the operand is a copy of, or None"""
    from analyses import place_prefix_type
    p = op_place(o)
    for _ in range(8):
        if p is None:
            return None
        if p['p'] and 'f' in p['p'][-1]:
            owner = place_prefix_type(fn, p, len(p['p']) - 1)
            if owner is not None and owner.get('k') == 'adt' and owner.get('path') == adt:
                return p['p'][-1].get('n')
            return None
        defs = [s_['rv'] for bi in fn.reachable() for s_ in fn.blocks[bi]['stmts']
                if s_['k'] == 'assign' and not s_['lhs']['p'] and s_['lhs']['l'] == p['l']]
        if len(defs) != 1 or defs[0]['k'] not in ('use', 'cast'):
            return None
        p = op_place(defs[0]['a'])
    return None


def geometry_sites(facts):
    """functions that choose the FAT region under the mirroring test, with the operands that carry (start, size, copies):
    the arguments of a DiskSlice constructor, or the fields of a private struct the geometry is kept in"""
    out = []
    for FS in facts.fns.values():
        if FS.crate != 'fatfs':
            continue
        sw = _mirroring_switch(FS)
        if sw is None:
            continue
        after = FS.reach_from([sw])
        ctor = [(b, t) for b, t in FS.calls() if (t.get('callee') or '').endswith(DS_CTORS) and b in after and len(t['args']) >= 3]
        if ctor:
            b, t = ctor[0]
            out.append({'fn': FS, 'sw': sw, 'kind': 'constructor call', 'first': t['args'][0], 'count': t['args'][1],
                        'mirrors': t['args'][2], 'span': t['span'], 'struct': None, 'blk': b})
            continue
        # an aggregate of a crate struct with one u8 field and two wider integer fields
        d = Deps(FS)
        for bi in sorted(after):
            for s_ in FS.blocks[bi]['stmts']:
                rv = s_['rv'] if s_['k'] == 'assign' else None
                if rv is None or rv['k'] != 'agg' or rv.get('ak') != 'adt' or not (rv.get('adt') or '').startswith('fatfs::'):
                    continue
                a = facts.adts.get(rv['adt'])
                if a is None or a.get('kind') != 'struct':
                    continue
                small, wide = [], []
                for (fname, o), fd in zip(zip(rv.get('fields') or [], rv.get('ops') or []), a['variants'][0]['fields']):
                    ty = FS.types[fd['ty']]
                    if ty.get('k') == 'int' and ty.get('bits') == 8:
                        small.append((fname, o))
                    elif ty.get('k') == 'int' and ty.get('bits', 0) >= 32:
                        wide.append((fname, o))
                if len(small) != 1 or len(wide) != 2:
                    continue
                calls = lambda o_: {tk[1].rsplit('::', 1)[-1] for tk in d.of_operand(o_) if tk[0] == 'call'}
                firsts = [w for w in wide if 'reserved_sectors' in calls(w[1])]
                counts = [w for w in wide if 'reserved_sectors' not in calls(w[1])]
                if len(firsts) != 1 or len(counts) != 1:
                    continue
                out.append({'fn': FS, 'sw': sw, 'kind': 'struct ' + rv['adt'], 'first': firsts[0][1], 'count': counts[0][1],
                            'mirrors': small[0][1], 'span': s_['span'], 'blk': bi,
                            'struct': (rv['adt'], {'first': firsts[0][0], 'count': counts[0][0], 'mirrors': small[0][0]})})
                break
            else:
                continue
            break
    return out


def run(ctx, rep):
    facts = ctx.facts
    # ---------------- R10.1
    n = 0
    for i in facts.instances:
        if i['fn'] in TABLE_WRITERS or (i['fn'].startswith('<fatfs::table::Fat<') and i['fn'].endswith(('::set_raw', '::set'))):
            if i['crate'] != 'fatfs':
                continue
            n += 1
            ok = 'fatfs::fs::DiskSlice' in i['args']
            rep.oblige('R10.1', '%s#%d' % (i['fn'], i['id']), ok=ok,
                       sample={'instance': i['fn'], 'stream_type': i['args'][:90]} if n <= 2 else None)
            if not ok:
                rep.violation('R10.1', vkey('R10.1', i['fn'], 'stream', i['args'][:60]), 'src/table.rs',
                              'a FAT writer is instantiated on a stream that is not the mirrored DiskSlice view (%s): '
                              'copies can diverge' % i['args'][:80])
    if n == 0:
        rep.machinery('FLOOR no table-writer instance in the call graph')

    # ---------------- R10.2
    sites = geometry_sites(facts)
    ctx.cache['r10_sites'] = sites
    if not sites:
        FS = facts.fns.get(FAT_SLICE)
        rep.oblige('R10.2', FAT_SLICE, ok=False, nontrivial=True)
        rep.violation('R10.2', vkey('R10.2', FAT_SLICE, 'mirroring-switch', ''), FS.loc(FS.span) if FS else 'src/fs.rs',
                      'FAT slice geometry: the number of copies written and the first sector are not selected by '
                      'mirroring_enabled() (bit 7 of the extended flags): with mirroring disabled and active FAT 0 '
                      'the inactive copies would be written too')
    for G in sites:
        FS, sw = G['fn'], G['sw']
        t = FS.blocks[sw]['term']
        probs = []
        for arm, tg in (('mirroring', nonzero_targets(t)), ('single', zero_targets(t))):
            blocks = arm_blocks(FS, sw, tg)
            d = Deps(FS, blocks)
            first = d.of_operand(G['first'])
            mirrors = d.of_operand(G['mirrors'])
            count = d.of_operand(G['count'])
            calls = lambda toks: {tk[1].rsplit('::', 1)[-1] for tk in toks if tk[0] == 'call'}
            # the active-FAT number: the getter, or bits 0-3 of the extended flags decoded in place
            inline_active = lambda toks: {('field', 'extended_flags'), ('const', 0x0F), ('op', 'BitAnd')} <= toks
            if inline_active(first):
                first = first | {('call', 'inline::active_fat')}
                G['inline_active'] = True
            if arm == 'mirroring':
                if ('field', 'fats') not in mirrors:
                    probs.append('with mirroring enabled the number of copies written does not come from bpb.fats')
                if 'active_fat' in calls(first):
                    probs.append('with mirroring enabled the slice start depends on the active-FAT number (it must '
                                 'start at the first FAT)')
                if 'reserved_sectors' not in calls(first):
                    probs.append('with mirroring enabled the slice does not start right after the reserved sectors')
            else:
                # (the exact count - constructor argument composed with the loop's own convention - is R10.7)
                if ('field', 'fats') in mirrors or not any(tk[0] == 'const' for tk in mirrors):
                    probs.append('with mirroring disabled more than the one active copy is written')
                if not {'active_fat', 'sectors_per_fat', 'reserved_sectors'} <= calls(first):
                    probs.append('with mirroring disabled the slice start is not reserved + active_fat * '
                                 'sectors_per_fat')
            if 'sectors_per_fat' not in calls(count):
                probs.append('the slice size is not sectors_per_fat')
        # a geometry kept in a struct: every slice built from that struct takes start, size and copies from the matching fields
        if G['struct'] is not None:
            adt, roles = G['struct']
            used = 0
            for fn2 in facts.fns.values():
                if fn2.crate != 'fatfs':
                    continue
                for b2, t2 in fn2.calls():
                    if not (t2.get('callee') or '').endswith(DS_CTORS) or len(t2['args']) < 3:
                        continue
                    got = [_field_read_of(fn2, a, adt) for a in t2['args'][:3]]
                    if not any(got):
                        continue
                    used += 1
                    want = [roles['first'], roles['count'], roles['mirrors']]
                    if got != want:
                        probs.append('a slice is built from %s with fields %s where (start, size, copies) are %s' % (adt.rsplit('::', 1)[-1], got, want))
            if not used:
                probs.append('the geometry computed under the mirroring test is stored in %s but no slice is built from it' % adt)
        rep.oblige('R10.2', FS.name, ok=not probs, nontrivial=True,
                   sample={'fn': FS.name, 'arms_checked': ['mirroring', 'single'], 'sink': G['kind'], 'problems': probs})
        for pr in probs:
            rep.violation('R10.2', vkey('R10.2', FS.name, pr[:40], ''), FS.loc(FS.span), 'FAT slice geometry: ' + pr)
    for name, mask, what in (('fatfs::boot_sector::BiosParameterBlock::mirroring_enabled', 0x80, 'bit 7'),
                             ('fatfs::boot_sector::BiosParameterBlock::active_fat', 0x0F, 'bits 0-3')):
        fn = facts.fns.get(name)
        if fn is None or fn.crate != 'fatfs':
            # decoded in place (a `FatMirroring` enum instead of the two getters): the masks were seen at the sites above -
            # bit 7 in the switch that selects the arm (_mirroring_switch), bits 0-3 in the start of the single-copy arm
            inl = bool(sites) and all(
                switch_source(G['fn'], G['sw']) and switch_source(G['fn'], G['sw'])['kind'] == 'binop' and
                (name.endswith('mirroring_enabled') or G.get('inline_active')) for G in sites)
            rep.oblige('R10.2.flags', name, ok=inl, nontrivial=True, sample={'decoded': 'in place'})
            if not inl:
                rep.machinery('ANCHOR-MISSING ' + name)
            continue
        d = Deps(fn)
        toks = d.of_local(0)
        ok = ('field', 'extended_flags') in toks and ('const', mask) in toks and ('op', 'BitAnd') in toks
        if name.endswith('active_fat'):
            # the active FAT number is only meaningful when mirroring is disabled: it must be 0 otherwise
            calls = [t.get('callee') for b, t in fn.calls()]
            ok = ok and any((c or '').endswith('::mirroring_enabled') for c in calls) and ('const', 0) in toks
        rep.oblige('R10.2.flags', name, ok=ok, nontrivial=True)
        if not ok:
            rep.violation('R10.2', vkey('R10.2', name, 'flags', ''), fn.loc(fn.span),
                          '%s does not decode %s of the extended flags as the format defines (the active FAT number is '
                          'ignored while mirroring is enabled)' % (name.rsplit('::', 1)[-1], what))

    # ---------------- R10.3
    W = facts.fns.get(DS_WRITE)
    if W is None:
        rep.machinery('ANCHOR-MISSING ' + DS_WRITE)
    else:
        d = Deps(W)
        loops = W.loops()
        writes = [b for b, t in W.calls() if (t.get('callee') or '').endswith(('io::Write::write_all', 'io::Write::write'))]
        seeks = [b for b, t in W.calls() if (t.get('callee') or '').endswith('io::Seek::seek')]
        probs = []
        body = None
        for h, bd in loops.items():
            if any(w in bd for w in writes):
                body = bd
        if body is None:
            probs.append('the device write is not inside a loop over the mirrors')
        else:
            # loop bound depends on self.mirrors
            nexts = [b for b in body if (W.blocks[b]['term'].get('callee') or '').endswith('Iterator::next')]
            ok_bound = False
            for b, t in W.calls():
                if (t.get('callee') or '').endswith('IntoIterator::into_iter'):
                    if ('field', 'mirrors') in d.of_operand(t['args'][0]):
                        ok_bound = True
            # ... or the range is handed to the loop directly (an adaptor turned back into a loop)
            for nb in nexts:
                if ('field', 'mirrors') in d.of_operand(W.blocks[nb]['term']['args'][0]):
                    ok_bound = True
            if not ok_bound:
                probs.append('the loop bound does not depend on self.mirrors')
            lseeks = [b for b in seeks if b in body]
            if not lseeks:
                probs.append('no seek per mirror inside the loop')
            for sb in lseeks:
                toks = d.of_operand(W.blocks[sb]['term']['args'][1])
                dep_counter = any(('callsite', nb) in toks for nb in nexts)
                carried = False
                for bi in body:
                    for s in W.blocks[bi]['stmts']:
                        if s['k'] == 'assign' and not s['lhs']['p'] and ('local', s['lhs']['l']) in toks:
                            from model import operands_of_rvalue
                            own = set()
                            for o in operands_of_rvalue(s['rv']):
                                p = op_place(o)
                                if p is not None:
                                    own |= {('local', p['l'])} | {tk for tk in d.direct.get(p['l'], ()) if tk[0] == 'local'}
                            if ('local', s['lhs']['l']) in own and W.locals[s['lhs']['l']].get('name'):
                                carried = True
                if ('field', 'size') not in toks:
                    probs.append('the per-mirror seek offset does not depend on the slice size')
                if not (dep_counter or carried):
                    probs.append('the per-mirror seek offset depends neither on the loop counter nor on a value carried '
                                 'from the previous iteration: every iteration after the second addresses the same copy')
            # cursor advanced outside the loop
            for bi in body:
                for s in W.blocks[bi]['stmts']:
                    if s['k'] == 'assign' and s['lhs']['p'] and [e.get('n') for e in s['lhs']['p'] if 'f' in e][-1:] == ['offset']:
                        probs.append('the slice cursor is advanced inside the mirror loop')
        rep.oblige('R10.3', DS_WRITE, ok=not probs, nontrivial=True, sample={'fn': DS_WRITE, 'problems': probs})
        for pr in probs:
            rep.violation('R10.3', vkey('R10.3', DS_WRITE, pr[:40], ''), W.loc(W.span), 'replicated FAT write: ' + pr)

    # ---------------- R10.4
    from rules import c08
    # X4 via a sub-report
    sub = type(rep)(rep.prop, rep.config)
    c08.run(ctx, sub)
    for v in sub.violations:
        if v.rule == 'X4':
            rep.violations.append(v)
    nx4 = sub.counts.get('X4', 0)
    rep.obligations += nx4
    rep.discharged += nx4 - len([v for v in sub.violations if v.rule == 'X4'])
    rep.counts['X4'] = nx4
    FF = facts.fns.get('fatfs::table::format_fat')
    if FF is None:
        rep.machinery('ANCHOR-MISSING format_fat')
    else:
        d = Deps(FF)
        w8 = [(b, t) for b, t in FF.calls() if (t.get('callee') or '').rsplit('::', 1)[-1] in ('write_u8', 'write_u16_le', 'write_u32_le')]
        ok_media = any(('param', 3) in d.of_operand(t['args'][1]) for b, t in w8)
        wf = [(b, t) for b, t in FF.calls() if t.get('callee') == 'fatfs::table::write_fat']
        loops = FF.loops()
        ok_pad = False
        for b, t in wf:
            if any(b in body for body in loops.values()):
                toks = d.of_operand(t['args'][3])
                ctoks = d.of_operand(t['args'][2])
                if any(tk[0] == 'ctor' and tk[1].endswith('EndOfChain') for tk in toks) and ('param', 5) in d.of_local(
                        [x for x in range(len(FF.locals)) if FF.locals[x].get('name') == 'start_cluster'][0]
                        if any(l.get('name') == 'start_cluster' for l in FF.locals) else 0) | ctoks:
                    ok_pad = True
        ok = ok_media and ok_pad
        rep.oblige('R10.4.format', FF.name, ok=ok, nontrivial=True)
        if not ok:
            rep.violation('R10.4', vkey('R10.4', FF.name, 'reserved-entries', ''), FF.loc(FF.span),
                          'format_fat does not write the media descriptor into entry 0 / does not mark the padding '
                          'entries past total_clusters + 2 as end-of-chain')
    AC = facts.fns.get('fatfs::table::alloc_cluster')
    if AC is None:
        rep.machinery('ANCHOR-MISSING table::alloc_cluster')
    else:
        d = Deps(AC)
        ok = False
        why = 'no comparison of the hint with total_clusters + 2'
        for bi in AC.reachable():
            t = AC.blocks[bi]['term']
            if t['k'] != 'switch':
                continue
            src = switch_source(AC, bi)
            if not src or src['kind'] != 'binop' or src['op'] not in ('Lt', 'Le', 'Gt', 'Ge'):
                continue
            ta, tb = d.of_operand(src['a']), d.of_operand(src['b'])
            hint_a, hint_b = ('param', 4) in ta, ('param', 4) in tb
            end_a, end_b = ('param', 5) in ta and ('const', 2) in ta, ('param', 5) in tb and ('const', 2) in tb
            if hint_a and end_b and not hint_b:
                ok = src['op'] == 'Lt'
                why = 'the hint is accepted when `hint %s total_clusters + 2`' % src['op']
            elif hint_b and end_a and not hint_a:
                ok = src['op'] == 'Gt'
                why = 'the hint is accepted when `total_clusters + 2 %s hint`' % src['op']
        if not ok:
            # the same test written as `hint.filter(|&n| n < end_cluster)`: the comparison lives in the closure
            for b, t in AC.calls():
                if not (t.get('callee') or '').endswith('Option::filter') or len(t['args']) != 2:
                    continue
                if ('param', 4) not in d.of_operand(t['args'][0]):
                    continue
                envt = d.of_operand(t['args'][1])
                if not (('param', 5) in envt and ('const', 2) in envt):
                    continue
                for tk in envt:
                    if tk[0] != 'closure' or tk[1] not in facts.fns:
                        continue
                    cf = facts.fns[tk[1]]
                    cd = Deps(cf)
                    for bi in cf.reachable():
                        for s_ in cf.blocks[bi]['stmts']:
                            if s_['k'] == 'assign' and s_['rv']['k'] == 'binop' and s_['rv']['op'] in ('Lt', 'Le', 'Gt', 'Ge'):
                                ca, cb = cd.of_operand(s_['rv']['a']), cd.of_operand(s_['rv']['b'])
                                el_a, el_b = ('param', 2) in ca, ('param', 2) in cb
                                env_a, env_b = ('param', 1) in ca, ('param', 1) in cb
                                if el_a and env_b and not el_b:
                                    ok = s_['rv']['op'] == 'Lt'
                                    why = 'the hint is kept when `hint %s total_clusters + 2` (filter closure)' % s_['rv']['op']
                                elif el_b and env_a and not el_a:
                                    ok = s_['rv']['op'] == 'Gt'
                                    why = 'the hint is kept when `total_clusters + 2 %s hint` (filter closure)' % s_['rv']['op']
        rep.oblige('R10.4.hint', AC.name, ok=ok, nontrivial=True, sample={'fn': AC.name, 'clamp': why})
        if not ok:
            rep.violation('R10.4', vkey('R10.4', AC.name, 'hint-clamp', ''), AC.loc(AC.span),
                          'the next-free hint is not clamped to valid cluster numbers (strictly below total_clusters + '
                          '2): %s; a padding entry past the last cluster can be handed out' % why)


# ---------------------------------------------------------------------------------------------
# R10.6  entries are stored only through the merging writer: `set_raw` overwrites the whole stored word (FAT32: the reserved
#        nibble; FAT12: the neighbour's nibble is handled one level further down), so only `set` of the same width - which reads
#        the old word back and keeps what must be kept (X4 / X9) - may call it

def run_raw_writers(ctx, rep):
    facts = ctx.facts
    n = 0
    for fn in facts.fns.values():
        if fn.crate != 'fatfs':
            continue
        for b, t in fn.calls():
            callee = t.get('callee') or ''
            if not callee.endswith('::set_raw') or 'FatTrait' not in callee:
                continue
            n += 1
            is_set = fn.name.endswith('::set') and (getattr(fn, 'impl_trait', None) == 'fatfs::table::FatTrait' or
                                                   fn.name.startswith('fatfs::table::FatTrait::'))
            same = callee[:-len('set_raw')]
            ok = is_set and (callee.startswith('fatfs::table::FatTrait::') or fn.name == same + 'set')
            rep.oblige('R10.6', '%s|%s' % (fn.name, callee), ok=ok, nontrivial=True,
                       sample={'caller': fn.name, 'callee': callee, 'at': fn.loc(t['span'])})
            if not ok:
                rep.violation('R10.6', vkey('R10.6', fn.name, 'raw-writer', callee), fn.loc(t['span']),
                              '%s stores a FAT entry with %s, bypassing `set` of that width: the whole stored word is '
                              'overwritten, so bits the format reserves (the top nibble of a FAT32 entry) are not preserved' %
                              (fn.name, callee))
    rep.counts['R10.6.sites'] = n


# ---------------------------------------------------------------------------------------------
# R10.7  how many copies a slice writes = (what the constructor is given) composed with (how the write loop counts):
#        `fats` copies with mirroring, exactly one otherwise (active FAT only; the fixed root directory)

def _affine(fn, blocks, o, depth=0):
    """value of an operand as a * bpb.fats + b over the definitions inside `blocks`, or None"""
    c = op_const(o)
    if c is not None:
        return (0, c['val']) if c.get('val') is not None else None
    p = op_place(o)
    if p is None or depth > 14:
        return None
    names = [e.get('n') for e in p['p'] if 'f' in e]
    if names[-1:] == ['fats']:
        return (1, 0)
    defs = []
    for bi in blocks:
        for s_ in fn.blocks[bi]['stmts']:
            if s_['k'] == 'assign' and not s_['lhs']['p'] and s_['lhs']['l'] == p['l']:
                defs.append(s_['rv'])
    if len(defs) != 1:
        return None
    rv = defs[0]
    if p['p']:
        idx = [e.get('f') for e in p['p'] if 'f' in e]
        if len(idx) != 1:
            return None
        if rv['k'] == 'agg' and rv.get('ak') == 'tuple' and idx[0] < len(rv['ops']):
            return _affine(fn, blocks, rv['ops'][idx[0]], depth + 1)
        if rv['k'] == 'binop' and rv['op'].endswith('WithOverflow') and idx[0] == 0:
            return _affine_binop(fn, blocks, rv, depth)
        return None
    if rv['k'] in ('use', 'cast'):
        return _affine(fn, blocks, rv['a'], depth + 1)
    if rv['k'] == 'binop':
        return _affine_binop(fn, blocks, rv, depth)
    return None


def _affine_binop(fn, blocks, rv, depth):
    op = rv['op'].replace('WithOverflow', '').replace('Unchecked', '')
    if op not in ('Add', 'Sub'):
        return None
    x, y = _affine(fn, blocks, rv['a'], depth + 1), _affine(fn, blocks, rv['b'], depth + 1)
    if x is None or y is None:
        return None
    return (x[0] + y[0], x[1] + y[1]) if op == 'Add' else (x[0] - y[0], x[1] - y[1])


def run_copies(ctx, rep):
    facts = ctx.facts
    W = facts.fns.get(DS_WRITE)
    if W is None:
        return
    # how the loop counts: 0..mirrors writes `mirrors` copies, 0..=mirrors one more
    extra = None
    for b, t in W.calls():
        if not (t.get('callee') or '').endswith('IntoIterator::into_iter') or not t['args']:
            continue
        ap = op_place(t['args'][0])
        if ap is None or ap['p']:
            continue
        for bi in W.reachable():
            for s_ in W.blocks[bi]['stmts']:
                if s_['k'] == 'assign' and not s_['lhs']['p'] and s_['lhs']['l'] == ap['l'] and s_['rv']['k'] == 'agg' and \
                        (s_['rv'].get('adt') or '').endswith('ops::range::Range') and len(s_['rv']['ops']) == 2:
                    c0 = op_const(s_['rv']['ops'][0])
                    p1 = op_place(s_['rv']['ops'][1])
                    if c0 is not None and c0.get('val') == 0 and p1 is not None and ('field', 'mirrors') in Deps(W).of_operand(s_['rv']['ops'][1]):
                        extra = 0
            tt = W.blocks[bi]['term']
            if tt['k'] == 'call' and not tt['dest']['p'] and tt['dest']['l'] == ap['l'] and \
                    (tt.get('callee') or '').endswith('RangeInclusive::new') and len(tt['args']) == 2:
                c0 = op_const(tt['args'][0])
                if c0 is not None and c0.get('val') == 0 and ('field', 'mirrors') in Deps(W).of_operand(tt['args'][1]):
                    extra = 1
    if extra is None:
        rep.counts['R10.7.undecided'] = 1  # the loop is not a `for i in 0..n` / `0..=n` over self.mirrors: R10.3 alone judges it
        rep.oblige('R10.7', DS_WRITE + '|loop-form', ok=True, sample={'fn': DS_WRITE, 'note': 'loop form not recognised; count not decided'})
        return
    n = 0
    fmt = lambda c: ('fats%+d' % c[1] if c[1] else 'fats') if c[0] == 1 else ('%d*fats%+d' % c if c[0] else '%d' % c[1])
    gsites = ctx.cache.get('r10_sites') or []
    judged = set()
    work = []
    for G in gsites:
        fn, sw = G['fn'], G['sw']
        tt = fn.blocks[sw]['term']
        judged.add((fn.name, G['blk']))
        work.append((fn, G['blk'], G['mirrors'], G['span'], 'mirroring', arm_blocks(fn, sw, nonzero_targets(tt)), (1, 0)))
        work.append((fn, G['blk'], G['mirrors'], G['span'], 'single', arm_blocks(fn, sw, zero_targets(tt)), (0, 1)))
    geo_structs = {G['struct'][0] for G in gsites if G['struct'] is not None}
    for fn in facts.fns.values():
        if fn.crate != 'fatfs':
            continue
        for b, t in fn.calls():
            if not (t.get('callee') or '').endswith(DS_CTORS) or len(t['args']) < 3 or (fn.name, b) in judged:
                continue
            if any(_field_read_of(fn, t['args'][2], adt) for adt in geo_structs):
                continue  # copies come from the stored geometry: judged where that struct is built
            if fn.name.endswith(DS_CTORS):
                continue  # one constructor forwarding to the other
            work.append((fn, b, t['args'][2], t['span'], 'any', set(fn.reachable()), (0, 1)))  # e.g. the fixed root directory
    for fn, b, mop, span, arm, blocks, want in work:
        v = _affine(fn, blocks, mop)
        if v is None:
            rep.oblige('R10.7', '%s|bb%d|%s' % (fn.name, b, arm), ok=True, sample={'fn': fn.name, 'arm': arm, 'copies': 'not an affine function of bpb.fats'})
            continue
        copies = (v[0], v[1] + extra)
        ok = copies == want
        n += 1
        rep.oblige('R10.7', '%s|bb%d|%s' % (fn.name, b, arm), ok=ok, nontrivial=True,
                   sample={'fn': fn.name, 'arm': arm, 'copies_written': fmt(copies), 'wanted': fmt(want)})
        if not ok:
            rep.violation('R10.7', vkey('R10.7', fn.name, 'copies', arm), fn.loc(span),
                          '%s (%s): the slice is constructed with mirrors = %s and the write loop of DiskSlice runs %s '
                          'times, so %s copies are written where the format wants %s' %
                          (fn.name, arm, fmt(v), 'mirrors + 1' if extra else 'mirrors', fmt(copies), fmt(want)))
    rep.counts['R10.7.sites'] = n


# ---------------------------------------------------------------------------------------------
# R10.8  every view of the table region is built where the mirroring flag and the active-FAT number are looked at: a slice
#        whose start is "right after the reserved sectors" but that was not positioned by a geometry site reads (or writes)
#        table #0 even when another copy is the active one

def run_table_views(ctx, rep):
    facts = ctx.facts
    gsites = ctx.cache.get('r10_sites') or []
    gfns = {G['fn'].name for G in gsites}
    geo_structs = {G['struct'][0] for G in gsites if G['struct'] is not None}
    n = 0
    for fn in facts.fns.values():
        if fn.crate != 'fatfs' or fn.name in gfns or fn.name.endswith(DS_CTORS) or fn.name == 'fatfs::fs::format_volume':
            continue
        d = None
        for b, t in fn.calls():
            if not (t.get('callee') or '').endswith(DS_CTORS) or len(t['args']) < 3:
                continue
            if any(_field_read_of(fn, t['args'][0], adt) for adt in geo_structs):
                continue
            if d is None:
                d = Deps(fn, expand_fields=True)
            # data dependence of the start, not followed through `self` / parameters (everything hangs off them)
            toks, seen_l, work = set(), set(), []
            p0 = op_place(t['args'][0])
            if p0 is not None:
                work.append(p0['l'])
                toks |= d._tokens_of_place(p0)
            while work:
                x = work.pop()
                if x in seen_l or 1 <= x <= fn.argc:
                    continue
                seen_l.add(x)
                for tk in d.direct.get(x, ()):
                    toks.add(tk)
                    if tk[0] == 'local':
                        work.append(tk[1])
            calls = {tk[1].rsplit('::', 1)[-1] for tk in toks if tk[0] == 'call'}
            fields = {tk[1] for tk in toks if tk[0] == 'field'}
            table_view = 'reserved_sectors' in calls and not ({'first_data_sector', 'root_dir_sectors'} & (calls | fields))
            if not table_view:
                continue
            n += 1
            rep.oblige('R10.8', '%s|bb%d' % (fn.name, b), ok=False, nontrivial=True, sample={'fn': fn.name, 'at': fn.loc(t['span'])})
            rep.violation('R10.8', vkey('R10.8', fn.name, 'table-view', ''), fn.loc(t['span']),
                          '%s builds a view of the allocation table that starts right after the reserved sectors without looking at the '
                          'mirroring flag / active-FAT number (`%s`): on a volume whose active table is not the first one it reads '
                          'a stale copy' % (fn.name, t['span']['snip'][:70]))
    rep.oblige('R10.8.scan', 'fatfs', ok=True)
    rep.counts['R10.8.sites'] = n


_run_r10 = run


def run(ctx, rep):
    _run_r10(ctx, rep)
    run_raw_writers(ctx, rep)
    run_copies(ctx, rep)
    run_table_views(ctx, rep)


# ---------------------------------------------------------------------------------------------
# R10.6b  the table is written entry by entry through `set_raw` (reached from `set`, which merges what must be kept): no other
#         function of the table module writes to the table stream (a bulk `write_zeros` over a run of entries drops the reserved
#         nibble of every FAT32 entry in the run)

def run_table_stream_writers(ctx, rep):
    facts = ctx.facts
    n = 0
    WR = ('write_u8', 'write_u16_le', 'write_u32_le', 'write_all', 'write', 'write_zeros')
    for fn in facts.fns.values():
        if fn.crate != 'fatfs' or fn.file() != 'src/table.rs':
            continue
        base = fn.name.split('::{closure')[0]
        allowed = base.endswith('::set_raw') or base == 'fatfs::table::format_fat'
        for b, t in fn.calls():
            short = (t.get('callee') or '').rsplit('::', 1)[-1]
            if short not in WR or not ((t.get('callee') or '').startswith(('fatfs::io::', '<T as fatfs::io::', 'fatfs::fs::')) or short == 'write_zeros'):
                continue
            n += 1
            rep.oblige('R10.6b', '%s|bb%d' % (fn.name, b), ok=allowed, nontrivial=True, sample={'fn': fn.name, 'at': fn.loc(t['span'])})
            if not allowed:
                rep.violation('R10.6', vkey('R10.6', fn.name, 'stream-writer', short), fn.loc(t['span']),
                              '%s writes to the table stream directly (`%s`) instead of storing entries through `set`: whatever `set` '
                              'keeps of the old word (the reserved top nibble of a FAT32 entry, the neighbour nibble of a FAT12 one) is '
                              'overwritten' % (fn.name, t['span']['snip'][:70]))
    rep.counts['R10.6b.sites'] = n


_run_r10b = run


def run(ctx, rep):
    _run_r10b(ctx, rep)
    run_table_stream_writers(ctx, rep)
