"""A10 codec sequence extraction: the ordered (offset, width, field) list an encoder writes / a decoder reads,
per layout variant (FAT32 / not FAT32), computed from the MIR: primitive I/O calls in control-flow order on the
Ok path, widths from the primitive or the buffer's statically known length, loops over fixed arrays multiplied
out, nested codecs spliced in, fields attributed by data dependence."""
from analyses import Deps, error_blocks, label_results, nonzero_targets, switch_source, zero_targets
from intervals import Analysis
from model import op_const, op_place, place_key

WIDTH = {'write_u8': 1, 'write_u16_le': 2, 'write_u32_le': 4, 'read_u8': 1, 'read_u16_le': 2, 'read_u32_le': 4}


def rpo(fn, allowed):
    seen, order = set(), []

    def dfs(b):
        stack = [(b, iter(fn.succ(b)))]
        seen.add(b)
        while stack:
            x, it = stack[-1]
            adv = False
            for s in it:
                if s in allowed and s not in seen:
                    seen.add(s)
                    stack.append((s, iter(fn.succ(s))))
                    adv = True
                    break
            if not adv:
                order.append(x)
                stack.pop()
    if 0 in allowed:
        dfs(0)
    return order[::-1]


def variant_switch(fn):
    """the SwitchInt that tests is_fat32(): (block, true targets, false targets) or None"""
    d = Deps(fn)
    for bi in sorted(fn.reachable()):
        t = fn.blocks[bi]['term']
        if t['k'] == 'switch':
            toks = d.of_operand(t['discr'])
            if any(tk[0] == 'call' and tk[1].endswith('::is_fat32') for tk in toks):
                return bi, nonzero_targets(t), zero_targets(t)
    return None


def ok_blocks(fn, extra_cut_edges=()):
    """blocks on Ok paths: error blocks and the Err edges of `?` are cut"""
    cut = set(extra_cut_edges)
    for cb, info in label_results(fn).items():
        if info['status'] == 'labelled':
            cut |= info['err']
    return fn.reach_from([0], cut_blocks=error_blocks(fn), cut_edges=cut)


def loop_array(fn, blk, deps, an):
    """(field name, element count) of the fixed array a loop containing blk iterates over, else None"""
    for h, body in fn.loops().items():
        if blk not in body:
            continue
        nxt_blocks = [x for x in body if (fn.blocks[x]['term'].get('callee') or '').endswith('Iterator::next')]
        for b, t in fn.calls():
            if (t.get('callee') or '').endswith(('IntoIterator::into_iter', '[T]::iter', '[T]::iter_mut')) and b not in body:
                # the iterator that drives this loop: its next() is called in the body on this iterator
                p = op_place(t['args'][0])
                if p is None:
                    continue
                if not any(('callsite', b) in deps.of_operand(fn.blocks[x]['term']['args'][0]) for x in nxt_blocks):
                    continue
                st, _ = an.state_before_term(b)
                ln = an.len_of_ref_operand(st, t['args'][0]) if st is not None else None
                root = an.root_of_ref(place_key(p))
                fields = [e[2] for e in root[1] if e[0] == 'f' and e[2] and not e[2].isdigit()][-1:]
                if not fields:
                    fields = [tk[1] for tk in deps.of_operand(t['args'][0]) if tk[0] == 'field']
                nxt = [x for x in body if (fn.blocks[x]['term'].get('callee') or '').endswith('Iterator::next')]
                if nxt and ln and ln[0] == ln[1] and fields:
                    return fields[-1] if len(fields) == 1 else sorted(fields, key=len)[-1], ln[0]
        return ('?', None)
    return None


def self_field_of_operand(fn, deps, o, skip=('wrt', 'rdr'), an=None):
    p = op_place(o)
    if p is not None:
        names = [e.get('n') for e in p['p'] if 'f' in e and e.get('n')]
        if names:
            return names[-1]
        if an is not None:
            root = an.root_of_ref(place_key(p))
            names = [e[2] for e in root[1] if e[0] == 'f' and e[2] and not e[2].isdigit()]
            if names:
                return names[-1]
    c = op_const(o)
    if c is not None and c.get('val') is not None:
        return 'const:0x%X' % c['val']
    toks = deps.of_operand(o)
    fields = sorted({tk[1] for tk in toks if tk[0] == 'field' and tk[1] not in ('0', '1')})
    if len(fields) == 1:
        return fields[0]
    if fields:
        return '|'.join(fields)
    cpaths = sorted({tk[1].rsplit('::', 1)[-1] for tk in toks if tk[0] == 'constpath'})
    if cpaths:
        return 'const:' + cpaths[0]
    consts = sorted({tk[1] for tk in toks if tk[0] == 'const'})
    if consts:
        return 'const:0x%X' % consts[-1]
    return '?'


def _variant_analysis(facts, fn, fat32):
    import intervals
    old = dict(intervals.ASSUME_CALLS)
    if fat32 is not None:
        intervals.ASSUME_CALLS['::is_fat32'] = (1, 1) if fat32 else (0, 0)
    try:
        return Analysis(facts, fn)
    finally:
        intervals.ASSUME_CALLS.clear()
        intervals.ASSUME_CALLS.update(old)


def all_variant_cuts(fn, fat32):
    """edges not taken under the given variant, over every switch that tests is_fat32() (the layout code may test it
    more than once, e.g. through a helper that returns a length)"""
    d = Deps(fn)
    cut = set()
    for bi in sorted(fn.reachable()):
        t = fn.blocks[bi]['term']
        if t['k'] != 'switch':
            continue
        src = switch_source(fn, bi)
        direct = src and src['kind'] == 'call' and (src.get('callee') or '').endswith('::is_fat32')
        if not direct:
            continue
        cut |= {(bi, x) for x in (zero_targets(t) if fat32 else nonzero_targets(t))}
    return cut


def bulk_primitive(facts, callee):
    """element width of a helper that moves a slice of integers one primitive at a time
    (`fn write_u16_le_slice(&mut self, src: &[u16]) { for n in src { self.write_u16_le(*n)?; } Ok(()) }`), else None.
    The helper's own body is what is judged: one loop over its slice parameter, one LE primitive per element, no other
    transfer."""
    short = callee.rsplit('::', 1)[-1]
    cands = [f for n, f in facts.fns.items() if f.crate == 'fatfs' and n.rsplit('::', 1)[-1] == short and
             (n == callee or (f.impl_trait and callee.startswith(f.impl_trait + '::')))]
    if len(cands) != 1:
        return None
    f = cands[0]
    if f.argc != 2:
        return None
    prims = [(b, t) for b, t in f.calls() if (t.get('callee') or '').rsplit('::', 1)[-1] in WIDTH]
    other_io = [(b, t) for b, t in f.calls() if (t.get('callee') or '').rsplit('::', 1)[-1] in
                ('write_all', 'write', 'read_exact', 'read', 'seek', 'serialize', 'deserialize')]
    loops = f.loops()
    if len(prims) != 1 or other_io or len(loops) != 1:
        return None
    pb, pt = prims[0]
    body = next(iter(loops.values()))
    if pb not in body:
        return None
    d = Deps(f)
    iters = [(b, t) for b, t in f.calls() if (t.get('callee') or '').endswith(('IntoIterator::into_iter', '[T]::iter', '[T]::iter_mut'))
             and b not in body]
    if len(iters) != 1 or ('param', 2) not in d.of_operand(iters[0][1]['args'][0]):
        return None
    pty = f.local_ty(2)
    for _ in range(2):
        if pty is not None and pty.get('k') in ('ref', 'ptr'):
            pty = f.types[pty['to']]
    if pty is None or pty.get('k') != 'slice':
        return None
    return WIDTH[(pt.get('callee') or '').rsplit('::', 1)[-1]]


def encoder_sequence(facts, fn, fat32=None, depth=0):
    """[(width, field)] written on the Ok path for the given variant"""
    deps = Deps(fn)
    an = _variant_analysis(facts, fn, fat32)
    cut = set()
    vs = variant_switch(fn)
    if vs is not None and fat32 is not None:
        sw, tt, ff = vs
        cut = {(sw, x) for x in (ff if fat32 else tt)} | all_variant_cuts(fn, fat32)
    allowed = ok_blocks(fn, cut)
    seq = []
    done_loops = set()
    for b in rpo(fn, allowed):
        t = fn.blocks[b]['term']
        if t['k'] != 'call':
            continue
        callee = t.get('callee') or ''
        short = callee.rsplit('::', 1)[-1]
        mult = 1
        field = None
        la = loop_array(fn, b, deps, an)
        if short in WIDTH and 'write' in short:
            w = WIDTH[short]
            field = self_field_of_operand(fn, deps, t['args'][1], an=an)
        elif short == 'write_all' and callee.endswith('io::Write::write_all'):
            st, _ = an.state_before_term(b)
            ln = an.len_of_ref_operand(st, t['args'][1]) if st is not None else None
            w = ln[0] if ln and ln[0] == ln[1] else None
            field = self_field_of_operand(fn, deps, t['args'][1], an=an)
        elif short == 'serialize' and callee in facts.fns and depth < 3:
            sub = encoder_sequence(facts, facts.fns[callee], fat32, depth + 1)
            seq += sub
            continue
        elif 'write' in short and len(t['args']) == 2 and bulk_primitive(facts, callee):
            ew = bulk_primitive(facts, callee)
            st, _ = an.state_before_term(b)
            ln = an.len_of_ref_operand(st, t['args'][1]) if st is not None else None
            w = ew * ln[0] if ln and ln[0] == ln[1] else None
            field = self_field_of_operand(fn, deps, t['args'][1], an=an)
        else:
            continue
        if la is not None:
            if la[1] is None:
                seq.append((None, field or '?'))
                continue
            mult = la[1]
            field = la[0]
        seq.append((w * mult if w is not None else None, field))
    return seq


def decoder_sequence(facts, fn, fat32=None, depth=0, struct_adt=None, variant_pred=None):
    """[(width, field)] read on the Ok path; field = the struct field the value ends up in"""
    deps = Deps(fn)
    an = _variant_analysis(facts, fn, fat32)
    cut = set()
    vs = variant_switch(fn)
    if vs is not None and fat32 is not None:
        sw, tt, ff = vs
        cut = {(sw, x) for x in (ff if fat32 else tt)} | all_variant_cuts(fn, fat32)
    if variant_pred is not None:
        cut |= variant_pred(fn)
    allowed = ok_blocks(fn, cut)
    seq = []
    for b in rpo(fn, allowed):
        t = fn.blocks[b]['term']
        if t['k'] != 'call':
            continue
        callee = t.get('callee') or ''
        short = callee.rsplit('::', 1)[-1]
        la = loop_array(fn, b, deps, an)
        if short in WIDTH and 'read' in short:
            w = WIDTH[short]
            field = field_receiving(fn, deps, b, allowed)
        elif short == 'read_exact' and callee.endswith('io::Read::read_exact'):
            st, _ = an.state_before_term(b)
            ln = an.len_of_ref_operand(st, t['args'][1]) if st is not None else None
            w = ln[0] if ln and ln[0] == ln[1] else None
            p = op_place(t['args'][1])
            root = an.root_of_ref(place_key(p)) if p is not None else None
            field = None
            if root is not None and not [e for e in root[1] if e[0] == 'f']:
                # a local buffer: which struct field does it end up in?
                field = field_receiving_local(fn, deps, root[0], allowed)
                if field is None:
                    field = 'local:' + (fn.locals[root[0]].get('name') or '?')
            if field is None:
                field = self_field_of_operand(fn, deps, t['args'][1], an=an)
        elif short == 'deserialize' and callee in facts.fns and depth < 3:
            seq += decoder_sequence(facts, facts.fns[callee], fat32, depth + 1)
            continue
        elif 'read' in short and len(t['args']) == 2 and bulk_primitive(facts, callee):
            ew = bulk_primitive(facts, callee)
            st, _ = an.state_before_term(b)
            ln = an.len_of_ref_operand(st, t['args'][1]) if st is not None else None
            w = ew * ln[0] if ln and ln[0] == ln[1] else None
            field = self_field_of_operand(fn, deps, t['args'][1], an=an)
        else:
            continue
        mult = 1
        if la is not None:
            if la[1] is None:
                seq.append((None, field or '?'))
                continue
            mult = la[1]
            field = la[0]
        seq.append((w * mult if w is not None else None, field))
    return seq


def field_receiving(fn, deps, call_blk, allowed):
    """struct field that receives the value produced by the call at call_blk"""
    best = None
    for bi in sorted(allowed):
        for s in fn.blocks[bi]['stmts']:
            if s['k'] != 'assign':
                continue
            rv = s['rv']
            if rv['k'] == 'agg' and rv.get('ak') == 'adt' and rv.get('fields') and rv['adt'].startswith('fatfs::'):
                for i, o in enumerate(rv['ops']):
                    if ('callsite', call_blk) in deps.of_operand(o) and i < len(rv['fields']):
                        # the most direct use wins (fewest call sites in its dependence)
                        n = len([tk for tk in deps.of_operand(o) if tk[0] == 'callsite'])
                        if best is None or n < best[0]:
                            best = (n, rv['fields'][i])
            elif s['lhs']['p'] and 'f' in s['lhs']['p'][-1] and s['lhs']['p'][-1].get('n'):
                toks = set()
                from model import operands_of_rvalue
                for o in operands_of_rvalue(rv):
                    toks |= deps.of_operand(o)
                if ('callsite', call_blk) in toks:
                    n = len([tk for tk in toks if tk[0] == 'callsite'])
                    if best is None or n < best[0]:
                        best = (n, s['lhs']['p'][-1]['n'])
    return best[1] if best else '?'


def field_receiving_local(fn, deps, local, allowed):
    for bi in sorted(allowed):
        for s in fn.blocks[bi]['stmts']:
            if s['k'] == 'assign' and s['rv']['k'] == 'agg' and s['rv'].get('ak') == 'adt' and s['rv'].get('fields') and \
                    s['rv']['adt'].startswith('fatfs::'):
                for i, o in enumerate(s['rv']['ops']):
                    p = op_place(o)
                    if p is not None and p['l'] == local and i < len(s['rv']['fields']):
                        return s['rv']['fields'][i]
                    if p is not None and not p['p']:
                        # moved through temps / parameters of an inlined helper (plain copies only)
                        if local in _copy_chain(fn, p['l']) and i < len(s['rv']['fields']):
                            return s['rv']['fields'][i]
            if s['k'] == 'assign' and s['lhs']['p'] and 'f' in s['lhs']['p'][-1] and s['lhs']['p'][-1].get('n') and \
                    s['rv']['k'] == 'use':
                p = op_place(s['rv']['a'])
                if p is not None and not p['p'] and local in _copy_chain(fn, p['l']):
                    return s['lhs']['p'][-1]['n']
    return None


def _copy_chain(fn, local):
    out = {local}
    cur = local
    for _ in range(12):
        defs = [s for bi in fn.reachable() for s in fn.blocks[bi]['stmts']
                if s['k'] == 'assign' and s['lhs']['l'] == cur and not s['lhs']['p']]
        if len(defs) != 1 or defs[0]['rv']['k'] != 'use':
            break
        p = op_place(defs[0]['rv']['a'])
        if p is None or p['p']:
            break
        cur = p['l']
        out.add(cur)
    return out


def with_offsets(seq):
    out = []
    off = 0
    for w, f in seq:
        out.append((off if off is not None else None, w, f))
        off = off + w if (off is not None and w is not None) else None
    return out, off


def arm_cut_for_variant(fn, adt, want_variant):
    """edges to cut so that only the arm constructing `adt::want_variant` remains (for decoders that branch on a tag)"""
    prod = {}
    for bi in fn.reachable():
        for s in fn.blocks[bi]['stmts']:
            if s['k'] == 'assign' and s['rv']['k'] == 'agg' and s['rv'].get('adt') == adt:
                prod.setdefault(s['rv']['variant'], set()).add(bi)
        # the variant constructor handed to a combinator: `decode_x(..).map(Enum::Variant)`
        t = fn.blocks[bi]['term']
        if t['k'] == 'call':
            for a in t['args']:
                c = op_const(a)
                if c is not None and (c.get('fn') or '').startswith(adt + '::'):
                    vname = c['fn'][len(adt) + 2:].split('::')[0]
                    prod.setdefault(vname, set()).add(bi)
    others = set()
    for v, bs in prod.items():
        if v != want_variant:
            others |= bs
    want = prod.get(want_variant, set())
    cut = set()
    for bi in fn.reachable():
        t = fn.blocks[bi]['term']
        if t['k'] != 'switch':
            continue
        succs = fn.succ(bi)
        for s2 in succs:
            r = fn.reach_from([s2])
            if (r & others) and not (r & want):
                # this arm can only produce the other variant; keep it only if every arm is like that
                if any((fn.reach_from([s3]) & want) for s3 in succs if s3 != s2):
                    cut.add((bi, s2))
    return cut
