"""Struct invariants proved by induction over every function that writes the struct's fields (A13).

DiskSlice (the bounded sub-stream under every FAT and the fixed root directory):
    INV1  offset <= size
    INV2  begin, size (and with INV1 offset) are byte counts of sector ranges: below 2^48
Base: every aggregate construction of the struct establishes it. Step: every store to `offset` in a method keeps it,
assuming it on entry: the stored value is compared with `size` on the only path to the store, or it is
`offset + n` with `n <= size - offset` (through `min`). No function outside the struct's own impls writes the fields.
When the proof goes through, the invariant is handed to the interval analysis of every panic inventory (field ranges
plus the relational fact `offset <= size` seeded at function entry), which then discharges `size - offset`,
`begin + offset`, `offset + write_size`, `i * size` ... without a table entry."""
from analyses import Deps, edge_dominates, switch_source, nonzero_targets, zero_targets
from intervals import Analysis, FnCtx
from model import op_const, op_place, place_key

DS = 'fatfs::fs::DiskSlice'
BOUND = (1 << 48) - 1


def _field_of(p):
    names = [e.get('n') for e in p['p'] if 'f' in e and e.get('n') is not None]
    return names[-1] if names else None


def _owner_is(fn, p, adt):
    from analyses import place_prefix_type
    if not p['p'] or 'f' not in p['p'][-1]:
        return False
    t = place_prefix_type(fn, p, len(p['p']) - 1)
    return bool(t) and t.get('k') == 'adt' and t.get('path') == adt


def _defs(fn):
    defs, multi = {}, set()
    for bi in fn.reachable():
        for s in fn.blocks[bi]['stmts']:
            if s['k'] == 'assign' and not s['lhs']['p']:
                l = s['lhs']['l']
                if l in defs:
                    multi.add(l)
                defs[l] = ('stmt', s['rv'], bi)
        t = fn.blocks[bi]['term']
        if t['k'] == 'call' and not t['dest']['p']:
            l = t['dest']['l']
            if l in defs:
                multi.add(l)
            defs[l] = ('call', t, bi)
    for l in multi:
        defs.pop(l, None)
    return defs


def _reads_field(fn, defs, o, field, depth=0):
    """is the operand (a copy chain from) `self.<field>` of the DiskSlice?"""
    p = op_place(o)
    if p is None or depth > 6:
        return False
    if p['p']:
        return _field_of(p) == field and _owner_is(fn, p, DS)
    d = defs.get(p['l'])
    if d and d[0] == 'stmt' and d[1]['k'] in ('use', ):
        return _reads_field(fn, defs, d[1]['a'], field, depth + 1)
    return False


def _bounded_by_room(fn, defs, o, depth=0):
    """is the operand provably <= size - offset: (a cast chain from) min(_, size - offset)?"""
    p = op_place(o)
    if p is None or depth > 10 or p['p'] and not (len(p['p']) == 1 and p['p'][0].get('f') == 0):
        return False
    d = defs.get(p['l'])
    if d is None:
        return False
    if d[0] == 'stmt':
        rv = d[1]
        if rv['k'] in ('use', 'cast'):
            return _bounded_by_room(fn, defs, rv['a'], depth + 1)
        if rv['k'] == 'binop' and rv['op'].startswith('Sub'):
            return _reads_field(fn, defs, rv['a'], 'size') and _reads_field(fn, defs, rv['b'], 'offset')
        return False
    t = d[1]
    callee = t.get('callee') or ''
    if callee.rsplit('::', 1)[-1] == 'min' and len(t['args']) == 2:
        return any(_bounded_by_room(fn, defs, a, depth + 1) for a in t['args'])
    if callee.rsplit('::', 1)[-1] in ('saturating_sub', 'wrapping_sub', 'checked_sub') and len(t['args']) == 2 and \
            callee.rsplit('::', 1)[-1] == 'saturating_sub':
        # size.saturating_sub(offset): equal to size - offset under the invariant, 0 otherwise - never more than the room
        return _reads_field(fn, defs, t['args'][0], 'size') and _reads_field(fn, defs, t['args'][1], 'offset')
    return False


def prove_diskslice(facts, extra_fields=None):
    """(proved, field ranges, detail lines)"""
    detail = []
    writers = {}
    ctors = []
    for fn in facts.fns.values():
        if not fn.crate.startswith('fatfs'):
            continue
        for bi in fn.reachable():
            for s in fn.blocks[bi]['stmts']:
                if s['k'] != 'assign':
                    continue
                if s['lhs']['p'] and _field_of(s['lhs']) in ('offset', 'size', 'begin', 'mirrors') and _owner_is(fn, s['lhs'], DS):
                    writers.setdefault(fn.name, []).append((bi, s))
                if s['rv']['k'] == 'agg' and s['rv'].get('ak') == 'adt' and s['rv'].get('adt') == DS:
                    ctors.append((fn, bi, s))
    ok = bool(ctors)
    # base: constructions
    ranges = {}
    for fn, bi, s in ctors:
        fl = dict(zip(s['rv']['fields'], s['rv']['ops']))
        defs = _defs(fn)
        off = fl.get('offset')
        c = op_const(off) if off is not None else None
        if c is not None and c.get('val') == 0:
            detail.append('%s: constructed with offset 0' % fn.name)
        elif off is not None and _reads_field(fn, defs, off, 'offset') and _reads_field(fn, defs, fl.get('size'), 'size'):
            detail.append('%s: offset and size copied together from another slice' % fn.name)
        else:
            ok = False
            detail.append('%s: constructed with an offset that is neither 0 nor a copy made together with its size' % fn.name)
    # ranges of begin / size: arguments of the constructor function at its call sites
    NEW = facts.fns.get(DS + '::new')
    hull = {}
    if NEW is not None:
        pnames = {NEW.locals[i].get('name'): i for i in range(1, NEW.argc + 1)}
        from rules.c17 import validated_bpb_fields
        base = validated_bpb_fields(facts, with_struct_invariants=False)
        base.update(extra_fields or {})  # store-hull invariants of other private fields (a geometry cached in a struct)
        for caller in facts.fns.values():
            if not caller.crate.startswith('fatfs'):
                continue
            sites = [(b, t) for b, t in caller.calls() if (t.get('callee') or '') == NEW.name]
            if not sites:
                continue
            an = Analysis(facts, caller, FnCtx({}, dict(base), set()), {}, 0)
            for b, t in sites:
                st, _ = an.state_before_term(b)
                for nm in ('begin', 'size'):
                    i = pnames.get(nm)
                    if i is None or st is None:
                        ok = False
                        continue
                    iv = an.read_operand(st, t['args'][i - 1])
                    if iv is None:
                        iv = (0, (1 << 64) - 1)
                    hull[nm] = iv if nm not in hull else (min(hull[nm][0], iv[0]), max(hull[nm][1], iv[1]))
    for nm in ('begin', 'size'):
        if nm not in hull or hull[nm][1] > BOUND or hull[nm][0] < 0:
            ok = False
            detail.append('DiskSlice.%s is not provably below 2^48 at the call sites of DiskSlice::new (%s)' % (nm, hull.get(nm)))
        else:
            ranges[(DS, nm)] = (0, hull[nm][1])
    # step: every store to offset
    allowed_owner = lambda name: name.startswith(('<' + DS + ' as ', DS + '::'))
    for name, stores in sorted(writers.items()):
        fn = facts.fns[name]
        if not allowed_owner(name):
            ok = False
            detail.append('%s writes a field of DiskSlice from outside its impls' % name)
            continue
        defs = _defs(fn)
        d = Deps(fn)
        for bi, s in stores:
            f = _field_of(s['lhs'])
            if f != 'offset':
                ok = False
                detail.append('%s assigns DiskSlice.%s after construction' % (name, f))
                continue
            o = s['rv']['a'] if s['rv']['k'] in ('use', 'cast') else None
            good = False
            why = ''
            if o is not None:
                # (a) offset + n with n <= size - offset
                p = op_place(o)
                dd = defs.get(p['l']) if p is not None else None
                if dd and dd[0] == 'stmt' and dd[1]['k'] == 'binop' and dd[1]['op'].startswith('Add'):
                    a, b = dd[1]['a'], dd[1]['b']
                    for x, y in ((a, b), (b, a)):
                        if _reads_field(fn, defs, x, 'offset') and _bounded_by_room(fn, defs, y):
                            good, why = True, 'offset + n with n <= size - offset (min)'
                        elif _reads_field(fn, defs, x, 'offset'):
                            # n is what the inner read returned for a buffer clipped to the room: the Read contract
                            toks = d.of_operand(y)
                            reads = [b2 for b2, t2 in fn.calls() if (t2.get('callee') or '').endswith('io::Read::read')]
                            if any(('callsite', b2) in toks for b2 in reads):
                                ok_clip = False
                                for b2 in reads:
                                    t2 = fn.blocks[b2]['term']
                                    tk2 = d.of_operand(t2['args'][1]) if len(t2['args']) > 1 else set()
                                    if any(tk[0] == 'call' and tk[1].endswith('::min') for tk in tk2) and ('field', 'size') in tk2 and \
                                            ('field', 'offset') in tk2:
                                        ok_clip = True
                                if ok_clip:
                                    good, why = True, 'offset + count returned for a buffer clipped to size - offset (Read contract)'
                # (b) a value compared with size on the only way to the store
                if not good:
                    for b2 in fn.reachable():
                        t2 = fn.blocks[b2]['term']
                        if t2['k'] != 'switch':
                            continue
                        src = switch_source(fn, b2)
                        if not (src and src['kind'] == 'binop' and src['op'] in ('Gt', 'Le', 'Lt', 'Ge')):
                            continue
                        xs, ys = src['a'], src['b']
                        same = lambda u, v: op_place(u) is not None and op_place(v) is not None and (
                            d.of_operand(u) & d.of_operand(v) - {tk for tk in d.of_operand(v) if tk[0] in ('const', 'op')})
                        if _reads_field(fn, defs, ys, 'size') and same(xs, o) and src['op'] in ('Gt', 'Le'):
                            within = zero_targets(t2) if src['op'] == 'Gt' else nonzero_targets(t2)
                            if edge_dominates(fn, {(b2, x) for x in within}, bi):
                                good, why = True, 'stored only on the arm where it is <= size'
            if good:
                detail.append('%s: %s' % (name, why))
            else:
                ok = False
                detail.append('%s: a store to DiskSlice.offset (%s) is not shown to keep offset <= size' % (name, s['span']['snip'][:50]))
    if ok:
        ranges[(DS, 'offset')] = ranges[(DS, 'size')]
        ranges[('rel', 'le', DS, 'offset', 'size')] = (1, 1)
    return ok, ranges, detail


def run(ctx, rep):
    hull = {}
    try:
        from rules import fieldinv
        from rules.c17 import validated_bpb_fields
        hull, _d = fieldinv.infer(ctx.facts, validated_bpb_fields(ctx.facts, with_struct_invariants=False))
    except Exception:
        hull = {}
    ok, ranges, detail = prove_diskslice(ctx.facts, hull)
    rep.oblige('INV.DiskSlice', DS, ok=ok, nontrivial=True,
               sample={'struct': DS, 'invariant': 'offset <= size; begin, size < 2^48', 'proof': detail[:12]})
    if not ok:
        from core import vkey
        rep.violation('INV.DiskSlice', vkey('INV.DiskSlice', DS, 'offset-le-size', ''), 'src/fs.rs',
                      'the invariant of the bounded sub-stream (offset <= size, sizes below 2^48) is not preserved: ' +
                      '; '.join(x for x in detail if 'not ' in x or 'neither' in x or 'outside' in x)[:600])
