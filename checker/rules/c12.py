"""C12 - the dirty bit brackets structural changes; clean unmount restores it (DESIGN.md section 4, Q1-Q5).

Q1  every raw device-write site has a recognised role: in the FS adapter (flag set after a non-zero write),
    dominated by a successful set_dirty_flag(true), dominated by a successful FAT allocation (which writes the
    table through the adapter), or one of the three latch-guarded write-backs (status byte, FS-info, entry)
Q1c every write below a DiskSlice over the FS adapter goes through the adapter
Q2  unmount = FS-info flush, then set_dirty_flag(false); unmount() and Drop both run it
Q3  status-byte latch shape (shared with C13/O3): mount-time bits are only OR-ed, the byte written is the value
    compared, the cache is updated only after a successful write
Q4  the two status-byte offsets are the offsets of BPB.reserved_1 in the FAT12/16 and FAT32 layouts
Q5  read_status_flags reports the mount-time bits; mount drops the cached free count on a dirty volume
"""
from analyses import (Deps, Must, label_results, edge_dominates, nonzero_targets, switch_source, zero_targets, const_operand_value,
                      dev_leaf_kind, error_blocks)
from core import vkey
from model import op_const, op_place, place_key
from rules.c09 import borrow_sites
from rules.c13 import latch_guards, status_latch_problems

ADAPTER_WRITE = '<fatfs::fs::FsIoAdapter as fatfs::io::Write>::write'
TABLE_ALLOC = 'fatfs::table::alloc_cluster'
WRITE_FAT = 'fatfs::table::write_fat'
UNMOUNT_INTERNAL = 'fatfs::fs::FileSystem::unmount_internal'
FORMAT = 'fatfs::fs::format_volume'
SPEC_STATUS_OFFSETS = {'fat12_16': 0x25, 'fat32': 0x41}


def guard_live_region(fn, borrow_blk, t):
    g = place_key(t['dest'])
    drops = {bi for bi in fn.reachable()
             if fn.blocks[bi]['term']['k'] == 'drop' and place_key(fn.blocks[bi]['term']['place']) == g}
    live = set()
    st = [t['ret']]
    while st:
        x = st.pop()
        if x in live:
            continue
        live.add(x)
        if x in drops:
            continue
        if any(s['k'] == 'dead' and s['l'] == g[0] for s in fn.blocks[x]['stmts']):
            continue
        st.extend(fn.succ(x))
    return live, g


def raw_write_sites(facts, eff, fn):
    """calls made while a guard of the `disk` cell is alive, depending on that guard, that reach a device write"""
    out = []
    deps = None
    for b, t, kind, field in borrow_sites(fn):
        if field != 'disk':
            continue
        live, g = guard_live_region(fn, b, t)
        if deps is None:
            deps = Deps(fn)
        for x in sorted(live):
            tt = fn.blocks[x]['term']
            if tt['k'] != 'call':
                continue
            if not eff.fn_reaches_dev(fn.name, x, 'W'):
                continue
            toks = set()
            for a in tt['args']:
                toks |= deps.of_operand(a)
            if ('local', g[0]) in toks:
                out.append((x, tt))
    # de-duplicate
    seen = set()
    res = []
    for x, tt in out:
        if x not in seen:
            seen.add(x)
            res.append((x, tt))
    return res


def caller_latch_role(facts, fn, depth):
    """latch kind if EVERY call site of fn (in fatfs) is dominated by one latch guard kind in its caller"""
    if depth > 3:
        return None
    kinds = set()
    sites = 0
    for iid in facts.insts_of.get(fn.name, []):
        for a, bb, k in facts.in_edges[iid]:
            caller = facts.fn_of_inst(a)
            if caller is None:
                return None
            sites += 1
            got = None
            for kind, edges, sw in latch_guards(caller):
                if edge_dominates(caller, edges, bb):
                    got = 'latch:' + kind
            if got is None:
                got = caller_latch_role(facts, caller, depth + 1)
            if got is None:
                return None
            kinds.add(got)
    if sites and len(kinds) == 1:
        return kinds.pop()
    return None


def is_event_call(fn, t, writer_name):
    return t.get('callee') == writer_name and t['args'] and const_operand_value(t['args'][-1]) == 1


def run(ctx, rep):
    facts, eff = ctx.facts, ctx.effects
    fat = [f for f in facts.fns.values() if f.crate == 'fatfs']
    scope = fat + [f for f in facts.fns.values() if '::controls::' in f.name and '_q1_' in f.name]
    writers = [f for f in fat if any(g[0] == 'status' for g in latch_guards(f))]
    if len(writers) != 1:
        rep.machinery('ANCHOR status writer: found %d functions with a status-flags equality latch' % len(writers))
        return
    W = writers[0]
    for need in (ADAPTER_WRITE, TABLE_ALLOC, WRITE_FAT, UNMOUNT_INTERNAL):
        if need not in facts.fns:
            rep.machinery('ANCHOR-MISSING ' + need)
            return

    def event_must():
        return Must(facts, lambda f, b, t, names: is_event_call(f, t, W.name))

    # ---------------- Q1
    m_writefat = Must(facts, lambda f, b, t, names: WRITE_FAT in names)
    table_alloc_ok = m_writefat.passes(facts.fns[TABLE_ALLOC], set())[0]
    rep.oblige('Q1.tablealloc', TABLE_ALLOC, ok=table_alloc_ok, nontrivial=True)
    if not table_alloc_ok:
        rep.violation('Q1', vkey('Q1', TABLE_ALLOC, 'must-write-fat', ''), facts.fns[TABLE_ALLOC].loc(
            facts.fns[TABLE_ALLOC].span), 'table::alloc_cluster can return Ok without writing a FAT entry')
    n_sites = 0
    roles = {}
    for fn in scope:
        if fn.name == FORMAT:
            continue
        is_control = fn.crate != 'fatfs'
        sites = raw_write_sites(facts, eff, fn)
        if not sites:
            continue
        guards = latch_guards(fn)
        ev = event_must()
        ev_cut = ev.crossing_edges(fn, set())
        ta = Must(facts, lambda f, b, t, names: TABLE_ALLOC in names)
        ta_cut = ta.crossing_edges(fn, set())
        for x, tt in sites:
            n_sites += 1
            role = None
            if fn.name == ADAPTER_WRITE:
                role = 'adapter'
            elif ev_cut and x not in fn.reach_from([0], cut_edges=ev_cut):
                role = 'flagged'
            elif ta_cut and x not in fn.reach_from([0], cut_edges=ta_cut):
                role = 'after-fat-allocation'
            else:
                for kind, edges, sw in guards:
                    if edge_dominates(fn, edges, x):
                        role = 'latch:' + kind
                if role is None:
                    role = caller_latch_role(facts, fn, 0)
            ok = role is not None
            roles.setdefault(role, []).append(fn.name)
            rep.oblige('Q1', '%s|bb%d' % (fn.name, x), ok=ok, nontrivial=True,
                       sample={'fn': fn.name, 'at': fn.loc(tt['span']), 'write': tt['span']['snip'][:70], 'role': role})
            if not ok:
                rep.violation('Q1', vkey('Q1', fn.name, tt.get('callee') or '?', tt['span']['snip']),
                              fn.loc(tt['span']),
                              'device write in %s is neither preceded by a successful set_dirty_flag(true) / FAT '
                              'allocation nor one of the latch-guarded write-backs: a structural change could reach the '
                              'disk while the volume is still marked clean' % fn.name, control=is_control)
    rep.notes.append('write-site roles: %s' % {k: sorted(set(v)) for k, v in roles.items()})
    for need in ('adapter', 'flagged', 'after-fat-allocation', 'latch:status', 'latch:fsinfo', 'latch:entry'):
        if need not in roles:
            rep.machinery('FLOOR no device-write site with role `%s` found (confirmed on the pinned tree)' % need)

    # Q1.a the adapter: Ok exits with a non-zero count cross set_dirty_flag(true)
    A = facts.fns[ADAPTER_WRITE]
    ev = event_must()
    cut = set(ev.crossing_edges(A, set()))
    deps = Deps(A)
    wsites = [b for b, t in A.calls() if eff.fn_reaches_dev(A.name, b, 'W') and t.get('callee') != W.name]
    zero_edges = set()
    for bi in A.reachable():
        t = A.blocks[bi]['term']
        if t['k'] != 'switch':
            continue
        src = switch_source(A, bi)
        if src and src['kind'] == 'binop' and src['op'] in ('Gt', 'Ne', 'Eq', 'Lt'):
            toks = deps.of_operand(src['a']) | deps.of_operand(src['b'])
            if any(('callsite', w) in toks for w in wsites) and ('const', 0) in toks:
                # the arm on which the count is zero
                if src['op'] in ('Gt', 'Ne'):
                    zero_edges |= {(bi, x) for x in zero_targets(t)}
                elif src['op'] == 'Eq':
                    zero_edges |= {(bi, x) for x in nonzero_targets(t)}
    reach = A.reach_from([0], cut_blocks=error_blocks(A), cut_edges=cut | zero_edges)
    bad = [r for r in A.return_blocks() if r in reach]
    rep.oblige('Q1.adapter', ADAPTER_WRITE, ok=not bad and bool(cut), nontrivial=True,
               sample={'fn': ADAPTER_WRITE, 'event_edges': sorted(cut), 'count_is_zero_edges': sorted(zero_edges)})
    if bad or not cut:
        rep.violation('Q1', vkey('Q1', ADAPTER_WRITE, 'flag-after-write', ''), A.loc(A.span),
                      'the FS adapter can report a non-zero write without set_dirty_flag(true) having succeeded')
    # the adapter must not override write_all (it would bypass the flag)
    over = [f.name for f in fat if f.impl_trait == 'fatfs::io::Write' and f.self_ty and 'FsIoAdapter' in f.self_ty and
            f.name.endswith('::write_all')]
    rep.oblige('Q1.adapter-write_all', ADAPTER_WRITE, ok=not over)
    if over:
        rep.violation('Q1', vkey('Q1', over[0], 'write_all-override', ''), facts.fns[over[0]].loc(facts.fns[over[0]].span),
                      'the FS adapter overrides write_all: table writes can bypass the dirty flag')

    # Q1.c below a DiskSlice over the adapter every device write goes through the adapter
    adapters = {i['id'] for i in facts.instances if i['fn'] == ADAPTER_WRITE}
    n_ds = 0
    for i in facts.instances:
        if i['fn'] == '<fatfs::fs::DiskSlice as fatfs::io::Write>::write' and 'FsIoAdapter' in i['args']:
            n_ds += 1
            reach = facts.reach_from_insts([i['id']], stop=lambda x: x in adapters)
            leak = [x for x in reach if dev_leaf_kind(facts.instances[x]['fn']) == 'W']
            rep.oblige('Q1.c', 'DiskSlice::write#%d' % i['id'], ok=not leak, nontrivial=True)
            if leak:
                rep.violation('Q1', vkey('Q1', i['fn'], 'bypass-adapter', ''), 'src/fs.rs',
                              'a table / fixed-root write can reach the device without passing the FS adapter')
    if n_ds == 0 and ctx.config != 'controls-only':
        rep.machinery('FLOOR no DiskSlice<FsIoAdapter>::write instance in the call graph')

    # ---------------- Q2 clean unmount
    U = facts.fns[UNMOUNT_INTERNAL]
    fsinfo_fns = {f.name for f in fat if any(g[0] == 'fsinfo' for g in latch_guards(f))}
    m_fs = Must(facts, lambda f, b, t, names: bool(names & fsinfo_fns))
    cut_fs = m_fs.crossing_edges(U, set())
    ok_fs = m_fs.passes(U, set())[0]
    clear_calls = [b for b, t in U.calls() if t.get('callee') == W.name and const_operand_value(t['args'][-1]) == 0]
    m_clear = Must(facts, lambda f, b, t, names: t.get('callee') == W.name and const_operand_value(t['args'][-1]) == 0)
    ok_clear = m_clear.passes(U, set())[0]
    ordered = all(b not in U.reach_from([0], cut_edges=cut_fs) for b in clear_calls) and bool(clear_calls)
    # ... and by its *Ok* edge: a failed flush must not be followed by restoring the status byte
    lab_u = label_results(U)
    for fb, ft in U.calls():
        nm = set()
        for iid_ in facts.insts_of.get(U.name, []):
            nm |= {facts.instances[c]['fn'] for c, k_ in facts.edge_at.get((iid_, fb), ())}
        if nm & fsinfo_fns or (ft.get('callee') in fsinfo_fns):
            info = lab_u.get(fb)
            if info is None or info['status'] != 'labelled' or not all(edge_dominates(U, info['ok'], cb) for cb in clear_calls):
                ordered = False
    rep.oblige('Q2', UNMOUNT_INTERNAL, ok=ok_fs and ok_clear and ordered, nontrivial=True,
               sample={'fn': UNMOUNT_INTERNAL, 'fsinfo_flush_must': ok_fs, 'clear_flag_must': ok_clear,
                       'flush_before_clear': ordered})
    if not (ok_fs and ok_clear and ordered):
        rep.violation('Q2', vkey('Q2', UNMOUNT_INTERNAL, 'flush-then-clear', ''), U.loc(U.span),
                      'unmount does not (on every Ok path) flush the FS-information sector and then restore the status '
                      'byte with set_dirty_flag(false)')
    for name in ('fatfs::fs::FileSystem::unmount', '<fatfs::fs::FileSystem as core::ops::drop::Drop>::drop'):
        fn = facts.fns.get(name)
        if fn is None:
            rep.machinery('ANCHOR-MISSING ' + name)
            continue
        blocks = [b for b, t in fn.calls() if t.get('callee') == UNMOUNT_INTERNAL]
        reach = fn.reach_from([0], cut_blocks=blocks)
        ok = bool(blocks) and not [r for r in fn.return_blocks() if r in reach]
        rep.oblige('Q2.callers', name, ok=ok, nontrivial=True)
        if not ok:
            rep.violation('Q2', vkey('Q2', name, 'calls-unmount', ''), fn.loc(fn.span),
                          '%s has a path that does not run the unmount sequence' % name)
    # the FS-info write-back is only driven from the unmount sequence
    for fname in fsinfo_fns:
        callers = {facts.instances[a]['fn'] for iid in facts.insts_of.get(fname, []) for a, bb, k in facts.in_edges[iid]}
        ok = callers <= {UNMOUNT_INTERNAL}
        rep.oblige('Q2.fsinfo-callers', fname, ok=ok)
        if not ok:
            rep.violation('Q2', vkey('Q2', fname, 'callers', ''), facts.fns[fname].loc(facts.fns[fname].span),
                          'the FS-information write-back is also called from %s (outside the unmount sequence it would '
                          'write while the volume is marked clean)' % sorted(callers - {UNMOUNT_INTERNAL}))

    # ---------------- Q3 status latch shape
    probs = status_latch_problems(facts, eff, W)
    rep.oblige('Q3', W.name, ok=not probs, nontrivial=True, sample={'fn': W.name, 'problems': probs})
    for pr in probs:
        rep.violation('Q3', vkey('Q3', W.name, pr.split(' at ')[0], ''), W.loc(W.span),
                      'status byte handling in %s: %s (the on-disk dirty bit can disagree with what the session '
                      'believes, or mount-time status bits can be lost)' % (W.name, pr))

    # ---------------- Q7 the only silent way out of the status writer is "the byte already has that value"
    sguards = [g for g in latch_guards(W) if g[0] == 'status']
    if sguards:
        kind_, differ_edges, sw_ = sguards[0]
        equal_edges = {(sw_, x) for x in W.succ(sw_)} - set(differ_edges)
        # ... or another test of the cached status (`if dirty && current.dirty { return Ok(()) }`): the exit is still decided
        # by what the session knows to be on the disk, not by something else (an option, a counter)
        from rules.c13 import STATUS_CELL, CACHE_READS
        dW = Deps(W)
        for bi_ in W.reachable():
            tt_ = W.blocks[bi_]['term']
            if tt_['k'] != 'switch' or bi_ == sw_:
                continue
            toks_ = dW.of_operand(tt_['discr'])
            if ('field', STATUS_CELL) in toks_ and any(('call', c) in toks_ for c in CACHE_READS):
                equal_edges |= {(bi_, x) for x in W.succ(bi_)}
        writes_ = {b2 for b2, tt in W.calls() if eff.fn_reaches_dev(W.name, b2, 'W')}
        reach_ = W.reach_from([0], cut_blocks=set(error_blocks(W)) | writes_, cut_edges=equal_edges)
        rets = [bi for bi in reach_ if W.blocks[bi]['term']['k'] == 'return']
        ok7 = not rets and bool(writes_)
        rep.oblige('Q7', W.name, ok=ok7, nontrivial=True, sample={'fn': W.name, 'device_writes': len(writes_)})
        if not ok7:
            rep.violation('Q7', vkey('Q7', W.name, 'silent-exit', ''), W.loc(W.span),
                          '%s can return Ok without writing the status byte on a path other than "the byte already has the wanted '
                          'value": a structural change is then not bracketed by the dirty bit on the disk' % W.name)

    # ---------------- Q4 offsets
    consts = set()
    seek_calls = [(b, t) for b, t in W.calls() if (t.get('callee') or '').endswith('io::Seek::seek')]
    depsW = Deps(W)
    for b, t in seek_calls:
        for tk in depsW.of_operand(t['args'][1]):
            if tk[0] == 'const' and tk[1] > 1:
                consts.add(tk[1])
    # which constant is selected on the FAT32 arm
    sel = {}
    for bi in W.reachable():
        t = W.blocks[bi]['term']
        if t['k'] != 'switch':
            continue
        src = switch_source(W, bi)
        if src and src['kind'] == 'call' and (src['callee'] or '').endswith(('PartialEq::eq', 'PartialEq::ne')):
            ga = src['term'].get('gargs') or []
            if ga and W.ty(ga[0]).get('path') == 'fatfs::fs::FatType':
                is_eq = src['callee'].endswith('::eq')
                for arm, tgts in (('eq', nonzero_targets(t) if is_eq else zero_targets(t)),
                                  ('ne', zero_targets(t) if is_eq else nonzero_targets(t))):
                    for tg in tgts:
                        for s in W.blocks[tg]['stmts']:
                            if s['k'] == 'assign' and s['rv']['k'] == 'use':
                                v = const_operand_value(s['rv']['a'])
                                if v is not None and v > 1:
                                    sel[arm] = v
    layout = ctx.cache.get('bpb_reserved_1_offsets')
    if layout is None:
        # offsets of BPB.reserved_1 in the two boot-sector layouts, from the encoder's extracted field sequence (A10)
        from rules import codec
        E = facts.fns.get('fatfs::boot_sector::BootSector::serialize')
        if E is not None:
            offs = {}
            for fat32 in (False, True):
                rows, total = codec.with_offsets(codec.encoder_sequence(facts, E, fat32))
                for o, w2, f in rows:
                    if f == 'reserved_1':
                        offs['fat32' if fat32 else 'fat12_16'] = o
            if len(offs) == 2:
                layout = offs
    want = layout or SPEC_STATUS_OFFSETS
    ok = consts == {want['fat12_16'], want['fat32']} and (not sel or (
        set(sel.values()) == consts and len(sel) == 2))
    rep.oblige('Q4', W.name, ok=ok, nontrivial=True,
               sample={'fn': W.name, 'seek_constants': sorted(consts), 'expected': want, 'selected_by_fat_type': sel})
    if not ok:
        rep.violation('Q4', vkey('Q4', W.name, 'offsets', ''), W.loc(W.span),
                      'status byte offsets %s do not match the position of BPB.reserved_1 in the two boot-sector '
                      'layouts %s' % (sorted(consts), want))

    # ---------------- Q5 dirty is reported
    R = facts.fns.get('fatfs::fs::FileSystem::read_status_flags')
    if R is None:
        rep.machinery('ANCHOR-MISSING read_status_flags')
    else:
        d = Deps(R)
        srcs = [t['dest']['l'] for b, t in R.calls() if (t.get('callee') or '').endswith('::status_flags') and
                ('field', 'bpb') in d.of_operand(t['args'][0])]
        used = set()
        for bi in R.reachable():
            t = R.blocks[bi]['term']
            if t['k'] == 'switch':
                src = switch_source(R, bi)
                if src and src['kind'] == 'place':
                    used |= {tk[1] for tk in d.of_place(src['place']) if tk[0] == 'local'}
        used |= {tk[1] for tk in d.of_local(0) if tk[0] == 'local'}
        ok = any(l in used for l in srcs)
        rep.oblige('Q5', R.name, ok=ok, nontrivial=True)
        if not ok:
            rep.violation('Q5', vkey('Q5', R.name, 'bpb-bits', ''), R.loc(R.span),
                          'read_status_flags does not take the boot-sector status bits into account')

    # ---------------- Q6 a size change is bracketed too: the entry write-back itself never sets the flag
    # (DirEntryEditor::write goes to the device directly), so File::truncate must, after changing the recorded size,
    # cross something that sets it: set_dirty_flag(true) or a chain operation that writes the FAT on every Ok path
    TR = facts.fns.get('fatfs::file::File::truncate')
    CT = facts.fns.get('fatfs::table::ClusterIterator::truncate')
    TC = facts.fns.get('fatfs::fs::FileSystem::truncate_cluster_chain')
    if TR is None or CT is None or TC is None:
        rep.machinery('ANCHOR-MISSING File::truncate / ClusterIterator::truncate / truncate_cluster_chain')
    else:
        def base(f, b, t, names):
            c = t.get('callee') or ''
            if c.endswith('table::write_fat'):
                return True
            return c == W.name and const_operand_value(t['args'][-1]) == 1
        m6 = Must(facts, base)
        # ClusterIterator::truncate: the `no current cluster` arm of the test made on entry is not a path of
        # truncate_cluster_chain, which always passes a freshly built iterator (ClusterIterator::new stores Some)
        exempt = set()
        # blocks after which `*self` may have changed: calls that are handed `self` mutably, assignments through it
        mut_blocks = set()
        for bi in CT.reachable():
            for s_ in CT.blocks[bi]['stmts']:
                if s_['k'] == 'assign' and s_['lhs']['l'] == 1 and s_['lhs']['p']:
                    mut_blocks.add(bi)
            tt = CT.blocks[bi]['term']
            if tt['k'] == 'call':
                dct = Deps(CT)
                for a in tt['args']:
                    pa = op_place(a)
                    if pa is not None and CT.local_ty(pa['l']).get('k') == 'ref' and CT.local_ty(pa['l']).get('mut') and \
                            (pa['l'] == 1 or ('param', 1) in dct.of_local(pa['l'])) and \
                            not (tt.get('callee') or '').startswith(('log::', 'core::fmt::')):
                        mut_blocks.add(bi)
        after_mut = CT.reach_from([x for b in mut_blocks for x in CT.succ(b)]) if mut_blocks else set()
        for bi in CT.reachable():
            tt = CT.blocks[bi]['term']
            if tt['k'] != 'switch' or bi in after_mut:
                continue
            src0 = switch_source(CT, bi)
            if src0 and src0['kind'] == 'discr' and src0['place']['l'] == 1 and \
                    [e.get('n') for e in src0['place']['p'] if 'f' in e][-1:] == ['cluster']:
                some = [x for v, x in tt['targets'] if v == 1]
                exempt |= {(bi, x) for x in CT.succ(bi) if x not in some}
            elif src0 and src0['kind'] == 'discr' and src0['place']['l'] == 1 and [e for e in src0['place']['p'] if 'f' in e]:
                # the position kept as a private enum (`At(cluster)` / `End` / `Failed`): the arms of variants without a
                # payload are "no current cluster"
                from analyses import place_prefix_type
                pty_ = place_prefix_type(CT, src0['place'], len(src0['place']['p']))
                adt_ = facts.adts.get((pty_ or {}).get('path') or '')
                if adt_ and adt_.get('kind') == 'enum' and (pty_.get('path') or '').startswith('fatfs::'):
                    with_payload = {v.get('discr', i) for i, v in enumerate(adt_['variants']) if v.get('fields')}
                    if len(with_payload) == 1:
                        some = [x for v, x in tt['targets'] if v in with_payload]
                        exempt |= {(bi, x) for x in CT.succ(bi) if x not in some}
        NEW = facts.fns.get('fatfs::table::ClusterIterator::new')
        fresh = NEW is not None and any(
            s['k'] == 'assign' and s['rv']['k'] == 'agg' and (s['rv'].get('variant') == 'Some' or
                                                               ((s['rv'].get('adt') or '').startswith('fatfs::') and s['rv'].get('ops') and
                                                                facts.adts.get(s['rv'].get('adt'), {}).get('kind') == 'enum'))
            for bi in NEW.reachable() for s in NEW.blocks[bi]['stmts'])
        if not fresh:
            exempt = set()
        cut_ct = m6.crossing_edges(CT, set()) | exempt
        reach = CT.reach_from([0], cut_blocks=error_blocks(CT), cut_edges=cut_ct)
        ct_ok = not [r for r in CT.return_blocks() if r in reach]
        members = {CT.name} if ct_ok else set()
        tc_ok = m6.passes(TC, members)[0]
        if tc_ok:
            members.add(TC.name)
        # File::truncate: Ok paths after set_size
        sets = [b for b, t in TR.calls() if (t.get('callee') or '').endswith('DirEntryEditor::set_size')]
        cut = m6.crossing_edges(TR, members)
        # the chain-release arm (offset 0): free_cluster_chain frees at least the first cluster; the `already empty`
        # arm (first_cluster is None) changes nothing
        for b, t in TR.calls():
            if (t.get('callee') or '').endswith('FileSystem::free_cluster_chain'):
                cut |= {(b, x) for x in TR.succ(b)}
        for bi in TR.reachable():
            tt = TR.blocks[bi]['term']
            if tt['k'] == 'switch':
                src = switch_source(TR, bi)
                if src and src['kind'] == 'discr' and [e.get('n') for e in src['place']['p'] if 'f' in e][-1:] == ['first_cluster']:
                    some = [x for v, x in tt['targets'] if v == 1]
                    cut |= {(bi, x) for x in TR.succ(bi) if x not in some}
        before = TR.reach_from([0], cut_blocks=error_blocks(TR), cut_edges=cut)
        starts = [x for b in sets if b in before for x in TR.succ(b)]
        reach = TR.reach_from(starts, cut_blocks=error_blocks(TR), cut_edges=cut) if starts else set()
        bad = [r for r in TR.return_blocks() if r in reach]
        ok = bool(sets) and not bad
        rep.oblige('Q6', TR.name, ok=ok, nontrivial=True,
                   sample={'fn': TR.name, 'ClusterIterator::truncate always writes the FAT': ct_ok,
                           'truncate_cluster_chain always writes the FAT': tc_ok})
        if not ok:
            rep.violation('Q6', vkey('Q6', TR.name, 'size-change-unbracketed', ''), TR.loc(TR.span),
                          'File::truncate can change the recorded size and return Ok without anything having set the '
                          'dirty bit: the entry write-back does not set it, and %s' % (
                              'ClusterIterator::truncate has an Ok path that does not write the FAT' if not ct_ok else
                              'truncate_cluster_chain has an Ok path that does not write the FAT' if not tc_ok else
                              'a path after set_size crosses neither set_dirty_flag(true) nor a chain operation'))
    # ---------------- Q6b a table update is a device write on every Ok path (File::truncate / remove rely on the FS adapter
    # seeing that write to raise the dirty bit; an "unchanged, skip the write" shortcut in one width breaks it there only)
    RAW = ('write_u8', 'write_u16_le', 'write_u32_le')
    m_raw = Must(facts, lambda f, b, t, names: (t.get('callee') or '').rsplit('::', 1)[-1] in RAW or
                 (t.get('callee') or '').endswith(('io::Write::write_all', 'io::Write::write')))
    setraw_ok = {}
    for w_ in ('u8', 'u16', 'u32'):
        SR = facts.fns.get('<fatfs::table::Fat<%s> as fatfs::table::FatTrait>::set_raw' % w_)
        setraw_ok[w_] = SR is not None and m_raw.passes(SR, set())[0]
    for w_ in ('u8', 'u16', 'u32'):
        ST_ = facts.fns.get('<fatfs::table::Fat<%s> as fatfs::table::FatTrait>::set' % w_)
        if ST_ is None:
            rep.machinery('ANCHOR-MISSING Fat<%s>::set' % w_)
            continue
        m_set = Must(facts, lambda f, b, t, names, w_=w_: (t.get('callee') or '').rsplit('::', 1)[-1] in RAW or
                     ((t.get('callee') or '').endswith('::set_raw') and setraw_ok[w_]))
        ok = m_set.passes(ST_, set())[0]
        rep.oblige('Q6b', ST_.name, ok=ok, nontrivial=True,
                   sample={'fn': ST_.name, 'rule': 'every Ok exit crossed a device write', 'set_raw_always_writes': setraw_ok[w_]})
        if not ok:
            rep.violation('Q6', vkey('Q6', ST_.name, 'set-always-writes', ''), ST_.loc(ST_.span),
                          '%s can return Ok without having written the table: callers that change a file\'s size or a '
                          'directory rely on the table write passing through the FS adapter to raise the dirty bit (and on the '
                          'write reaching every FAT copy)' % ST_.name)
    rep.counts['Q1.sites'] = n_sites
