"""C19 - build features change only what they document (DESIGN.md section 4, R19.1-R19.3; A11 body diff).

R19.1  the function bodies that differ (or exist only) between the default build and the build without `alloc`
       resp. without `unicode` are confined to the documented set
R19.1b the functions that *use* a feature-dependent function are confined to the documented users (so that the
       difference cannot leak into other behaviour, e.g. into the bytes of a generated short name)
R19.3  both long-name buffer variants expose the same methods and the fixed buffer is big enough
(R19.2: every other property's rules are evaluated under every configuration by their thorough tiers)
"""
import hashlib
import re

from analyses import Deps
from core import vkey
from extract import ExtractError, extract
from model import Facts, op_const, op_place, operands_of_rvalue

# documented differences --------------------------------------------------------------------------------------------
NOALLOC_MAY_DIFFER = [
    r'^fatfs::dir::LfnBuffer::', r'^fatfs::dir::LongNameBuilder::', r'^<fatfs::dir::LfnBuffer as ',
    r'^fatfs::dir::Dir::encode_lfn_utf16', r'^<fatfs::dir_entry::DirEntry as core::clone::Clone>::clone',
    # String-returning accessors exist only with alloc
    r'^fatfs::dir_entry::DirEntry::(file_name|short_file_name)$', r'^fatfs::dir_entry::ShortName::to_string',
    r'^fatfs::dir_entry::DirFileEntryData::lowercase_name$', r'^fatfs::fs::FileSystem::(volume_label|read_volume_label_from_root_dir)($|::)',
    # chrono is not part of that feature set
    r'^fatfs::time::ChronoTimeProvider::', r'^<fatfs::time::ChronoTimeProvider as ', r'^<chrono::', r'chrono::naive',
    r'^<fatfs::time::(Date|DateTime) as core::convert::From<chrono',
    r'^fatfs::fs::FsOptions(<.*>)?::new$',  # DefaultTimeProvider alias resolves to another provider
]
NOUNICODE_MAY_DIFFER = [r'^fatfs::dir_entry::char_to_uppercase$', r'^fatfs::time::ChronoTimeProvider::', r'^<fatfs::time::ChronoTimeProvider as ',
                        r'^<chrono::', r'chrono::naive', r'^<fatfs::time::(Date|DateTime) as core::convert::From<chrono',
                        r'^fatfs::fs::FsOptions(<.*>)?::new$']
# who may call a feature-dependent function
UNICODE_USERS = [r'^fatfs::dir_entry::ShortName::eq_ignore_case', r'^fatfs::dir_entry::DirEntry::eq_name_lfn']


def fingerprint(fn):
    """normalised content of a body as a multiset of semantic events: calls (callee without generic arguments),
    operators with their constant operands, constructed variants, assigned field names, switch case values and
    asserts. Not included: spans, local numbers, types of locals, block order, and everything drop elaboration adds
    (drop terminators, drop flags and the switches on them) - a value that needs dropping in one configuration and not
    in the other (Vec vs array) does not change what the function does."""
    from collections import Counter
    ev = Counter()
    # drop flags: unnamed bool locals that are only ever assigned constants
    const_only = {}
    for b in fn.reachable():
        for s in fn.blocks[b]['stmts']:
            if s['k'] == 'assign' and not s['lhs']['p']:
                l = s['lhs']['l']
                is_const = s['rv']['k'] == 'use' and op_const(s['rv']['a']) is not None
                const_only[l] = const_only.get(l, True) and is_const
        t = fn.blocks[b]['term']
        if t['k'] == 'call' and not t['dest']['p']:
            const_only[t['dest']['l']] = False
    flags = {l for l, v in const_only.items() if v and fn.local_ty(l)['k'] == 'bool' and not fn.locals[l].get('name')}

    def op(o):
        c = op_const(o)
        if c is not None:
            return 'K%s' % (c.get('val') if c.get('val') is not None else (c.get('fn') or c.get('path') or ''))
        return 'P'
    # epilogue region: blocks from which only drop elaboration (flag updates, discriminant reads, drops) follows
    def quiet(b):
        blk = fn.blocks[b]
        for s in blk['stmts']:
            if s['k'] != 'assign':
                continue
            if s['lhs']['l'] in flags and not s['lhs']['p']:
                continue
            if s['rv']['k'] == 'discr' and not s['lhs']['p']:
                continue
            return False
        return blk['term']['k'] in ('goto', 'drop', 'switch', 'return')
    epi = {b for b in fn.reachable() if quiet(b)}
    changed = True
    while changed:
        changed = False
        for b in list(epi):
            if any(x not in epi for x in fn.succ(b)):
                epi.discard(b)
                changed = True
    for b in fn.reachable():
        if b in epi:
            continue
        blk = fn.blocks[b]
        for s in blk['stmts']:
            if s['k'] != 'assign':
                continue
            if (s['span'].get('expn') or '') in ('trace', 'debug', 'info', 'warn', 'error'):
                continue
            if s['lhs']['l'] in flags and not s['lhs']['p']:
                continue
            rv = s['rv']
            k = rv['k']
            fld = [e.get('n') for e in s['lhs']['p'] if 'f' in e and e.get('n')]
            if fld:
                ev['assign-field:' + fld[-1]] += 1
            if k == 'binop':
                ev['binop:%s:%s' % (rv['op'], ','.join(sorted(x for x in (op(rv['a']), op(rv['b'])) if x != 'P')))] += 1
            elif k == 'agg' and rv.get('ak') == 'adt':
                ev['agg:%s::%s' % (rv['adt'], rv['variant'])] += 1
            elif k == 'cast':
                ev['cast:%s' % rv.get('ck', '').split('(')[0]] += 1
            elif k == 'use':
                c = op_const(rv['a'])
                if c is not None and c.get('val') is not None and c['val'] > 1:
                    ev['const:%d' % c['val']] += 1
        t = blk['term']
        if (t['span'].get('expn') or '') in ('trace', 'debug', 'info', 'warn', 'error'):
            continue
        if t['k'] == 'call':
            callee = re.sub(r'<[^<>]*>', '', t.get('callee') or '?')
            if callee.endswith(('Deref::deref', 'DerefMut::deref_mut')):
                continue  # Vec -> slice derefs appear only in the alloc variant of otherwise identical code
            ev['call:' + callee] += 1
        elif t['k'] == 'switch':
            p = op_place(t['discr'])
            if p is not None and not p['p'] and p['l'] in flags:
                continue
            ev['switch:' + ','.join(str(v) for v, _ in t['targets'])] += 1
        elif t['k'] == 'assert':
            ev['assert:%s%s' % (t['msg']['kind'], t['msg'].get('op', ''))] += 1
    h = hashlib.sha256(repr(sorted(ev.items())).encode())
    return h.hexdigest()[:16]


def matches(name, pats):
    return any(re.search(p, name) for p in pats)


def users_of(facts, pred):
    """fatfs functions that call, or take the address of, a function satisfying pred"""
    out = {}
    for fn in facts.fns.values():
        if fn.crate != 'fatfs':
            continue
        for bi in fn.reachable():
            blk = fn.blocks[bi]
            names = []
            t = blk['term']
            if t['k'] == 'call':
                names.append(t.get('callee') or '')
                for a in t['args']:
                    c = op_const(a)
                    if c is not None and c.get('fn'):
                        names.append(c['fn'])
            for s in blk['stmts']:
                if s['k'] == 'assign':
                    for o in operands_of_rvalue(s['rv']):
                        c = op_const(o)
                        if c is not None and c.get('fn'):
                            names.append(c['fn'])
            for nm in names:
                if pred(nm) and not pred(fn.name):
                    out.setdefault(fn.name, set()).add(nm)
    return out


def run(ctx, rep):
    if ctx.config != 'default':
        return
    base = ctx.facts
    fps = {n: fingerprint(f) for n, f in base.fns.items() if f.crate == 'fatfs'}
    for cfg, allow in (('noalloc', NOALLOC_MAY_DIFFER), ('nounicode', NOUNICODE_MAY_DIFFER)):
        try:
            api, facts_p, dt = extract(cfg, ctx.repo)
        except ExtractError as e:
            rep.notes.append('configuration %s does not build on this tree: skipped (%s)' % (cfg, str(e)[-200:].replace('\n', ' ')))
            rep.counts['skipped:' + cfg] = 1
            continue
        other = Facts(api, facts_p)
        ofps = {n: fingerprint(f) for n, f in other.fns.items() if f.crate == 'fatfs'}
        names = sorted(set(fps) | set(ofps))
        ndiff = 0
        for n in names:
            if '{closure' in n:
                base_name = n.split('::{closure')[0]
            else:
                base_name = n
            a, b = fps.get(n), ofps.get(n)
            same = a == b
            if not same:
                ndiff += 1
            derived = False
            f = base.fns.get(n) or other.fns.get(n)
            if f is not None and f.span.get('expn'):
                derived = True  # derive / bitflags generated code follows the types
            ok = same or matches(base_name, allow) or derived
            if not ok:
                # a closure of a helper that was inlined into documented feature-dependent functions belongs to them
                homes = set()
                work = [base_name]
                while work:
                    x = work.pop()
                    for fb in (base, other):
                        for caller, _b in (getattr(fb, 'inlined', {}) or {}).get(x, ()):
                            if caller not in homes:
                                homes.add(caller)
                                work.append(caller)
                if homes and all(matches(h.split('::{closure')[0], allow) or
                                 (getattr(base, 'inlined', {}) or {}).get(h) or (getattr(other, 'inlined', {}) or {}).get(h)
                                 for h in homes):
                    ok = True
            rep.oblige('R19.1', '%s|%s' % (cfg, n), ok=ok, nontrivial=not same,
                       sample={'config_pair': 'default vs ' + cfg, 'fn': n, 'default': a, cfg: b} if not same else None)
            if not ok:
                where = f.loc(f.span) if f is not None else n
                rep.violation('R19.1', vkey('R19.1', n, cfg, ''), where,
                              'the body of %s %s between the default build and the `%s` build although it is not one of '
                              'the documented feature-dependent items' % (
                                  n, 'differs' if a and b else ('exists only in the default build' if a else
                                                                'exists only in the reduced build'), cfg))
        rep.notes.append('default vs %s: %d of %d fatfs bodies differ or exist on one side only' % (cfg, ndiff, len(names)))
        if ndiff == 0:
            rep.machinery('R19.1 default vs %s: no body differs at all (the reduced configuration was not analysed?)' % cfg)
    # ---------------- R19.4 without `unicode` the fold is ASCII upper-casing, exactly, for every ASCII character
    try:
        api, facts_p, dt = extract('nounicode', ctx.repo)
        nu = Facts(api, facts_p)
        CU = nu.fns.get('fatfs::dir_entry::char_to_uppercase')
        if CU is None:
            rep.machinery('ANCHOR-MISSING fatfs::dir_entry::char_to_uppercase in the build without `unicode`')
        else:
            from decision import decision_table

            def classify(w, blk, env, refs, phase):
                t = CU.blocks[blk]['term']
                c = env.get((1, ()))
                if phase == 'call' and (t.get('callee') or '').endswith('::once') and t['args']:
                    v = w.val_of_operand(env, refs, t['args'][0])
                    return 'unknown' if v is None or c is None else 'c%+d' % (v - c)
                if phase == 'exit':
                    return 'no-result'
                return None

            rows, _consts = decision_table(CU, (1, ()), CU.local_ty(1), 0, classify, extra_consts=range(0, 0x81), facts=nu)
            from decision import diff_tables
            want_tbl = [(0, 0x60, frozenset(['c+0'])), (0x61, 0x7A, frozenset(['c-32'])), (0x7B, 0x7F, frozenset(['c+0']))]
            got_tbl = [(a, min(b, 0x7F), o) for a, b, o in rows if a <= 0x7F]
            bad = []
            undecided = []
            for a, b, g, w_ in diff_tables(got_tbl, want_tbl):
                if g is None or any(x in ('unknown', 'no-result', 'BUDGET', 'MAYPANIC', 'LOOP') for x in g):
                    undecided.append((a, b, sorted(g or [])))
                else:
                    bad.append((a, b, '/'.join(sorted(g)), '/'.join(sorted(w_ or []))))
            if undecided and not bad:
                rep.notes.append('R19.4: the ASCII fold of the no-unicode build could not be evaluated for %s' % undecided[:3])
            rep.oblige('R19.4', CU.name, ok=not bad, nontrivial=True,
                       sample={'fn': CU.name, 'config': 'nounicode', 'ascii_values_decided': 128 - sum(b - a + 1 for a, b, _ in undecided),
                               'rule': "result is c-32 for 'a'..='z' and c for every other ASCII character"})
            if bad:
                rep.violation('R19.4', vkey('R19.4', CU.name, 'ascii-fold', ''), CU.loc(CU.span),
                              'without the `unicode` feature the case folding of ASCII characters differs from ASCII upper-casing '
                              '(which is what the default build does for them): %s' % '; '.join(
                                  'U+%04X..U+%04X gives %s, expected %s' % x for x in bad[:4]))
    except ExtractError:
        pass
    # ---------------- R19.1b users of the unicode-dependent function
    us = users_of(base, lambda nm: nm.endswith('dir_entry::char_to_uppercase'))
    for user, what in sorted(us.items()):
        ok = matches(user.split('::{closure')[0], UNICODE_USERS)
        rep.oblige('R19.1b', user, ok=ok, nontrivial=True, sample={'user_of_case_folding': user})
        if not ok:
            f = base.fns[user]
            rep.violation('R19.1b', vkey('R19.1b', user, 'char_to_uppercase', ''), f.loc(f.span),
                          '%s uses the `unicode`-dependent case folding although only name comparison may: the feature '
                          'would change more than case-insensitive matching (e.g. bytes written to the volume)' % user)
    if len(us) < 2:
        rep.machinery('FLOOR users of char_to_uppercase: %d (confirmed: eq_ignore_case, eq_name_lfn)' % len(us))
    # ---------------- R19.3
    try:
        api, facts_p, dt = extract('noalloc', ctx.repo)
        other = Facts(api, facts_p)
        a = sorted(n.rsplit('::', 1)[-1] for n in base.fns if n.startswith('fatfs::dir::LfnBuffer::'))
        b = sorted(n.rsplit('::', 1)[-1] for n in other.fns if n.startswith('fatfs::dir::LfnBuffer::'))
        ok = a == b and bool(a)
        rep.oblige('R19.3', 'LfnBuffer methods', ok=ok, nontrivial=True, sample={'alloc': a, 'fixed': b})
        if not ok:
            rep.violation('R19.3', vkey('R19.3', 'fatfs::dir::LfnBuffer', 'methods', ''), 'src/dir.rs',
                          'the two long-name buffer variants expose different methods: %s vs %s' % (a, b))
        c = other.consts
        buf = c.get('fatfs::dir::LONG_NAME_BUFFER_LEN', {}).get('val')
        ent = c.get('fatfs::dir::MAX_LONG_DIR_ENTRIES', {}).get('val')
        part = c.get('fatfs::dir_entry::LFN_PART_LEN', {}).get('val')
        mx = c.get('fatfs::dir::MAX_LONG_NAME_LEN', {}).get('val')
        ok = None not in (buf, ent, part, mx) and buf >= ent * part and buf >= mx and ent * part >= mx
        rep.oblige('R19.3', 'buffer size', ok=ok, nontrivial=True, sample={'buffer': buf, 'entries': ent, 'part': part, 'max': mx})
        if not ok:
            rep.violation('R19.3', vkey('R19.3', 'fatfs::dir::LONG_NAME_BUFFER_LEN', 'size', ''), 'src/dir.rs',
                          'the fixed long-name buffer (%s units) cannot hold %s slots of %s units / a %s-unit name: names '
                          'the alloc build handles are not handled by the fixed-buffer build' % (buf, ent, part, mx))
        # the fixed buffer's length bookkeeping is the identity, as Vec's is: set_len stores its argument unchanged,
        # len() returns the stored value unchanged (the decoder's `more than 255 units` test relies on it)
        SL = other.fns.get('fatfs::dir::LfnBuffer::set_len')
        LN = other.fns.get('fatfs::dir::LfnBuffer::len')
        probs = []
        if SL is None or LN is None:
            probs.append('set_len / len missing in the fixed-buffer build')
        else:
            ds = Deps(SL)
            stores = [s for bi in SL.reachable() for s in SL.blocks[bi]['stmts']
                      if s['k'] == 'assign' and s['lhs']['p'] and [e.get('n') for e in s['lhs']['p'] if 'f' in e][-1:] == ['len']]
            if not stores:
                probs.append('set_len does not store the length')
            for st_ in stores:
                toks = set()
                from model import operands_of_rvalue
                for o in operands_of_rvalue(st_['rv']):
                    toks |= ds.of_operand(o)
                if ('param', 2) not in toks or any(tk[0] in ('op', 'call') for tk in toks) or st_['rv']['k'] != 'use':
                    probs.append('set_len stores something other than its argument (%s)' % sorted(
                        tk[1] for tk in toks if tk[0] in ('op', 'call')))
            dl = Deps(LN)
            tr = dl.of_local(0)
            if ('field', 'len') not in tr or any(tk[0] in ('op', 'call') for tk in tr):
                probs.append('len() does not return the stored length unchanged')
        # R19.5 the fixed array holds stale units past `len`: nothing observes it as a whole (a derived comparison / hash of the
        # struct would), only through the prefix `as_ucs2_units` exposes - what the Vec-backed variant holds is exactly that prefix
        whole = []
        for n_, f_ in other.fns.items():
            if f_.crate != 'fatfs':
                continue
            for b_, t_ in f_.calls():
                c_ = t_.get('callee') or ''
                if not c_.endswith(('PartialEq::eq', 'PartialEq::ne', 'Hash::hash', 'PartialOrd::partial_cmp', 'Ord::cmp')):
                    continue
                for a_ in t_['args'][:2]:
                    pa_ = op_place(a_)
                    ty_ = f_.local_ty(pa_['l']) if pa_ is not None and not pa_['p'] else None
                    for _ in range(2):
                        if ty_ is not None and ty_.get('k') in ('ref', 'ptr'):
                            ty_ = f_.types[ty_['to']]
                    if ty_ is not None and ty_.get('k') == 'array' and buf is not None and ty_.get('len') == buf:
                        el_ = f_.types[ty_['of']]
                        if el_.get('k') == 'int' and el_.get('bits') == 16:
                            whole.append((n_, f_.loc(t_['span'])))
        rep.oblige('R19.5', 'fixed buffer observed as a whole', ok=not whole, nontrivial=True, sample={'sites': whole[:3]})
        if whole:
            rep.violation('R19.5', vkey('R19.5', whole[0][0], 'whole-array', ''), whole[0][1],
                          '%s compares / hashes the whole fixed long-name array: units past the current length are stale (whatever the '
                          'previous names left there), so two buffers holding the same name differ - the build with `alloc` compares '
                          'exactly the name' % whole[0][0])
        rep.oblige('R19.3', 'fixed-buffer length bookkeeping', ok=not probs, nontrivial=True)
        if probs:
            rep.violation('R19.3', vkey('R19.3', 'fatfs::dir::LfnBuffer', 'length-identity', ''), 'src/dir.rs',
                          'the fixed long-name buffer does not keep its length the way the Vec-backed one does: %s (the two '
                          'builds would decode the same slots to different names)' % '; '.join(probs))
    except ExtractError:
        pass
