"""Report / evidence plumbing shared by all rules."""
import hashlib
import json
import os
import re
import time

VERIF = os.path.dirname(os.path.dirname(os.path.abspath(__file__)))


def norm_snip(s):
    s = re.sub(r'\s+', ' ', s or '').strip()
    return s[:100]


class Violation:
    def __init__(self, prop, rule, key, where, msg, detail=None, control=False, config=None):
        self.prop = prop
        self.rule = rule
        self.key = key
        self.where = where
        self.msg = msg
        self.detail = detail or []
        self.control = control
        self.config = config

    def to_json(self):
        return {'property': self.prop, 'rule': self.rule, 'key': self.key, 'where': self.where, 'message': self.msg,
                'detail': self.detail, 'config': self.config}


class Report:
    """collects obligations, violations and control hits for one property under one configuration"""

    def __init__(self, prop, config):
        self.prop = prop
        self.config = config
        self.obligations = 0
        self.discharged = 0
        self.nontrivial = set()
        self.samples = []
        self.violations = []
        self.controls_hit = set()
        self.counts = {}
        self.notes = []
        self.machinery_errors = []

    def oblige(self, rule, site, ok=True, nontrivial=False, sample=None):
        """one rule instance examined. `site` is a short stable string."""
        if '::controls::' in site or 'control_' in site:
            # positive controls are deliberately violated: not part of the obligations on the repository
            self.counts['controls'] = self.counts.get('controls', 0) + 1
            return
        self.obligations += 1
        self.counts[rule] = self.counts.get(rule, 0) + 1
        if ok:
            self.discharged += 1
        if nontrivial:
            self.nontrivial.add((rule, site))
        if sample is not None and sum(1 for s in self.samples if s.get('rule') == rule) < 3:
            self.samples.append(dict({'rule': rule, 'site': site, 'config': self.config}, **sample))

    def violation(self, rule, key, where, msg, detail=None, control=False):
        v = Violation(self.prop, rule, key, where, msg, detail, control, self.config)
        if control:
            self.controls_hit.add(rule)
            return v
        if not any(x.key == key for x in self.violations):
            self.violations.append(v)
        return v

    def merge_rules(self, sub, prefixes):
        """take over from a sub-report only the rules whose id starts with one of the prefixes"""
        keep = lambda r: any(r == p or r.startswith(p + '.') for p in prefixes)
        for r, n in sub.counts.items():
            if keep(r):
                self.counts[r] = self.counts.get(r, 0) + n
                self.obligations += n
        bad = {}
        for v in sub.violations:
            if keep(v.rule):
                bad[v.rule] = bad.get(v.rule, 0) + 1
                if not any(x.key == v.key for x in self.violations):
                    self.violations.append(v)
        self.discharged += sum(n for r, n in sub.counts.items() if keep(r)) - sum(bad.values())
        self.nontrivial |= {x for x in sub.nontrivial if keep(x[0])}
        self.samples += [x for x in sub.samples if keep(x.get('rule', ''))]
        self.controls_hit |= {r for r in sub.controls_hit if keep(r)}
        self.machinery_errors += sub.machinery_errors
        self.notes += sub.notes

    def control(self, rule):
        self.controls_hit.add(rule)

    def machinery(self, msg):
        self.machinery_errors.append(msg)

    def floor(self, rule, minimum):
        n = self.counts.get(rule, 0)
        if n < minimum:
            self.machinery('FLOOR rule %s examined %d instances, below the confirmed floor %d (rule may be vacuous)' %
                           (rule, n, minimum))


def vkey(rule, fn_name, what, snip):
    return '%s|%s|%s|%s' % (rule, fn_name, what, norm_snip(snip))


# ---------------------------------------------------------------------------------------------
# known findings


def load_known(path=None):
    path = path or os.path.join(VERIF, 'known_findings.txt')
    known = {}
    fixed = []
    if not os.path.exists(path):
        return known, fixed
    for line in open(path):
        line = line.rstrip('\n')
        if not line or line.startswith('#'):
            continue
        m = re.match(r'^known: property=(\S+) key=(.*?) :: (.*)$', line)
        if m:
            known[(m.group(1), m.group(2))] = m.group(3)
            continue
        m = re.match(r'^fixed: property=(\S+) (\S+) (.*)$', line)
        if m:
            fixed.append((m.group(1), m.group(2), m.group(3)))
    return known, fixed


def tree_sha(repo):
    h = hashlib.sha256()
    src = os.path.join(repo, 'src')
    for root, dirs, files in sorted(os.walk(src)):
        dirs.sort()
        for f in sorted(files):
            p = os.path.join(root, f)
            h.update(p[len(repo):].encode())
            h.update(open(p, 'rb').read())
    for f in ('Cargo.toml', ):
        p = os.path.join(repo, f)
        if os.path.exists(p):
            h.update(open(p, 'rb').read())
    return h.hexdigest()[:16]
